//! Type-level witnesses (compile-fail doctests with compiling twins) for the typestate part of C17:
//! a repository whose index was loaded in the reduced "ids only" mode cannot be asked for index
//! entries (locations); only the full index mode offers that.
//!
//! Run with `cargo +nightly test --doc --offline` (error codes of `compile_fail` are only checked on nightly).

/// A repository indexed with ids only must not offer `get_index_entry`.
/// ```compile_fail,E0599
/// fn f(repo: &rustic_core::Repository<rustic_core::IndexedIdsStatus>, id: &rustic_core::DataId) {
///     let _ = repo.get_index_entry(id);
/// }
/// ```
pub struct IdsIndexHasNoLocations;

/// Compiling twin: the same call type-checks on a fully indexed repository (so the failure above is the
/// typestate, not a wrong path or signature).
/// ```no_run
/// fn f(repo: &rustic_core::Repository<rustic_core::IndexedFullStatus>, id: &rustic_core::DataId) {
///     let _ = repo.get_index_entry(id);
/// }
/// ```
pub struct FullIndexHasLocations;

/// An opened but not indexed repository offers neither presence nor location queries through the index.
/// ```compile_fail,E0599
/// fn f(repo: &rustic_core::Repository<rustic_core::OpenStatus>, id: &rustic_core::DataId) {
///     let _ = repo.get_index_entry(id);
/// }
/// ```
pub struct OpenRepositoryHasNoIndex;
