#!/bin/bash
# Full regression of the checker itself (not part of any MANIFEST command; takes 1-2 h):
#  1. every quick check on the unchanged tree must be silent
#  2. every behaviour-preserving patch in neutral/ must leave every check silent      (tools/tryneutral.sh)
#  3. every breaking patch in mutants/ and seeded/ must be caught by its property      (tools/selftest.py)
# /repo is never modified: everything runs on scratch copies under /var/tmp.
cd /verif || exit 9
echo "== 1. unchanged tree"
for i in $(seq -w 1 20); do ./check C$i --no-evidence | tail -1; done
echo "== 1b. unchanged tree, thorough configurations (default + cli), without the control replays"
for i in $(seq -w 1 20); do VERIF_NO_CONTROLS=1 ./check C$i --tier thorough --no-evidence | tail -1; done
echo "== 2. neutral corpus"
for f in neutral/*.diff; do n=$(basename $f .diff); r=$(tools/tryneutral.sh $f 2>&1 | tr '\n' ' '); echo "$n: $r"; done
echo "== 3. breaking corpus"
python3 tools/selftest.py
