import json,sys
p,d=sys.argv[1],sys.argv[2]
rec=[json.loads(l) for l in open('/verif/properties.jsonl') if json.loads(l)['id']==p][0]
print(f"""You are helping to evaluate how well a verification effort for the Rust library rustic_core (a restic-compatible backup library) detects realistic regressions. You get ONE semantic property of the library and your own scratch git worktree of the repository. Your job: write THREE independent changes to the library source that each BREAK this property while the crate still compiles and the existing test suite still passes, and for each a demonstration test that fails with the change and passes without it.

The property (JSON record):
{json.dumps(rec,indent=1)}

Your worktree: /tmp/seed/{d}/wt  (a git worktree; `target/` inside it is a pre-warmed build directory, keep using it; never delete it). Work ONLY inside /tmp/seed/{d}/. Do NOT read or touch /repo or /verif or other directories under /tmp/seed. There is no network: always pass --offline to cargo.

What kind of change: a realistic regression a maintainer could plausibly introduce (a refactoring slip, an "optimisation", a mishandled edge case, a reordering, a dropped error, state shared where it should not be, two sites that each look fine alone but disagree...). It must need something SPECIFIC to manifest - a particular interleaving, a crash or backend fault at a particular point, a multi-step sequence of operations, an unusual input or configuration, or two cooperating sites - not something ordinary use would expose at once. The three changes must use three different mechanisms and touch different functions (preferably different files among the property's anchors). Do not add cfg flags, env-var switches, or "if input == magic" backdoors; do not touch tests, fixtures or Cargo files in the patch. Keep each patch small (typically 1-30 changed lines) and make it look like honest code.

For each change K in 1..3 produce, in /tmp/seed/{d}/out/mK/:
  - patch.diff : `git diff` of the library source change only (relative to the clean worktree HEAD; must apply with `git apply` at the worktree root; the demo test must NOT be in it)
  - seed_demo_mK.rs : the demonstration, an integration test file to be placed at crates/core/tests/seed_demo_mK.rs (use only the crate's public API and dev-dependencies that already exist: look at crates/core/tests/ and crates/core/Cargo.toml for what is available, e.g. rustic_testing's in-memory backend, tempfile; if the demo must live in another package say so via "demo_pkg" and "demo_path" in meta.json). It must PASS on the clean tree and FAIL (assertion/panic/error) with the patch applied, deterministically.
  - meta.json : {{"property": "{p}", "summary": "<what was changed and why it breaks the property>", "needs_to_manifest": "<the specific input / schedule / fault / sequence needed>", "demo_path": "crates/core/tests/seed_demo_mK.rs", "demo_cmd": "cargo test -p rustic_core --test seed_demo_mK --offline", "ran": ["<commands you ran and their outcome>"]}}

You must confirm all of this yourself before writing an mK directory:
  1. with the patch applied, `cargo test --workspace --no-fail-fast --offline --lib --bins --tests` compiles and shows ONLY these four pre-existing failures: errors::test_error_debug, errors::test_error_display, integration::check::test_check::case_3, integration::check::test_check::case_4 (they fail on the clean tree too). Any other failing existing test means the change is not acceptable - pick another change.
  2. the demo passes on the clean tree and fails with the patch.
A full suite run takes a few minutes; builds are incremental. Other agents share this 16-core machine, so be patient and avoid needless rebuilds (e.g. develop the demo first on the clean tree, then apply the change).

When you are done leave the worktree clean (`git checkout -- . && git clean -fdq -e target` in the worktree; keep target/). Your final answer: for each mK one paragraph - file/function changed, mechanism, what is needed to manifest, and the verification results; also mention anything you noticed in the existing code that already seems to violate the property (with the concrete failing input), if anything.""")
