#!/bin/bash
# usage: firstsight.sh <D> ... : runs every seed of <D> against all twenty checks (own property first)
cd /verif
ALL=$(seq -w 1 20 | sed 's/^/C/')
for D in "$@"; do
  P=${D%r5}
  for M in m1 m2 m3; do
    f=/tmp/seed/$D/out/$M/patch.diff
    [ -f $f ] || { echo "FS $D/$M no-patch"; continue; }
    rest=$(echo $ALL | tr ' ' '\n' | grep -v $P | tr '\n' ' ')
    out=$(tools/trymut3.sh $f $P $rest 2>&1)
    echo "$out" > /tmp/seed/$D/$M.firstsight.log
    own=$(echo "$out" | grep -E "key=$P/" | sed 's/.*key=//' | tr '\n' ' ')
    other=$(echo "$out" | grep -E "key=" | grep -v "key=$P/" | sed 's/.*key=//' | tr '\n' ' ')
    err=$(echo "$out" | grep -E "CHECKER|does not apply" | head -2 | tr '\n' ' ')
    echo "FS $D/$M own=[ $own] other=[ $other] $err"
  done
done
