#!/usr/bin/env python3
"""Writes RULES.md: per property, the rule module's docstring (the rules as built) and, from the last evidence file,
the number of obligations per rule on the current tree. Regenerate after changing rules: python3 tools/gen_rules_doc.py"""
import ast, glob, json, os, collections
V = os.path.dirname(os.path.dirname(os.path.abspath(__file__)))
out = ["# Rules as built (generated from rules/Cxx.py docstrings and evidence/)\n"]
for f in sorted(glob.glob(f"{V}/rules/C*.py")):
    pid = os.path.basename(f)[:-3]
    src = open(f).read()
    doc = ast.get_docstring(ast.parse(src)) or ""
    out.append(f"## {pid}\n\n```\n{doc}\n```\n")
    ev = f"{V}/evidence/{pid}.json"
    if os.path.exists(ev):
        e = json.load(open(ev))
        cov = e.get("coverage", {})
        cnt = collections.Counter(s["rule"] for s in cov.get("samples", []))
        out.append(f"Last run ({e.get('tier')}): {cov.get('obligations')} obligations, {cov.get('discharged')} discharged; per rule (sampled): " +
                   ", ".join(f"{r}×{n}" for r, n in sorted(cnt.items())) + "\n")
for name in ("order", "errprop", "flush", "typedid", "arith"):
    doc = ast.get_docstring(ast.parse(open(f"{V}/rules/{name}.py").read())) or ""
    out.append(f"## shared: rules/{name}.py\n\n```\n{doc}\n```\n")
open(f"{V}/RULES.md", "w").write("\n".join(out))
print("RULES.md written")
