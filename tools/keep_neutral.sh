#!/bin/bash
# usage: keep_neutral.sh <Cxx> [round-suffix, e.g. 2]   copies /tmp/seed/<Cxx>n<suffix>/out/n*/ {patch.diff,meta.json} into neutral/<Cxx>n<suffix>-n<k>.*
P=$1; R=$2
for d in /tmp/seed/${P}n${R}/out/n*; do k=$(basename $d); [ -f $d/patch.diff ] || continue; cp $d/patch.diff /verif/neutral/${P}n${R}-$k.diff; cp $d/meta.json /verif/neutral/${P}n${R}-$k.meta.json 2>/dev/null; done
ls /verif/neutral/${P}n${R}-* | wc -l
