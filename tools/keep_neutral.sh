#!/bin/bash
# usage: keep_neutral.sh <Cxx>   copies /tmp/seed/<Cxx>n/out/n*/ {patch.diff,meta.json} into neutral/<Cxx>n-n<k>.*
P=$1
for d in /tmp/seed/${P}n/out/n*; do k=$(basename $d); [ -f $d/patch.diff ] || continue; cp $d/patch.diff /verif/neutral/${P}n-$k.diff; cp $d/meta.json /verif/neutral/${P}n-$k.meta.json 2>/dev/null; done
ls /verif/neutral/${P}n-* | wc -l
