#!/bin/bash
# usage: seed_setup.sh <dir name, e.g. C01r5> : scratch worktree of /repo with a warm copy of the stable test build
D=$1; B=/tmp/seed/$D
mkdir -p $B/out
git -C /repo worktree add --detach -f $B/wt HEAD >/dev/null 2>&1 || exit 9
mkdir -p $B/wt/target && rsync -a --exclude examples --exclude incremental /repo/target/ $B/wt/target/
echo ready $B/wt
