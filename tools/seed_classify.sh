#!/bin/bash
# classify extra failures in suite logs: flake iff the test's panic is at index.rs:312 (index still in use) or a warm_up timing assertion
for f in /tmp/seed/*/m?.suite.log; do
  D=$(basename $(dirname $f)); M=$(basename $f .suite.log)
  extra=$(grep -E "^test .* FAILED$" $f | sed -E 's/^test (.*) \.\.\. FAILED/\1/' | grep -v -E "test_error_debug|test_error_display|test_check::case_3|test_check::case_4")
  bad=""
  for t in $extra; do
    if grep -A1 "thread '$t'" $f | grep -q "index.rs:312\|index still in use"; then :; elif echo $t | grep -q warm_up; then :; else bad="$bad $t"; fi
  done
  echo "CLASS $D/$M extra=$(echo $extra | wc -w) non-flake=[${bad}]"
done
