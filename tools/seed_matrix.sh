#!/bin/bash
# runs every archived seeded change against the quick check of its property; prints one line per seed
cd /verif
for d in seeded/*/; do
  n=$(basename $d); p=${n%%-*}
  if ! git -C /repo apply --check /verif/$d/patch.diff 2>/dev/null; then echo "$n DOES-NOT-APPLY"; continue; fi
  out=$(tools/trymut.sh $d/patch.diff $p 2>&1)
  keys=$(echo "$out" | grep "key=" | sed 's/.*key=//' | grep -v -F -f <(python3 -c "
import json
for k in json.load(open('known_findings.json')):
    if k['status']=='known': print(k['key'])") | tr '\n' ' ')
  if echo "$out" | grep -q "^VIOLATION"; then echo "$n CAUGHT $keys"; elif echo "$out" | grep -q CHECKER-ERROR; then echo "$n CHECKER-ERROR $(echo "$out" | grep CHECKER | head -1 | cut -c1-200)"; else echo "$n MISSED"; fi
done
