#!/bin/bash
# usage: tools/tryneutral.sh <patch.diff> [Cxx ...]   runs all (or the given) quick checks on the scratch copy; prints only alarms
P=$1; shift
PROPS=${@:-C01 C02 C03 C04 C05 C06 C07 C08 C09 C10 C11 C12 C13 C14 C15 C16 C17 C18 C19 C20}
out=$(tools/trymut3.sh $P $PROPS 2>&1)
echo "$out" | grep -E "^(VIOLATION|CHECKER|  key=)|does not apply" | grep -v "^VIOLATION" | sort -u
echo "$out" | grep -cE "^C[0-9]+ \[" | sed 's/^/checks run: /'
