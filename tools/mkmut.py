#!/usr/bin/env python3
"""usage: mkmut.py <name> <file-relative-to-/repo> <<< JSON {"old": "...", "new": "..."}  (or several edits: list)
writes /verif/mutants/<name>.diff (git diff of the edit) and reverts /repo"""
import json, subprocess, sys
import os
REPO = os.environ.get("MUT_REPO", "/repo")
name, rel = sys.argv[1], sys.argv[2]
edits = json.load(sys.stdin)
if isinstance(edits, dict):
    edits = [edits]
if subprocess.run(["git", "-C", REPO, "diff", "--quiet"]).returncode != 0:
    sys.exit(REPO + " dirty")
p = REPO + "/" + rel
s = open(p).read()
for e in edits:
    if s.count(e["old"]) != 1:
        sys.exit(f"old text occurs {s.count(e['old'])} times: {e['old'][:60]!r}")
    s = s.replace(e["old"], e["new"])
open(p, "w").write(s)
d = subprocess.check_output(["git", "-C", REPO, "diff"], text=True)
subprocess.check_call(["git", "-C", REPO, "checkout", "--", "."])
open(f"/verif/mutants/{name}.diff", "w").write(d)
print(f"wrote mutants/{name}.diff ({len(d.splitlines())} lines)")
