#!/bin/bash
# usage: tools/trymut3.sh <patch.diff> <Cxx> [<Cyy> ...]
# like trymut2.sh (scratch copy MUT_REPO, never /repo) but runs the checks in parallel: the first check performs the fact
# extraction for the patched tree, the others (up to 8 at a time) reuse it.
S=${MUT_REPO:-/var/tmp/rc-pristine}
P=$(readlink -f "$1"); shift
if [ ! -d "$S/.git" ]; then
  rm -rf "$S"; mkdir -p "$S" && git -C /repo archive HEAD | tar -x -C "$S" && (cd "$S" && git init -q . && git add -A >/dev/null && git -c user.email=a@b -c user.name=x commit -qm base) || exit 9
fi
cd "$S" || exit 9
git checkout -q -- . ; git clean -fdq >/dev/null 2>&1
git apply "$P" || { echo "patch does not apply"; exit 9; }
trap 'git -C "$S" checkout -q -- . ; git -C "$S" clean -fdq >/dev/null 2>&1' EXIT
cd /verif
first=$1; shift
./check $first --no-evidence --repo "$S" 2>&1 | grep -E "^(VIOLATION|KNOWN|CHECKER|C[0-9]+ \[|  key=)" | cut -c1-300
if [ $# -gt 0 ]; then
  printf "%s\n" "$@" | xargs -P 8 -I{} sh -c './check {} --no-evidence --repo "'"$S"'" 2>&1 | grep -E "^(VIOLATION|KNOWN|CHECKER|C[0-9]+ \[|  key=)" | cut -c1-300'
fi
