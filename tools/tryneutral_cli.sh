#!/bin/bash
# usage: tools/tryneutral_cli.sh <patch.diff>   like tryneutral.sh, but every check runs in the thorough configurations
# (default + cli feature set) without the control replays; prints only alarms
S=${MUT_REPO:-/var/tmp/rc-pristine}
P=$(readlink -f "$1")
cd "$S" || exit 9
git checkout -q -- . ; git clean -fdq >/dev/null 2>&1
git apply "$P" || { echo "patch does not apply"; exit 9; }
trap 'git -C "$S" checkout -q -- . ; git -C "$S" clean -fdq >/dev/null 2>&1' EXIT
cd /verif
out=$( (VERIF_NO_CONTROLS=1 ./check C01 --tier thorough --no-evidence --repo "$S" 2>&1; printf "%s\n" C02 C03 C04 C05 C06 C07 C08 C09 C10 C11 C12 C13 C14 C15 C16 C17 C18 C19 C20 | xargs -P 8 -I{} sh -c 'VERIF_NO_CONTROLS=1 ./check {} --tier thorough --no-evidence --repo "'"$S"'" 2>&1') )
echo "$out" | grep -E "^(CHECKER|  key=)" | sort -u
echo "$out" | grep -cE "^C[0-9]+ \[" | sed 's/^/checks run: /'
