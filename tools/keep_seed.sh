#!/bin/bash
# usage: keep_seed.sh <prop> <mk>  : archive a verified seeded change under /verif/seeded/<prop>-<mk>/
P=$1; M=$2; SRC=/tmp/seed/$P/out/$M; DST=/verif/seeded/$P-$M
mkdir -p $DST
cp $SRC/patch.diff $DST/
DEMO=$(python3 -c "import json;print(json.load(open('$SRC/meta.json'))['demo_path'])")
cp $SRC/$(basename $DEMO) $DST/
python3 - "$SRC" "$DST" "$P" "$M" <<'PY'
import json,sys,re
src,dst,p,m=sys.argv[1:5]
meta=json.load(open(src+'/meta.json'))
res=[l.strip() for l in open(f'/tmp/seed/{p}/verify.log') if l.startswith(f'RESULT {p}/{m} ')]
meta['verified_by_me']={'how':'tools verify: demo on clean worktree (must pass), demo with patch (must fail), full `cargo test --workspace --no-fail-fast --offline` with patch','result':res[-1] if res else None}
json.dump(meta,open(dst+'/meta.json','w'),indent=1)
PY
echo kept $DST
