#!/bin/bash
# usage: keep_seed2.sh <Cxx> <srcdir name under /tmp/seed, e.g. C15r2> <mk> <first-sight: caught|missed>
P=$1; D=$2; M=$3; FS=$4; SRC=/tmp/seed/$D/out/$M; R=${D#$P}; DST=/verif/seeded/$P-${R}$M
mkdir -p $DST
cp $SRC/patch.diff $DST/
DEMO=$(python3 -c "import json;print(json.load(open('$SRC/meta.json'))['demo_path'])")
cp $SRC/$(basename $DEMO) $DST/
python3 - "$SRC" "$DST" "$D" "$M" "$FS" <<'PY'
import json,sys
src,dst,d,m,fs=sys.argv[1:6]
meta=json.load(open(src+'/meta.json'))
res=[l.strip() for l in open(f'/tmp/seed/{d}/verify.log') if l.startswith(f'RESULT {d}/{m} ')]
meta['verified_by_me']={'how':'tools verify: demo on clean worktree (must pass), demo with patch (must fail), full `cargo test --workspace --no-fail-fast --offline` with patch','result':res[-1] if res else None}
meta['first_sight']=fs
json.dump(meta,open(dst+'/meta.json','w'),indent=1)
PY
echo kept $DST
