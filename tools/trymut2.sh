#!/bin/bash
# usage: tools/trymut2.sh <patch.diff> <Cxx> [<Cyy> ...]
# like trymut.sh but never touches /repo: applies the patch to a scratch copy (MUT_REPO, default /var/tmp/rc-pristine,
# created from /repo's HEAD if missing), runs the quick checks against it with --repo, and reverts the copy.
S=${MUT_REPO:-/var/tmp/rc-pristine}
P=$(readlink -f "$1"); shift
if [ ! -d "$S/.git" ]; then
  rm -rf "$S"; mkdir -p "$S" && git -C /repo archive HEAD | tar -x -C "$S" && (cd "$S" && git init -q . && git add -A >/dev/null && git -c user.email=a@b -c user.name=x commit -qm base) || exit 9
fi
cd "$S" || exit 9
git checkout -q -- . ; git clean -fdq >/dev/null 2>&1
git apply "$P" || { echo "patch does not apply"; exit 9; }
trap 'git -C "$S" checkout -q -- . ; git -C "$S" clean -fdq >/dev/null 2>&1' EXIT
cd /verif
for c in "$@"; do
  ./check $c --no-evidence --repo "$S" 2>&1 | grep -E "^(VIOLATION|KNOWN|CHECKER|C[0-9]+ \[|  key=)" | cut -c1-300
done
