#!/usr/bin/env python3
"""regenerates MANIFEST.json from rules/*.py metadata (LEVEL, LEVEL_TEXT, LEVEL_NOTE, TECHNIQUE) and NOT_APPLICABLE below"""
import importlib, json, os, sys
HERE = os.path.dirname(os.path.dirname(os.path.abspath(__file__)))
sys.path.insert(0, HERE); sys.path.insert(0, os.path.join(HERE, "engine"))
props = [json.loads(l) for l in open(os.path.join(HERE, "properties.jsonl"))]
NOT_APPLICABLE = json.load(open(os.path.join(HERE, "tools", "not_applicable.json")))
checks, na = [], []
for p in props:
    pid = p["id"]
    try:
        m = importlib.import_module(f"rules.{pid}")
    except ModuleNotFoundError:
        na.append({"property_id": pid, "reason": NOT_APPLICABLE.get(pid, "no static rule built yet for this property (see DESIGN.md §4)")})
        continue
    checks.append({
        "property_id": pid,
        "quick_cmd": f"./check {pid} --tier quick",
        "thorough_cmd": f"./check {pid} --tier thorough",
        "evidence_file": f"/verif/evidence/{pid}.json",
        "replay_cmd_template": f"./check {pid} --replay {{path}}",
        "engine": "rcfacts+rules",
        "level_claimed": {"category": getattr(m, "LEVEL", "other"), "text": getattr(m, "LEVEL_TEXT", m.EXPLANATION), "design_ref": f"DESIGN.md §4/{pid}"},
        "level_note": getattr(m, "LEVEL_NOTE", "Decides the structural clauses listed in the module docstring (necessary conditions), not the runtime behaviour. "
                              "Trusted: rustc type checker/MIR, the rcfacts driver, the python engine; not analysed: non-linux cfg branches, cfg(test), third-party crates. ") + " Not decided: " + "; ".join(getattr(m, "NOT_DECIDED", [])),
        "technique": getattr(m, "TECHNIQUE", "static analysis: custom rules over rustc MIR/type facts (rustc_private driver): call-graph effect summaries, CFG dominance/control dependence, path-sensitive guard reachability"),
    })
man = {
    "version": 1,
    "setup_cmd": "./setup.sh",
    "hooks": {"guard": "rustic_rs_rustic_core_verif", "enable": "none needed: static analysis reads /repo's sources through the compiler; no instrumentation",
              "baseline_off_cmd": "cd /repo && cargo test --workspace --no-fail-fast --offline", "source_commits": [], "add_only": True},
    "engines": [{"name": "rcfacts+rules", "path": "driver/ engine/ rules/", "serves_properties": [c["property_id"] for c in checks],
                 "kind_free_text": "rustc_private fact extractor (MIR, resolved callees, ADTs, consts) + python rule engine (call graph, effect summaries, dominators, control dependence, path-sensitive reachability, slicing)"}],
    "checks": checks,
    "not_applicable": na,
    "notes": "Static analysis only. Every check re-extracts facts from /repo's current working tree (cached by content hash of all sources + driver).",
}
json.dump(man, open(os.path.join(HERE, "MANIFEST.json"), "w"), indent=1)
print(f"{len(checks)} checks, {len(na)} not applicable")
