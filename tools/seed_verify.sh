#!/bin/bash
# usage: seed_verify.sh <dir name, e.g. C01r5> <mk> : re-verifies one seeded change in its scratch worktree
#  demo on the clean worktree must pass, demo with the patch must fail, the workspace suite with the patch must show only
#  the four baseline failures (+ the demo). Appends one RESULT line to /tmp/seed/<D>/verify.log.
D=$1; M=$2; B=/tmp/seed/$D; W=$B/wt; S=$B/out/$M
cd $W || exit 9
git checkout -q -- . ; git clean -fdq -e target >/dev/null 2>&1
DEMO=$(python3 -c "import json;print(json.load(open('$S/meta.json'))['demo_path'])")
T=$(basename $DEMO .rs)
mkdir -p $(dirname $DEMO); cp $S/$(basename $DEMO) $DEMO
for extra in $(python3 -c "import json;print(' '.join(json.load(open('$S/meta.json')).get('extra_files',[])))"); do mkdir -p $(dirname $extra); cp $S/$(basename $extra) $extra; done
export CARGO_NET_OFFLINE=true
PKG=$(python3 -c "import json;print(json.load(open('$S/meta.json')).get('demo_pkg','rustic_core'))")
cargo test -p $PKG --test $T --offline > $B/$M.clean.log 2>&1; C=$?
git apply $S/patch.diff || { echo "RESULT $D/$M patch-does-not-apply" >> $B/verify.log; exit 9; }
cargo test -p $PKG --test $T --offline > $B/$M.patched.log 2>&1; P=$?
rm -f $DEMO
cargo test --workspace --no-fail-fast --offline --lib --bins --tests > $B/$M.suite.log 2>&1
PASSED=$(grep -E "^test result" $B/$M.suite.log | sed -E 's/.* ([0-9]+) passed.*/\1/' | paste -sd+ | bc)
FAILED=$(grep -E "^test .* FAILED$" $B/$M.suite.log | sed -E 's/^test (.*) \.\.\. FAILED/\1/' | sed 's/.*:://' | sort | tr '\n' ' ')
CE=$(grep -c "^error" $B/$M.suite.log)
echo "RESULT $D/$M demo_clean_exit=$C demo_patched_exit=$P suite_passed=$PASSED compile_errors=$CE failed=[ $FAILED]" >> $B/verify.log
git checkout -q -- . ; git clean -fdq -e target >/dev/null 2>&1
tail -1 $B/verify.log
