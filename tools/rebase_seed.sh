#!/bin/bash
# usage: rebase_seed.sh <seed-dir> <file-rel> <<< JSON edits   (re-creates patch.diff against the current /repo HEAD;
# the original patch is kept as patch.orig.diff)
D=$1; F=$2
[ -f $D/patch.orig.diff ] || cp $D/patch.diff $D/patch.orig.diff
python3 tools/mkmut.py _tmp_rebase $F && mv mutants/_tmp_rebase.diff $D/patch.diff && python3 - "$D" <<'PY'
import json,sys
d=sys.argv[1]
m=json.load(open(d+'/meta.json'))
m['rebased']='patch.diff was re-created against the repaired tree (a `fix:` commit touched the same lines); the original is patch.orig.diff'
json.dump(m,open(d+'/meta.json','w'),indent=1)
PY
