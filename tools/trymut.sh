#!/bin/bash
# usage: tools/trymut.sh <patch.diff> <Cxx> [<Cyy> ...]
# applies the patch to /repo, runs the quick checks (no evidence written), and reverts /repo.
P=$(readlink -f "$1"); shift
cd /repo || exit 9
if ! git diff --quiet; then echo "/repo has uncommitted changes; refusing"; exit 9; fi
git apply "$P" || { echo "patch does not apply"; exit 9; }
trap 'git -C /repo checkout -- . ' EXIT
cd /verif
for c in "$@"; do
  ./check $c --no-evidence 2>&1 | grep -E "^(VIOLATION|KNOWN|CHECKER|C[0-9]+ \[|  key=)" | cut -c1-300
done
