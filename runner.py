"""Check runner: loads facts, runs the rules of a property, triages against known findings,
writes evidence + replay files, prints the interface lines."""
import importlib
import json
import os
import sys
import time

HERE = os.path.dirname(os.path.abspath(__file__))
sys.path.insert(0, os.path.join(HERE, "engine"))

import extract
from facts import Program, AnchorError
from callgraph import CallGraph


class CheckerError(Exception):
    pass


class Ob:
    __slots__ = ("rule", "key", "ok", "where", "what", "detail", "nontrivial")

    def __init__(self, rule, key, ok, where, what, detail, nontrivial):
        self.rule, self.key, self.ok, self.where, self.what, self.detail, self.nontrivial = rule, key, ok, where, what, detail, nontrivial

    def to_json(self):
        return {"rule": self.rule, "key": self.key, "verdict": "holds" if self.ok else "VIOLATED", "where": self.where,
                "what": self.what, **({"detail": self.detail} if self.detail else {})}


class Report:
    def __init__(self, prop):
        self.prop = prop
        self.obs = []
        self.notes = []
        self.analysed = {}
        self.not_decided = []
        self.rules = {}
        self.observations = []
        self._keys = set()

    def rule(self, rid, text):
        self.rules[rid] = text

    def check(self, rule, key, ok, where="", what="", detail=None, nontrivial=True):
        """one obligation; key is position-free: <rule>/<function>[/<callee-or-field>[/<ordinal>]]"""
        full = f"{self.prop}/{rule}/{key}"
        if full in self._keys:
            n = 2
            while f"{full}#{n}" in self._keys:
                n += 1
            full = f"{full}#{n}"
        self._keys.add(full)
        self.obs.append(Ob(rule, full, bool(ok), where, what, detail, nontrivial))
        return bool(ok)

    def require(self, rule, key, ok, where="", what="", detail=None):
        """an obligation whose failure means 'the construct the rule protects is gone' (a violation)"""
        return self.check(rule, key, ok, where, what, detail)

    def floor(self, rule, name, count, minimum):
        """instance-count floor of the checker itself: below it the rule would pass vacuously -> no verdict"""
        self.analysed[f"{rule}:{name}"] = count
        if count < minimum:
            raise CheckerError(f"{self.prop}/{rule}: {name} = {count} below floor {minimum} (anchor lost; rule would be vacuous)")

    def note(self, s):
        self.notes.append(s)

    def observe(self, s):
        self.observations.append(s)

    def count(self, name, n):
        self.analysed[name] = n


class Ctx:
    def __init__(self, prop, tier, seed, config="default", repo=None):
        self.prop = prop
        self.tier = tier
        self.seed = seed
        self.config = config
        self._prog = None
        self._cg = None
        self.extract_info = None
        self.repo = repo or extract.REPO

    @property
    def prog(self):
        if self._prog is None:
            try:
                d, info = extract.facts_dir(self.config, self.repo)
            except extract.ExtractError as e:
                raise CheckerError(str(e))
            self.extract_info = info
            self._prog = Program(d)
            import pathsens
            pathsens.register_adts(self._prog.adts)
        return self._prog

    @property
    def cg(self):
        if self._cg is None:
            self._cg = CallGraph(self.prog)
        return self._cg


def load_known():
    p = os.path.join(HERE, "known_findings.json")
    if not os.path.exists(p):
        return []
    with open(p) as fh:
        return json.load(fh)


def run_property(prop, tier, seed, replay=None, write_evidence=True, verbose=False, t0=None):
    t0 = t0 or time.time()
    try:
        mod = importlib.import_module(f"rules.{prop}")
    except ModuleNotFoundError as e:
        raise CheckerError(f"no rules for {prop}: {e}")
    configs = ["default"]
    if tier == "thorough":
        configs += getattr(mod, "EXTRA_CONFIGS", ["cli"])
    reports = []
    infos = []
    for cfg in configs:
        ctx = Ctx(prop, tier, seed, cfg)
        rep = Report(prop)
        try:
            mod.run(ctx, rep)
        except AnchorError as e:
            raise CheckerError(f"[{cfg}] {e}")
        reports.append((cfg, rep))
        infos.append(ctx.extract_info)
    # merge: a violation in any configuration counts; obligations are keyed per config beyond default
    obs = []
    for cfg, rep in reports:
        for o in rep.obs:
            if cfg != "default":
                o.key = o.key + f"@{cfg}"
            obs.append(o)
    rep0 = reports[0][1]
    known = [k for k in load_known() if k.get("property") == prop]
    known_keys = {k["key"]: k for k in known if k.get("status") == "known"}
    viol = [o for o in obs if not o.ok]
    listed = [o for o in viol if _strip_cfg(o.key) in known_keys]
    unlisted = [o for o in viol if _strip_cfg(o.key) not in known_keys]

    if replay:
        with open(replay) as fh:
            rj = json.load(fh)
        key = rj["key"]
        still = [o for o in viol if o.key == key]
        if still:
            o = still[0]
            print(f"VIOLATION property={prop} replay={replay}")
            print(f"  {o.key} at {o.where}: {o.what}")
            return 1
        print(f"replay: {key} no longer violated")
        return 0

    for o in listed:
        k = known_keys[_strip_cfg(o.key)]
        print(f"KNOWN-FINDING: property={prop} {o.key} at {o.where}: {k.get('what') or o.what}")
    rc = 0
    replay_dir = os.path.join(HERE, "evidence", "replay")
    if unlisted:
        os.makedirs(replay_dir, exist_ok=True)
        for n, o in enumerate(unlisted, 1):
            rp = os.path.join(replay_dir, f"{prop}-{n}.json")
            with open(rp, "w") as fh:
                json.dump({"property": prop, "key": o.key, "rule": o.rule, "where": o.where, "what": o.what, "detail": o.detail}, fh, indent=1)
            print(f"VIOLATION property={prop} replay={rp}")
            print(f"  key={o.key}\n  at {o.where}\n  {o.what}")
            if o.detail:
                print(f"  detail: {json.dumps(o.detail)[:800]}")
        rc = 1
    ctl = []
    if tier == "thorough" and not os.environ.get("VERIF_NO_CONTROLS"):
        import controls
        ctl = controls.run(prop, reports and Ctx(prop, tier, seed).repo, set(known_keys))
        for c in ctl:
            if c["status"] == "missed":
                print(f"SELFTEST-MISS property={prop} control={c['control']}: recorded breaking change is no longer detected (checker weakness, not a property violation)")
        neg = controls.run_negative(prop, Ctx(prop, tier, seed).repo, set(known_keys))
        for c in neg:
            if c["status"] == "false-alarm":
                print(f"SELFTEST-FALSE-ALARM property={prop} control={c['control']}: a behaviour-preserving variant raises {c['fired_keys'][:2]} (checker weakness, not a property violation)")
        ctl = list(ctl) + [dict(c, kind="negative") for c in neg]
    wall = time.time() - t0
    if write_evidence:
        write_ev(prop, mod, tier, seed, reports, obs, listed, unlisted, infos, wall, ctl)
    n_ok = sum(1 for o in obs if o.ok)
    print(f"{prop} [{tier}] obligations={len(obs)} discharged={n_ok} known-findings={len(listed)} violations={len(unlisted)} "
          f"configs={','.join(c for c, _ in reports)}" + (f" controls={sum(1 for c in ctl if c['status'].startswith('caught'))}/{sum(1 for c in ctl if c.get('kind') != 'negative')} neutral-silent={sum(1 for c in ctl if c['status'] == 'silent')}/{sum(1 for c in ctl if c.get('kind') == 'negative')}" if ctl else "") + f" wall={wall:.1f}s")
    if verbose:
        for o in obs:
            print(("  ok   " if o.ok else "  FAIL ") + o.key + "  @" + o.where + "  " + o.what)
        for cfg, r in reports:
            for n in r.notes + r.observations:
                print("  note:", n)
    return rc


def _strip_cfg(k):
    return k.split("@")[0]


def write_ev(prop, mod, tier, seed, reports, obs, listed, unlisted, infos, wall, ctl=()):
    rep0 = reports[0][1]
    level = getattr(mod, "LEVEL", "other")
    nontriv = {o.key for o in obs if o.nontrivial}
    samples = [o.to_json() for o in obs[:12]]
    # make sure violated/known ones are visible in samples
    for o in (listed + unlisted)[:8]:
        j = o.to_json()
        if j not in samples:
            samples.append(j)
    analysed = {}
    for cfg, r in reports:
        for k, v in r.analysed.items():
            analysed[k if cfg == "default" else f"{k}@{cfg}"] = v
    cov = {
        "obligations": len(obs),
        "discharged": sum(1 for o in obs if o.ok),
        "evaluations": len(obs),
        "distinct_nontrivial": len(nontriv),
        "rule": "one obligation per (rule instance, site) found in the MIR/type facts of the current tree; distinct = distinct position-free key; "
                "non-trivial = the rule had a construct to decide at that site (not vacuous)",
        "samples": samples,
        "explanation": getattr(mod, "EXPLANATION", ""),
        "checker_cmd": f"./check {prop} --tier {tier}",
        "trusted_base": getattr(mod, "TRUSTED", []) + [
            "rustc nightly type checker, MIR construction and Instance resolution",
            "rcfacts driver serialisation (driver/src/main.rs)", "python engine (engine/*.py)"],
        "rules": rep0.rules,
        "analysed": analysed,
        "clauses_not_decided": getattr(mod, "NOT_DECIDED", []),
        "known_findings_reported": [o.key for o in listed],
        "observations": rep0.observations,
        "notes": rep0.notes,
        "configs": [c for c, _ in reports],
        "facts": infos,
        "exhaustive": bool(getattr(mod, "EXHAUSTIVE", False)),
    }
    if ctl:
        cov["positive_controls"] = {
            "what": "recorded breaking changes (mutants/, seeded/) applied to a scratch copy of the analysed tree and re-analysed statically; 'caught' = the recorded rule key fired again",
            "negative_controls": "behaviour-preserving patches (neutral/) touching the property's anchor files, applied the same way; the rules must stay silent",
            "negative_silent": sum(1 for c in ctl if c["status"] == "silent"), "negative_false_alarms": sum(1 for c in ctl if c["status"] == "false-alarm"),
            "caught": sum(1 for c in ctl if c["status"] == "caught"), "caught_by_other_key": sum(1 for c in ctl if c["status"] == "caught-by-other-key"),
            "missed": sum(1 for c in ctl if c["status"] == "missed"), "skipped": sum(1 for c in ctl if c["status"] == "skipped"), "results": list(ctl)}
    ev = {
        "property_id": prop,
        "tier": tier,
        "seed": seed,
        "level": level,
        "coverage": cov,
        "assumptions": getattr(mod, "ASSUMPTIONS", []) + [
            "cfg(windows)/macos/openbsd branches, cfg(test) modules and third-party crates are not analysed",
        ],
        "wall_s": round(wall, 2),
        "violations": len(unlisted),
    }
    os.makedirs(os.path.join(HERE, "evidence"), exist_ok=True)
    p = os.path.join(HERE, "evidence", f"{prop}.json")
    tmp = p + f".tmp{os.getpid()}"
    with open(tmp, "w") as fh:
        json.dump(ev, fh, indent=1)
    os.replace(tmp, p)
