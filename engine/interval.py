"""Interval analysis of integer arithmetic in one MIR body (forward abstract interpretation with branch
refinement, a small set of `a >= b` facts, widening at loop heads) used by R-ARITH.

Values: integer locals carry an interval [lo, hi] (Python ints); references to integers carry their pointee's
interval; Result/Option/ControlFlow wrappers of an integer carry the payload's interval; checked-arithmetic tuples
`(T, bool)` carry the mathematical (unwrapped) result interval. Everything else is unknown (type range on use).
"""
import re
from facts import callee, callee_decl, op_place, op_local
import flow

INT_TY = {"u8": (0, 2**8 - 1), "u16": (0, 2**16 - 1), "u32": (0, 2**32 - 1), "u64": (0, 2**64 - 1), "u128": (0, 2**128 - 1),
          "usize": (0, 2**64 - 1), "i8": (-2**7, 2**7 - 1), "i16": (-2**15, 2**15 - 1), "i32": (-2**31, 2**31 - 1), "i64": (-2**63, 2**63 - 1),
          "isize": (-2**63, 2**63 - 1), "i128": (-2**127, 2**127 - 1)}


def ty_range(ty):
    ty = ty.strip()
    while ty.startswith("&"):
        ty = ty[1:].lstrip()
        if ty.startswith("mut "):
            ty = ty[4:]
        if ty.startswith("'"):
            ty = ty.split(" ", 1)[1] if " " in ty else ty
    if ty in INT_TY:
        return INT_TY[ty]
    m = re.match(r"^std::num::NonZero<(\w+)>$", ty)
    if m and m.group(1) in INT_TY:
        lo, hi = INT_TY[m.group(1)]
        return (max(lo, 1), hi)
    m = re.match(r"^\((\w+), bool\)$", ty)
    if m and m.group(1) in INT_TY:
        return INT_TY[m.group(1)]
    return None


def int_in(ty):
    """integer type wrapped in Result/Option/ControlFlow, or plain"""
    r = ty_range(ty)
    if r:
        return r
    m = re.search(r"(?:Result|Option|ControlFlow)<(?:[^<>]*<[^<>]*>[^<>]*, )?(u8|u16|u32|u64|usize|i32|i64|u128)\b", ty)
    if m:
        return INT_TY[m.group(1)]
    return None


class State:
    __slots__ = ("iv", "ge", "taint", "tags", "off")

    def __init__(self):
        self.iv = {}      # key -> (lo, hi)
        self.ge = set()   # (a, b): a >= b
        self.taint = set()
        self.tags = {}    # key -> tag (e.g. validator result)
        self.off = {}     # key -> (base key, c): key == base + c (difference layer: lets `a - b` use facts about a +- const)

    def copy(self):
        s = State()
        s.iv = dict(self.iv)
        s.ge = set(self.ge)
        s.off = dict(self.off)
        s.taint = set(self.taint)
        s.tags = dict(self.tags)
        return s

    def join(self, o, widen=None):
        """in-place join; returns True if changed"""
        changed = False
        for k in list(self.iv):
            if k not in o.iv:
                del self.iv[k]
                changed = True
            else:
                a, b = self.iv[k], o.iv[k]
                n = (min(a[0], b[0]), max(a[1], b[1]))
                if n != a:
                    if widen is not None:
                        r = widen(k)
                        n = (n[0] if n[0] >= a[0] else (r[0] if r else n[0]), n[1] if n[1] <= a[1] else (r[1] if r else n[1]))
                    self.iv[k] = n
                    changed = True
        for k in list(self.off):
            if o.off.get(k) != self.off[k]:
                del self.off[k]
                changed = True
        g = self.ge & o.ge
        if g != self.ge:
            self.ge = g
            changed = True
        t = self.taint | o.taint
        if t != self.taint:
            self.taint = t
            changed = True
        for k in list(self.tags):
            if o.tags.get(k) != self.tags[k]:
                del self.tags[k]
                changed = True
        return changed


class Sink:
    def __init__(self, bb, kind, detail, ok, tainted, why, span):
        self.bb, self.kind, self.detail, self.ok, self.tainted, self.why, self.span = bb, kind, detail, ok, tainted, why, span


class Analysis:
    def __init__(self, prog, body, sources=None, field_inv=None, validators=None, benign=(0, 2**60), benign_len=(0, 2**47), arg_iv=None, call_sources=None):
        """call_sources: compiled regex; the result of a call whose resolved callee matches is a tainted value of its type's
        full range (a quantity decoded from repository data);
        sources(body, place) -> True if reading this place yields an option-derived (tainted) value;
        field_inv: {(adt_suffix, field): (lo, hi)}; validators: {callee path: fn(analysis, state, arg_keys)};
        arg_iv: {arg index: (lo, hi)}"""
        self.prog, self.body = prog, body
        self.sources = sources or (lambda b, p: False)
        self.field_inv = field_inv or {}
        self.validators = validators or {}
        self.benign, self.benign_len = benign, benign_len
        self.arg_iv = arg_iv or {}
        self.call_sources = call_sources
        self.sinks = {}
        self.conds = {}   # bool local -> (op, a_operand, b_operand)
        self.out = {}
        self.ok_return_states = []

    # ---- keys & values ------------------------------------------------------------------------------
    def key_of_place(self, p):
        """key for an integer-valued place; derefs are transparent"""
        base = p[0]
        fs = []
        if len(p) == 2 and isinstance(p[1], list) and p[1][0] == "f" and p[1][1] == 0 and re.match(r"^\(\w+, bool\)$", self.body.locals[base]):
            return ("l", base)   # value component of a checked-arithmetic tuple
        for e in p[1:]:
            if e == "*":
                continue
            if isinstance(e, list) and e[0] == "f":
                fs.append(e[2] if e[2] is not None else str(e[1]))
            elif isinstance(e, list) and e[0] == "d":
                fs.append("@" + e[1])
            else:
                return None
        if not fs:
            return ("l", base)
        # canonical access path: two bindings of the same memory (match guard / match arm) get the same key
        import flow
        pp = flow.place_path(self.body, p)
        if pp is not None and pp[0][0] in ("arg", "local") and pp[1]:
            return ("f", pp[0], tuple(pp[1]))
        return ("f", base, tuple(fs))

    def type_of_place(self, p):
        # only precise for bare locals
        if len(p) == 1 or all(e == "*" for e in p[1:]):
            return self.body.locals[p[0]]
        return None

    def default_iv(self, key, ty, tainted):
        r = int_in(ty) if ty else None
        if r is None:
            return None
        if tainted:
            return r
        # untainted quantities (repository data sizes, in-memory lengths): documented magnitude assumption
        cap = self.benign_len if ty and "usize" in ty else self.benign
        if r[0] >= 0:
            return (max(r[0], cap[0]), min(r[1], cap[1]))
        return r

    def read(self, st, op):
        """-> (interval or None, key or None, tainted)"""
        if op[0] == "k":
            v = op[1].get("v")
            if isinstance(v, bool):
                return (int(v), int(v)), None, False
            if isinstance(v, int):
                return (v, v), None, False
            if isinstance(v, str) and v.lstrip("-").isdigit():
                return (int(v), int(v)), None, False
            return None, None, False
        p = op[1]
        k = self.key_of_place(p)
        if (len(p) == 3 and isinstance(p[1], list) and p[1][0] == "d" and p[1][1] in ("Some", "Ok", "Continue") and isinstance(p[2], list)
                and p[2][0] == "f" and p[2][1] == 0 and st.tags.get(("l", p[0])) == ("payload",) and ("l", p[0]) in st.iv):
            # integer payload of an Option / Result / ControlFlow local whose value is known (checked_sub .. ok_or_else .. `?`)
            k = ("l", p[0])
        if k is None:
            return None, None, False
        tainted = k in st.taint or self.sources(self.body, p)
        # follow reference aliases
        if k in st.iv:
            return st.iv[k], k, tainted
        # field of a struct: invariant?
        if k[0] == "f":
            for e in p[1:]:
                if isinstance(e, list) and e[0] == "f" and e[4]:
                    inv = self.field_inv.get((e[4].split("::")[-1], e[2]))
                    if inv and e[2] == k[2][-1]:
                        return inv, k, tainted
        ty = self.type_of_place(p)
        if ty is None and k[0] == "f":
            ty = self._field_type(p)
        return self.default_iv(k, ty, tainted), k, tainted

    def _field_type(self, p):
        last = None
        for e in p[1:]:
            if isinstance(e, list) and e[0] == "f":
                last = e
        if last is None or not last[4]:
            return None
        for path, a in self.prog.adts.items():
            if path == last[4] or path.endswith("::" + last[4].split("::")[-1]) and path.split("::")[-1] == last[4].split("::")[-1]:
                for v in a["variants"]:
                    if last[3] is not None and v["name"] != last[3]:
                        continue
                    for (fn, fty) in v["fields"]:
                        if fn == last[2]:
                            return fty
        return None

    def write(self, st, place, iv, tainted, tag=None):
        k = self.key_of_place(place)
        if k is None:
            return
        # invalidate facts about k
        st.ge = {(a, b) for (a, b) in st.ge if a != k and b != k}
        if st.off:
            st.off = {x: v for x, v in st.off.items() if x != k and v[0] != k}
        if iv is None:
            st.iv.pop(k, None)
        else:
            st.iv[k] = iv
        if tainted:
            st.taint.add(k)
        else:
            st.taint.discard(k)
        if tag is not None:
            st.tags[k] = tag
        else:
            st.tags.pop(k, None)

    # ---- arithmetic ---------------------------------------------------------------------------------
    @staticmethod
    def arith(op, a, b):
        if a is None or b is None:
            return None
        if op == "Add":
            return (a[0] + b[0], a[1] + b[1])
        if op == "Sub":
            return (a[0] - b[1], a[1] - b[0])
        if op == "Mul":
            c = [a[0] * b[0], a[0] * b[1], a[1] * b[0], a[1] * b[1]]
            return (min(c), max(c))
        if op in ("Div", "Rem"):
            if b[0] <= 0 <= b[1]:
                if b[0] == b[1]:
                    return None
                # exclude 0 for the value computation
                bb_ = (max(b[0], 1), b[1]) if b[1] > 0 and b[0] >= 0 else b
            else:
                bb_ = b
            if op == "Rem":
                m = max(abs(bb_[0]), abs(bb_[1])) - 1
                return (0 if a[0] >= 0 else -m, m)
            if a[0] >= 0 and bb_[0] > 0:
                return (a[0] // bb_[1], a[1] // bb_[0])
            return None
        if op == "BitAnd":
            if a[0] >= 0 and b[0] >= 0:
                return (0, min(a[1], b[1]))
            return None
        if op in ("Shr",):
            if a[0] >= 0 and b[0] >= 0:
                return (a[0] >> min(b[1], 200), a[1] >> b[0])
            return None
        if op in ("Shl",):
            if a[0] >= 0 and b[0] >= 0 and b[1] < 200:
                return (a[0] << b[0], a[1] << b[1])
            return None
        return None

    def fits(self, iv, ty):
        r = ty_range(ty)
        return iv is not None and r is not None and r[0] <= iv[0] and iv[1] <= r[1]

    # ---- transfer -----------------------------------------------------------------------------------
    def run(self):
        body = self.body
        n = len(body.blocks)
        states = {0: self.init_state()}
        work = [0]
        visits = {}
        from cfg import back_edges
        heads = {h for (l, h) in back_edges(body)}
        while work:
            bb = work.pop()
            visits[bb] = visits.get(bb, 0) + 1
            if visits[bb] > 60:
                continue
            st = states[bb].copy()
            outs = self.transfer_block(bb, st)
            for (succ, s2) in outs:
                if succ not in states:
                    states[succ] = s2
                    work.append(succ)
                else:
                    w = None
                    if succ in heads and visits.get(succ, 0) >= 3:
                        w = self.widen_range
                    if states[succ].join(s2, widen=w):
                        work.append(succ)
        self.states = states
        return self

    def widen_range(self, k):
        if k[0] == "l":
            return int_in(self.body.locals[k[1]])
        return None

    def init_state(self):
        st = State()
        for a, iv in self.arg_iv.items():
            st.iv[("l", a)] = iv
        return st

    def transfer_block(self, bb, st):
        body = self.body
        blk = body.blocks[bb]
        for s in blk["s"]:
            if s[0] != "=":
                continue
            self.assign(st, s[1], s[2], bb)
        t = blk["t"]
        k = t["k"]
        if k == "goto":
            return [(t["to"], st)]
        if k == "switch":
            return self.branch(st, t, bb)
        if k == "assert":
            self.check_assert(st, t, bb)
            s2 = st
            # after a passing overflow assert the checked tuple's value is within its type
            if t["kind"].startswith("Overflow"):
                c = op_place(t["cond"])
                if c is not None:
                    base = ("l", c[0])
                    if base in st.iv:
                        r = ty_range(body.locals[c[0]])
                        if r:
                            s2 = st.copy()
                            iv = st.iv[base]
                            s2.iv[base] = (max(iv[0], r[0]), min(iv[1], r[1]))
            elif t["kind"] in ("DivisionByZero", "RemainderByZero"):
                cl = op_local(t["cond"])
                if cl in self.conds and self.conds[cl][0] == "Eq":
                    _, x, y = self.conds[cl]
                    iv, key, _ = self.read(st, x)
                    if key is not None and iv is not None and iv[0] == 0:
                        s2 = st.copy()
                        s2.iv[key] = (1, iv[1])
            return [(t["to"], s2)]
        if k == "call":
            self.call(st, t, bb)
            return [(t["to"], st)] if t.get("to") is not None else []
        if k == "drop":
            return [(t["to"], st)]
        if k == "return":
            self.note_return(st, bb)
            return []
        return [(x, st) for x in body.succ(bb)]

    _RET_CACHE = {}

    def _callee_return_iv(self, c):
        key = (c, id(self.field_inv))
        if key in Analysis._RET_CACHE:
            return Analysis._RET_CACHE[key]
        Analysis._RET_CACHE[key] = None          # recursion guard
        H = self.prog.bodies.get(c)
        depth = getattr(self, "depth", 0)
        if H is None or getattr(H, "crate", None) != "rustic_core" or len(H.blocks) > 80 or depth >= 2:
            return None
        try:
            a = Analysis(self.prog, H, sources=self.sources, field_inv=self.field_inv, validators=self.validators, benign=self.benign, benign_len=self.benign_len, call_sources=self.call_sources)
            a.depth = depth + 1
            a.run()
            ivs = []
            for (bb, st) in a.ok_return_states:
                iv, _, tn = a.read(st, ["c", [0]])
                if iv is None:
                    return None
                ivs.append(iv)
            res = (min(x[0] for x in ivs), max(x[1] for x in ivs)) if ivs else None
        except Exception:
            res = None
        Analysis._RET_CACHE[key] = res
        return res

    def note_return(self, st, bb):
        self.ok_return_states.append((bb, st.copy()))

    on_assign = None

    def assign(self, st, place, rv, bb):
        body = self.body
        k = rv[0]
        dk = self.key_of_place(place)
        if self.on_assign:
            self.on_assign(self, st, place, rv, bb)
        if k == "use":
            iv, key, tn = self.read(st, rv[1])
            tag = st.tags.get(key) if key else None
            self.write(st, place, iv, tn, tag)
            # a comparison result held in a named bool local and copied before it is tested (`let fits = a <= b; if !fits ..`)
            if dk is not None and dk[0] == "l":
                src_l = op_local(rv[1])
                if src_l is not None and src_l in self.conds and len(self.body.defs().get(dk[1], [])) == 1 and len(self.body.defs().get(src_l, [])) == 1:
                    self.conds[dk[1]] = self.conds[src_l]
                else:
                    self.conds.pop(dk[1], None)
            if key is not None and dk is not None and key != dk:
                st.off[dk] = (key, 0)
            if key is not None and dk is not None and iv is not None:
                # equality: both directions
                st.ge.add((dk, key))
                st.ge.add((key, dk))
                # inherit facts
                for (a, b) in list(st.ge):
                    if a == key and b != dk:
                        st.ge.add((dk, b))
                    if b == key and a != dk:
                        st.ge.add((a, dk))
            return
        if k in ("ref", "refmut"):
            src = rv[1]
            sk = self.key_of_place(src)
            iv, key, tn = self.read(st, ("c", src))
            tag = st.tags.get(sk)
            if tag is None and iv is None:
                tag = ("refto", tuple(e[2] for e in src[1:] if isinstance(e, list) and e[0] == "f" and e[2]), tuple((e[4] or "").split("::")[-1] for e in src[1:] if isinstance(e, list) and e[0] == "f"))
            self.write(st, place, iv, tn, tag)
            if key is not None and dk is not None and iv is not None:
                st.ge.add((dk, key))
                st.ge.add((key, dk))
            return
        if k == "cast":
            iv, key, tn = self.read(st, rv[2])
            r = ty_range(rv[3])
            if iv is not None and r is not None:
                if not (r[0] <= iv[0] and iv[1] <= r[1]):
                    iv = r  # truncating cast: wraps
            elif r is not None:
                iv = r if tn else self.default_iv(None, rv[3], False)
            else:
                iv = None
            self.write(st, place, iv, tn)
            return
        if k == "bin":
            op = rv[1]
            a, ka, ta = self.read(st, rv[2])
            b, kb, tb = self.read(st, rv[3])
            tn = ta or tb
            base = op.replace("WithOverflow", "")
            if base in ("Add", "Sub", "Mul", "Div", "Rem", "BitAnd", "Shr", "Shl"):
                res = self.arith(base, a, b)
                if base == "Sub" and ka is not None and kb is not None and (ka, kb) in st.ge and res is not None:
                    res = (max(res[0], 0), res[1])
                if not op.endswith("WithOverflow"):
                    r = ty_range(rv[4])
                    if res is None or (r and not (r[0] <= res[0] and res[1] <= r[1])):
                        res = r if r else None
                self.write(st, place, res, tn)
                if dk is not None:
                    self.conds.pop(dk, None)
                    if base in ("Add", "Sub") and ka is not None and kb is None and b is not None and b[0] == b[1] and ka != dk:
                        st.off[dk] = (ka, b[0] if base == "Add" else -b[0])
                    elif base == "Add" and kb is not None and ka is None and a is not None and a[0] == a[1] and kb != dk:
                        st.off[dk] = (kb, a[0])
                return
            if base in ("Eq", "Ne", "Lt", "Le", "Gt", "Ge"):
                if dk is not None and dk[0] == "l":
                    self.conds[dk[1]] = (base, rv[2], rv[3])
                self.write(st, place, (0, 1), tn)
                return
            self.write(st, place, None, tn)
            return
        if k == "un":
            iv, key, tn = self.read(st, rv[2])
            if rv[1] == "Not" and dk is not None and dk[0] == "l":
                src = op_local(rv[2])
                if src in self.conds:
                    o, x, y = self.conds[src]
                    neg = {"Eq": "Ne", "Ne": "Eq", "Lt": "Ge", "Ge": "Lt", "Le": "Gt", "Gt": "Le"}[o]
                    self.conds[dk[1]] = (neg, x, y)
                self.write(st, place, (0, 1), tn)
                return
            self.write(st, place, None, tn)
            return
        if k == "agg":
            # Option::Some(x) / Result::Ok(x) of an integer keep the payload interval
            kind = rv[1]
            if kind[0] == "adt" and kind[2] in ("Some", "Ok", "Continue") and len(rv[2]) == 1:
                iv, key, tn = self.read(st, rv[2][0])
                self.write(st, place, iv, tn)
                return
            self.write(st, place, None, any(self.read(st, o)[2] for o in rv[2]))
            return
        if k == "discr":
            self.write(st, place, None, False)
            return
        self.write(st, place, None, False)

    def branch(self, st, t, bb):
        body = self.body
        d = t["discr"]
        dl = op_local(d)
        outs = []
        # switch on a comparison result
        if t["discr_ty"] == "bool" and dl in self.conds and op_place(d) is not None and len(op_place(d)) == 1:
            o, x, y = self.conds[dl]
            zero = [tg for v, tg in t["targets"] if v == "0"]
            for succ in body.succ(bb):
                s2 = st.copy()
                truth = not (zero and succ == zero[0])
                if zero and succ == zero[0] and t["otherwise"] == zero[0]:
                    outs.append((succ, s2))
                    continue
                self.refine(s2, o if truth else {"Eq": "Ne", "Ne": "Eq", "Lt": "Ge", "Ge": "Lt", "Le": "Gt", "Gt": "Le"}[o], x, y)
                outs.append((succ, s2))
            return outs
        # discriminant of a tagged validator result (Try::branch -> Continue / Result Ok)
        tagged = None
        for s_ in body.blocks[bb]["s"]:
            if s_[0] == "=" and s_[1] == [dl] and s_[2][0] == "discr":
                k = self.key_of_place(s_[2][1])
                if k in st.tags:
                    tagged = st.tags[k]
        if tagged and tagged[0] == "validated":
            outs = []
            for succ in body.succ(bb):
                s2 = st.copy()
                okv = [tg for v, tg in t["targets"] if v == "0"]
                if okv and succ == okv[0] and t["otherwise"] != succ:
                    fn = self.validators.get(tagged[1])
                    if fn:
                        fn(self, s2, tagged[2])
                outs.append((succ, s2))
            return outs
        # switch on an integer value / payload
        iv, key, tn = self.read(st, d)
        if key is not None and iv is not None and t["discr_ty"] in INT_TY:
            vals = []
            for v, tg in t["targets"]:
                s2 = st.copy()
                vi = int(v)
                r = INT_TY[t["discr_ty"]]
                if vi > r[1]:
                    vi -= (r[1] - r[0] + 1)
                s2.iv[key] = (vi, vi)
                vals.append(vi)
                outs.append((tg, s2))
            s3 = st.copy()
            lo, hi = iv
            while lo in vals:
                lo += 1
            while hi in vals:
                hi -= 1
            if lo <= hi:
                s3.iv[key] = (lo, hi)
            outs.append((t["otherwise"], s3))
            return outs
        return [(x, st.copy()) for x in body.succ(bb)]

    def refine(self, st, op, x, y):
        a, ka, _ = self.read(st, x)
        b, kb, _ = self.read(st, y)
        if a is None or b is None:
            if op in ("Ge", "Gt") and ka and kb:
                self.add_ge(st, ka, kb)
            if op in ("Le", "Lt") and ka and kb:
                self.add_ge(st, kb, ka)
            return
        na, nb = a, b
        if op == "Eq":
            lo, hi = max(a[0], b[0]), min(a[1], b[1])
            na = nb = (lo, hi) if lo <= hi else a
            if ka and kb:
                self.add_ge(st, ka, kb); self.add_ge(st, kb, ka)
        elif op == "Ne":
            if b[0] == b[1]:
                if a[0] == b[0]:
                    na = (a[0] + 1, a[1])
                elif a[1] == b[0]:
                    na = (a[0], a[1] - 1)
            if a[0] == a[1]:
                if b[0] == a[0]:
                    nb = (b[0] + 1, b[1])
                elif b[1] == a[0]:
                    nb = (b[0], b[1] - 1)
        elif op == "Lt":
            na = (a[0], min(a[1], b[1] - 1)); nb = (max(b[0], a[0] + 1), b[1])
            if ka and kb:
                self.add_ge(st, kb, ka)
        elif op == "Le":
            na = (a[0], min(a[1], b[1])); nb = (max(b[0], a[0]), b[1])
            if ka and kb:
                self.add_ge(st, kb, ka)
        elif op == "Gt":
            na = (max(a[0], b[0] + 1), a[1]); nb = (b[0], min(b[1], a[1] - 1))
            if ka and kb:
                self.add_ge(st, ka, kb)
        elif op == "Ge":
            na = (max(a[0], b[0]), a[1]); nb = (b[0], min(b[1], a[1]))
            if ka and kb:
                self.add_ge(st, ka, kb)
        if ka is not None and na[0] <= na[1]:
            st.iv[ka] = na
            self.propagate_eq(st, ka)
        if kb is not None and nb[0] <= nb[1]:
            st.iv[kb] = nb
            self.propagate_eq(st, kb)

    def propagate_eq(self, st, k):
        """keys known equal to k (copies / references) share its refined interval"""
        seen = {k}
        work = [k]
        while work:
            x = work.pop()
            for (a, b) in list(st.ge):
                if a == x and (b, a) in st.ge and b not in seen:
                    seen.add(b)
                    iv = st.iv[k]
                    jv = st.iv.get(b, iv)
                    lo, hi = max(iv[0], jv[0]), min(iv[1], jv[1])
                    if lo <= hi:
                        st.iv[b] = (lo, hi)
                    work.append(b)

    # ---- sinks --------------------------------------------------------------------------------------
    def record(self, bb, kind, detail, ok, tainted, why, span):
        prev = self.sinks.get((bb, kind))
        # a sink is safe only if it is safe in the final (joined) state: keep the last evaluation
        self.sinks[(bb, kind)] = Sink(bb, kind, detail, ok, tainted, why, span)

    def check_assert(self, st, t, bb):
        kind = t["kind"]
        if kind.startswith("Overflow:"):
            op = kind.split(":")[1]
            a, ka, ta = self.read(st, t["ops"][0])
            b, kb, tb = self.read(st, t["ops"][1])
            c = op_place(t["cond"])
            ty = self.body.locals[c[0]] if c else ""
            res = self.arith(op, a, b) if op in ("Add", "Sub", "Mul") else None
            r = ty_range(ty)
            ok = res is not None and r is not None and r[0] <= res[0] and res[1] <= r[1]
            why = f"{a} {op} {b} = {res} in {ty}"
            if not ok and op == "Sub" and ka is not None and kb is not None and (ka, kb) in st.ge and res is not None and r and res[1] <= r[1]:
                ok = True
                why += " with lhs >= rhs established"
            if not ok and op == "Sub" and res is not None and r and res[1] <= r[1] and self.diff_nonneg(st, ka, kb):
                ok = True
                why += " with lhs >= rhs established through +-const definitions"
            self.record(bb, kind, why, ok, ta or tb, why, t["span"])
            self.sinks[(bb, kind)].ops = (flow.expr_of(self.body, t["ops"][0], bb), flow.expr_of(self.body, t["ops"][1], bb))
        elif kind in ("DivisionByZero", "RemainderByZero"):
            # the assert's operand is the dividend; the divisor is what the condition `Eq(divisor, 0)` tests
            cl = op_local(t["cond"])
            div = None
            if cl in self.conds and self.conds[cl][0] == "Eq":
                _, x, y = self.conds[cl]
                yv = self.read(st, y)[0]
                xv = self.read(st, x)[0]
                div = x if yv == (0, 0) else (y if xv == (0, 0) else None)
            if div is None:
                self.record(bb, kind, "divisor not identified", False, True, "", t["span"])
                return
            b, kb, tb = self.read(st, div)
            ok = b is not None and not (b[0] <= 0 <= b[1])
            self.record(bb, kind, f"divisor in {b}", ok, tb, f"divisor in {b}", t["span"])

    ARITH_CALL = re.compile(r"as std::ops::(Add|Sub|Mul|Div|Rem)<.*>>::(add|sub|mul|div|rem)$")

    def call(self, st, t, bb):
        body = self.body
        if "callee" not in t:
            self.write(st, t["dest"], None, False)
            return
        c = callee(t)
        args = t["args"]
        m = self.ARITH_CALL.search(c)
        dty = t.get("dest_ty", "")
        if m and ty_range(dty) and len(args) == 2:
            op = m.group(1)
            a, ka, ta = self.read(st, args[0])
            b, kb, tb = self.read(st, args[1])
            res = self.arith(op, a, b)
            r = ty_range(dty)
            tn = ta or tb
            if op in ("Add", "Sub", "Mul"):
                ok = res is not None and r[0] <= res[0] and res[1] <= r[1]
                if not ok and op == "Sub" and ka and kb and (ka, kb) in st.ge and res is not None and res[1] <= r[1]:
                    ok = True
                self.record(bb, f"Overflow:{op}", f"{a} {op} {b} = {res} in {dty}", ok, tn, "", t["span"])
            else:
                ok = b is not None and not (b[0] <= 0 <= b[1])
                self.record(bb, "DivisionByZero", f"divisor in {b}", ok, tb, "", t["span"])
            if res is not None:
                res = (max(res[0], r[0]), min(res[1], r[1]))
                if res[0] > res[1]:
                    res = r
            self.write(st, t["dest"], res if res is not None else (r if tn else self.default_iv(None, dty, False)), tn)
            return
        # panicking helpers
        if re.search(r"(^|::)clamp$", c) and len(args) == 3:
            v, kv, tv = self.read(st, args[0])
            lo, kl, tl = self.read(st, args[1])
            hi, kh, th = self.read(st, args[2])
            ok = lo is not None and hi is not None and lo[1] <= hi[0]
            if not ok and kl and kh and (kh, kl) in st.ge:
                ok = True
            self.record(bb, "Clamp(min<=max)", f"min in {lo}, max in {hi}", ok, tl or th or tv, "", t["span"])
            res = (lo[0], hi[1]) if lo and hi else None
            self.write(st, t["dest"], res, tv or tl or th)
            return
        # allocation sized by an option: `Vec::with_capacity(n)` / `vec![x; n]` / `reserve(n)` abort ("capacity overflow") or
        # exhaust memory when n is only bounded by the option's type
        m_alloc = re.search(r"^std::vec::Vec::<T>::with_capacity$|^std::vec::from_elem$|^std::vec::Vec::<T, A>::(reserve|reserve_exact|resize)$|BytesMut::with_capacity$", c)
        if m_alloc and args:
            ai = 0 if c.endswith("with_capacity") else 1
            if ai < len(args):
                n_iv, kn, tnn = self.read(st, args[ai])
                ok = n_iv is not None and n_iv[1] <= self.benign_len[1]
                self.record(bb, "AllocSize", f"requested capacity in {n_iv} (limit {self.benign_len[1]})", ok, tnn, "", t["span"])
        ivs = [self.read(st, a) for a in args]
        tn = any(x[2] for x in ivs)
        res = None
        rel = None
        name = c.rsplit("::", 1)[-1]
        if self.call_sources is not None and self.call_sources.search(c) and int_in(dty):
            self.write(st, t["dest"], int_in(dty), True)
            return
        # results of validators stay tagged through `?` plumbing
        if re.search(r"as std::ops::Try>::branch$|^std::ops::Try::branch$|Result::<T, E>::map_err$", c) and args:
            k0 = self.key_of_place(op_place(args[0])) if op_place(args[0]) else None
            if k0 is not None and k0 in st.tags:
                self.write(st, t["dest"], ivs[0][0], tn, st.tags[k0])
                dk_ = self.key_of_place(t["dest"])
                if dk_ is not None and dk_ != k0:
                    st.off[dk_] = (k0, 0)
                return
        if re.search(r"as std::convert::(From|Into)<.*>>::(from|into)$|^std::convert::(From|Into)::(from|into)$|impl std::convert::From<\w+> for \w+>::from$", c) and ivs and ivs[0][0] is not None and int_in(dty):
            r = int_in(dty)
            res = ivs[0][0] if (r[0] <= ivs[0][0][0] and ivs[0][0][1] <= r[1]) else r
        elif re.search(r"TryInto<.*>>::try_into$|TryFrom<.*>>::try_from$|^std::convert::TryInto::try_into$|impl std::convert::TryFrom<\w+> for \w+>::try_from$", c) and ivs and int_in(dty):
            r = int_in(dty)
            if ivs[0][0] is not None:
                res = (max(ivs[0][0][0], r[0]), min(ivs[0][0][1], r[1]))
                if res[0] > res[1]:
                    res = r
            else:
                res = r
        elif name == "unwrap_or" and re.search(r"(Option|Result)::<T(, E)?>::unwrap_or$", c) and len(ivs) == 2 and int_in(dty):
            a, b = ivs[0][0], ivs[1][0]
            res = (min(a[0], b[0]), max(a[1], b[1])) if a and b else None
        elif name == "checked_sub" and len(ivs) == 2 and ivs[0][0] and ivs[1][0] and int_in(dty):
            # payload of Some: the difference, which exists only when it is not negative
            a, b = ivs[0][0], ivs[1][0]
            lo0 = int_in(dty)[0]
            res = (max(a[0] - b[1], lo0), max(a[1] - b[0], lo0))
            self.write(st, t["dest"], res, tn, ("payload",))
            dk_ = self.key_of_place(t["dest"])
            if dk_ is not None and ivs[0][1] is not None and ivs[1][1] is None and b[0] == b[1]:
                st.off[dk_] = (ivs[0][1], -b[0])
            return
        elif re.search(r"(Option|Result)::<T(, E)?>::(unwrap|expect|unwrap_or_default|ok_or|ok_or_else)$|as std::ops::Try>::branch$|^std::ops::Try::branch$|::map_err$", c) and ivs and int_in(dty):
            res = ivs[0][0]
            k0 = ivs[0][1]
            if k0 is not None and k0 in st.tags:
                self.write(st, t["dest"], res, tn, st.tags[k0])
                dk_ = self.key_of_place(t["dest"])
                if dk_ is not None and dk_ != k0:
                    st.off[dk_] = (k0, 0)
                return
        elif name in ("saturating_sub",) and len(ivs) == 2 and ivs[0][0] and ivs[1][0] and ty_range(dty):
            a, b = ivs[0][0], ivs[1][0]
            res = (max(a[0] - b[1], ty_range(dty)[0]), max(a[1] - b[0], ty_range(dty)[0]))
        elif name in ("saturating_add", "saturating_mul") and len(ivs) == 2 and ivs[0][0] and ivs[1][0] and ty_range(dty):
            a, b = ivs[0][0], ivs[1][0]
            r = ty_range(dty)
            x = self.arith("Add" if name == "saturating_add" else "Mul", a, b)
            res = (min(max(x[0], r[0]), r[1]), min(x[1], r[1]))
        elif name == "min" and len(ivs) == 2 and ivs[0][0] and ivs[1][0]:
            a, b = ivs[0][0], ivs[1][0]
            res = (min(a[0], b[0]), min(a[1], b[1]))
            rel = ("min", [ivs[0][1], ivs[1][1]])
        elif name == "max" and len(ivs) == 2 and ivs[0][0] and ivs[1][0]:
            a, b = ivs[0][0], ivs[1][0]
            res = (max(a[0], b[0]), max(a[1], b[1]))
            rel = ("max", [ivs[0][1], ivs[1][1]])
        elif name in ("integer_sqrt", "isqrt") and ivs and ivs[0][0]:
            import math
            res = (math.isqrt(max(ivs[0][0][0], 0)), math.isqrt(max(ivs[0][0][1], 0)))
        elif name == "len" and ty_range(dty):
            res = self.default_iv(None, "usize", False)
            k0 = self.key_of_place(op_place(args[0])) if args and op_place(args[0]) else None
            tg = st.tags.get(k0) if k0 else None
            if tg and tg[0] == "refto" and tg[1]:
                inv = self.field_inv.get((tg[2][-1] + ".len", tg[1][-1]))
                if inv:
                    res = inv
            elif tg and tg[0] == "subslice" and tg[1]:
                # a sub-slice (`&self.buf[pos..]`) is at most as long as the container it was cut from
                inv = self.field_inv.get((tg[2][-1] + ".len", tg[1][-1]))
                if inv:
                    res = (0, inv[1])
        elif re.search(r"ops::Index(Mut)?<.*>>::index(_mut)?$", c) and args and op_place(args[0]) and len(args) == 2 and "Range" in (body.locals[op_local(args[1])] if op_local(args[1]) is not None else ""):
            k0 = self.key_of_place(op_place(args[0]))
            tg = st.tags.get(k0) if k0 else None
            if tg and tg[0] in ("refto", "subslice") and tg[1]:
                self.write(st, t["dest"], None, tn, ("subslice", tg[1], tg[2]))
                return
        elif name in ("get",) and "NonZero" in c and ty_range(dty):
            res = (1, ty_range(dty)[1])
        elif re.search(r"Deref>::deref$|Clone>::clone$|Borrow<.*>>::borrow$|AsRef", c) and ivs and ivs[0][0] is not None:
            res = ivs[0][0]
        # validator summaries
        v = self.validators.get(c)
        if v is not None:
            keys = [x[1] for x in ivs]
            self.write(st, t["dest"], None, tn, ("validated", c, tuple(keys)))
            return
        if res is None and int_in(dty):
            # a small helper of the analysed crate returning an integer (`fn take_open_buf(&mut self, ..) -> usize`): its return
            # interval under the same field invariants (arguments unknown)
            res = self._callee_return_iv(c)
        if res is None and int_in(dty):
            res = int_in(dty) if tn else self.default_iv(None, dty if ty_range(dty) else "u64", False)
            r = int_in(dty)
            if res and r:
                res = (max(res[0], r[0]), min(res[1], r[1]))
        # a call that receives `&mut x` may change x
        for a in args:
            p = op_place(a)
            if p is not None:
                ty = body.locals[p[0]]
                if ty.startswith("&mut"):
                    for (x, y) in list(st.ge):
                        pass
        self.write(st, t["dest"], res, tn)
        if rel is not None:
            # min(a, b) is at most a and at most b (max: at least); one step of transitivity keeps the fact for the named locals
            # the temporaries were copied from
            dk = self.key_of_place(t["dest"])
            for ak in rel[1]:
                if ak is None or dk is None or ak == dk:
                    continue
                pair = (ak, dk) if rel[0] == "min" else (dk, ak)
                self.add_ge(st, *pair)

    @staticmethod
    def norm(st, k):
        """k == root + c, following recorded `x = y +- const` definitions"""
        c, seen = 0, set()
        while k in st.off and k not in seen:
            seen.add(k)
            b, d = st.off[k]
            k, c = b, c + d
        return k, c

    def diff_nonneg(self, st, ka, kb):
        """a - b >= 0 proved from a = ra + ca, b = rb + cb and a known fact x >= y with x = ra + cx, y = rb + cy:
        a - b = (x - y) + (ca - cx) - (cb - cy) >= (ca - cx) - (cb - cy)"""
        if ka is None or kb is None:
            return False
        ra, ca = self.norm(st, ka)
        rb, cb = self.norm(st, kb)
        if ra == rb:
            return ca - cb >= 0
        for (x, y) in st.ge:
            rx, cx = self.norm(st, x)
            ry, cy = self.norm(st, y)
            if rx == ra and ry == rb and (ca - cx) - (cb - cy) >= 0:
                return True
        return False

    @staticmethod
    def add_ge(st, hi, lo):
        """record hi >= lo and close it with what is already known: everything >= hi is >= everything lo is >= of"""
        ups = {hi} | {a for (a, b) in st.ge if b == hi}
        downs = {lo} | {b for (a, b) in st.ge if a == lo}
        for x in ups:
            for y in downs:
                if x != y:
                    st.ge.add((x, y))


def validator_summary(prog, body):
    """facts that hold when `body` (a fn(args..) -> Result<(), E> validator) returns Ok: intervals of its integer
    parameters and `a >= b` relations among them, read off the state at the block that builds the Ok value"""
    an = Analysis(prog, body, sources=lambda b, p: len(p) == 1 and 1 <= p[0] <= b.argc)
    captured = []

    def hook(a, st, place, rv, bb):
        if place == [0] and rv[0] == "agg" and rv[1][0] == "adt" and rv[1][2] == "Ok":
            captured.append(st.copy())
    an.on_assign = hook
    an.run()
    if not captured:
        return None
    st = captured[0]
    for o in captured[1:]:
        st.join(o)
    ivs = {}
    for i in range(1, body.argc + 1):
        r = ty_range(body.locals[i])
        if r is None:
            continue
        ivs[i] = st.iv.get(("l", i), r)
    ge = {(a[1], b[1]) for (a, b) in st.ge if a[0] == "l" and b[0] == "l" and 1 <= a[1] <= body.argc and 1 <= b[1] <= body.argc and a != b}
    return ivs, ge, an


def apply_summary(summary):
    ivs, ge, _ = summary

    def fn(an, st, keys):
        for i, iv in ivs.items():
            if i - 1 < len(keys) and keys[i - 1] is not None:
                k = keys[i - 1]
                cur = st.iv.get(k)
                if cur is None:
                    st.iv[k] = iv
                else:
                    lo, hi = max(cur[0], iv[0]), min(cur[1], iv[1])
                    if lo <= hi:
                        st.iv[k] = (lo, hi)
                an.propagate_eq(st, k)
        for (a, b) in ge:
            if a - 1 < len(keys) and b - 1 < len(keys) and keys[a - 1] is not None and keys[b - 1] is not None:
                st.ge.add((keys[a - 1], keys[b - 1]))
    return fn
