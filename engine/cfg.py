"""CFG analyses over MIR bodies: dominators, post-dominators, control dependence, edge-cut reachability."""


def _idom_sets(n, entry, succ, pred):
    # simple iterative set-based dominators (bodies are small: < 600 blocks)
    order = []
    seen = set()
    stack = [(entry, iter(succ[entry]))]
    seen.add(entry)
    while stack:
        node, it = stack[-1]
        adv = False
        for s in it:
            if s not in seen:
                seen.add(s)
                stack.append((s, iter(succ[s])))
                adv = True
                break
        if not adv:
            order.append(node)
            stack.pop()
    rpo = list(reversed(order))
    idx = {b: i for i, b in enumerate(rpo)}
    idom = {entry: entry}
    changed = True
    while changed:
        changed = False
        for b in rpo:
            if b == entry:
                continue
            new = None
            for p in pred[b]:
                if p in idom:
                    if new is None:
                        new = p
                    else:
                        a, c = p, new
                        while a != c:
                            while idx[a] > idx[c]:
                                a = idom[a]
                            while idx[c] > idx[a]:
                                c = idom[c]
                        new = a
            if new is not None and idom.get(b) != new:
                idom[b] = new
                changed = True
    return idom


def dominators(body):
    """idom map over blocks reachable from entry (normal flow only)"""
    if body._dom is None:
        succ = body.succs()
        pred = body.preds()
        body._dom = _idom_sets(len(body.blocks), 0, succ, pred)
    return body._dom


def dominates(body, a, b):
    """block a dominates block b (reflexive). Unreachable b -> True (vacuous)."""
    idom = dominators(body)
    if b not in idom:
        return True
    x = b
    while True:
        if x == a:
            return True
        nx = idom[x]
        if nx == x:
            return False
        x = nx


def post_dominators(body):
    """ipdom over the reverse CFG with a virtual exit (= len(blocks)) joined to return blocks and
    other terminal blocks (unreachable, resume, diverging calls)"""
    if body._pdom is None:
        n = len(body.blocks)
        succ = body.succs()
        exit_ = n
        rsucc = [[] for _ in range(n + 1)]  # reverse graph successors = preds in original
        rpred = [[] for _ in range(n + 1)]
        for a in range(n):
            ss = succ[a]
            if not ss:
                ss = [exit_]
            for s in ss:
                rsucc[s].append(a)
                rpred[a].append(s)
        body._pdom = _idom_sets(n + 1, exit_, rsucc, rpred)
    return body._pdom


def control_deps(body):
    """block -> set of (branch_block, successor) edges it is control dependent on (Ferrante et al.)"""
    if body._cd is None:
        ipdom = post_dominators(body)
        cd = {i: set() for i in range(len(body.blocks))}
        for a, ss in enumerate(body.succs()):
            if len(ss) < 2:
                continue
            for s in ss:
                # walk from s up the post-dominator tree until ipdom(a)
                stop = ipdom.get(a)
                x = s
                guard = 0
                while x is not None and x != stop and guard < 100000:
                    if x < len(body.blocks):
                        cd[x].add((a, s))
                    nx = ipdom.get(x)
                    if nx is None or nx == x:
                        break
                    x = nx
                    guard += 1
        body._cd = cd
    return body._cd


def transitive_control_deps(body, bb):
    """all (branch, succ) edges that bb is transitively control dependent on"""
    cd = control_deps(body)
    out = set()
    work = [bb]
    seen = {bb}
    while work:
        x = work.pop()
        for (a, s) in cd.get(x, ()):
            if (a, s) not in out:
                out.add((a, s))
                if a not in seen:
                    seen.add(a)
                    work.append(a)
    return out


def reachable_between(body, src_blocks, dst_block, cut_edges=(), cut_blocks=()):
    return dst_block in body.reachable_from(list(src_blocks), cut_edges=cut_edges, cut_blocks=cut_blocks)


def can_reach(body, a, b):
    """is there a non-empty CFG path from the end of block a to the start of block b?"""
    seen = set()
    work = list(body.succs()[a])
    while work:
        x = work.pop()
        if x == b:
            return True
        if x in seen:
            continue
        seen.add(x)
        work.extend(body.succs()[x])
    return False


def back_edges(body):
    out = []
    for a, ss in enumerate(body.succs()):
        for s in ss:
            if dominates(body, s, a):
                out.append((a, s))
    return out


def loop_blocks(body, header, latch):
    """natural loop of back edge latch->header"""
    blocks = {header, latch}
    work = [latch]
    preds = body.preds()
    while work:
        x = work.pop()
        if x == header:
            continue
        for p in preds[x]:
            if p not in blocks:
                blocks.add(p)
                work.append(p)
    return blocks
