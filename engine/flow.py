"""Intraprocedural value-flow helpers over MIR: uses of a call result, `?` continuation edges,
backward provenance (slicing) and description of branch conditions."""
import re
from facts import callee, callee_decl, op_place, op_local, const_val

TRY_BRANCH = re.compile(r"as std::ops::Try>::branch$|^std::ops::Try::branch$")
FROM_RESIDUAL = re.compile(r"FromResidual.*::from_residual$")

# calls whose result carries (a view/conversion of) their first argument
PASS_THROUGH = re.compile(
    r"(as std::ops::Deref>::deref$|as std::ops::DerefMut>::deref_mut$|^std::ops::Deref::deref$|^std::ops::DerefMut::deref_mut$"
    r"|as std::clone::Clone>::clone$|^std::clone::Clone::clone$|::clone$"
    r"|as std::convert::Into<.*>>::into$|^std::convert::Into::into$|as std::convert::From<.*>>::from$|^std::convert::From::from$"
    r"|as std::convert::AsRef<.*>>::as_ref$|^std::convert::AsRef::as_ref$|as std::borrow::Borrow<.*>>::borrow$"
    r"|^std::option::Option::<T>::(unwrap|expect|as_ref|as_mut|copied|cloned|unwrap_or_default|as_deref|take|ok_or_else|ok_or|unwrap_or)$"
    r"|^std::result::Result::<T, E>::(unwrap|expect|as_ref|as_mut|map_err|ok|unwrap_or_default)$"
    r"|as std::ops::Try>::branch$|^std::ops::Try::branch$"
    r"|as std::iter::IntoIterator>::into_iter$|^std::iter::IntoIterator::into_iter$"
    r"|^core::slice::<impl \[T\]>::iter$|^std::vec::Vec::<T>::as_slice$|as std::borrow::ToOwned>::to_owned$"
    r"|^std::sync::Arc::<T>::new$|^std::boxed::Box::<T>::new$)"
)


def uses_of_local(body, local):
    """sites that read `local` (as operand base or in a place): ('stmt',bb,si) / ('term',bb)"""
    out = []
    for bi, b in enumerate(body.blocks):
        for si, s in enumerate(b["s"]):
            if s[0] == "=":
                if _rv_mentions(s[2], local) or (s[1][0] == local and len(s[1]) > 1 and False):
                    out.append(("stmt", bi, si))
        t = b["t"]
        if _term_mentions(t, local):
            out.append(("term", bi))
    return out


def _op_mentions(op, local):
    p = op_place(op)
    if p is None:
        return False
    if p[0] == local:
        return True
    return any(isinstance(e, list) and e[0] == "i" and e[1] == local for e in p[1:])


def _rv_mentions(rv, local):
    k = rv[0]
    if k == "use":
        return _op_mentions(rv[1], local)
    if k in ("ref", "refmut", "rawptr", "discr"):
        return rv[1][0] == local
    if k == "cast":
        return _op_mentions(rv[2], local)
    if k == "bin":
        return _op_mentions(rv[2], local) or _op_mentions(rv[3], local)
    if k == "un":
        return _op_mentions(rv[2], local)
    if k == "agg":
        return any(_op_mentions(o, local) for o in rv[2])
    if k == "repeat":
        return _op_mentions(rv[1], local)
    return False


def _term_mentions(t, local):
    k = t["k"]
    if k in ("call", "tailcall"):
        if any(_op_mentions(a, local) for a in t["args"]):
            return True
        if "indirect" in t and _op_mentions(t["indirect"], local):
            return True
        return False
    if k == "switch":
        return _op_mentions(t["discr"], local)
    if k == "assert":
        return _op_mentions(t["cond"], local)
    return False


def forward_aliases(body, local, through=PASS_THROUGH, limit=40):
    """locals that (transitively) receive the value of `local` by move/copy/ref/cast, field-insensitive for
    wrappers, or through pass-through calls. Returns set of locals and the list of consuming call sites
    [(bb, term, argidx)] that are not pass-through."""
    seen = {local}
    work = [local]
    consumers = []
    ret = False
    while work and len(seen) < limit:
        l = work.pop()
        for bi, b in enumerate(body.blocks):
            for s in b["s"]:
                if s[0] != "=":
                    continue
                rv = s[2]
                if rv[0] in ("use", "cast") and _op_mentions(rv[1] if rv[0] == "use" else rv[2], l):
                    d = s[1][0]
                    if d not in seen:
                        seen.add(d)
                        work.append(d)
                elif rv[0] in ("ref", "refmut") and rv[1][0] == l:
                    d = s[1][0]
                    if d not in seen:
                        seen.add(d)
                        work.append(d)
                elif rv[0] == "agg" and any(_op_mentions(o, l) for o in rv[2]):
                    d = s[1][0]
                    if d not in seen:
                        seen.add(d)
                        work.append(d)
            t = b["t"]
            if t["k"] == "call":
                for ai, a in enumerate(t["args"]):
                    if _op_mentions(a, l):
                        c = callee(t)
                        if ai == 0 and (through.search(c) or through.search(callee_decl(t))):
                            d = t["dest"][0]
                            if d not in seen:
                                seen.add(d)
                                work.append(d)
                        else:
                            consumers.append((bi, t, ai))
    if 0 in seen:
        ret = True
    return seen, consumers, ret


def try_ok_edges(body, call_bb):
    """For a call whose Result is consumed by `?` (possibly after map_err & co): the CFG edges
    (switch_block, continue_target) taken when the call returned Ok. Also returns how the result
    is consumed: '?', 'return', 'other'.  ('?', edges) | ('return', []) | ('other', [])"""
    t = body.term(call_bb)
    dest = t["dest"][0]
    aliases, consumers, returned = forward_aliases(body, dest, through=_RESULT_THROUGH)
    edges = []
    for bi, b in enumerate(body.blocks):
        tt = b["t"]
        if tt["k"] == "call" and TRY_BRANCH.search(callee(tt)) and op_local(tt["args"][0]) in aliases:
            cf = tt["dest"][0]
            nxt = tt["to"]
            e = _cf_switch(body, nxt, cf)
            if e:
                edges.append(e)
    if edges:
        return "?", edges
    if returned:
        return "return", []
    return "other", []


_RESULT_THROUGH = re.compile(
    r"(^std::result::Result::<T, E>::(map_err|inspect_err|map|and_then|or_else|inspect)$"
    r"|as rustic_core::error::RusticErrorExt|::attach_context$|::ask_report$|::overwrite_kind$|::attach_error_code$)"
)


def _cf_switch(body, bb, cf_local):
    """block bb: `_d = discriminant(cf_local); switchInt(_d) [0: cont, 1: brk]` -> (bb, cont)"""
    seen = set()
    while bb is not None and bb not in seen:
        seen.add(bb)
        b = body.blocks[bb]
        t = b["t"]
        if t["k"] == "switch":
            d = op_local(t["discr"])
            for s in b["s"]:
                if s[0] == "=" and s[1] == [d] and s[2][0] == "discr" and s[2][1][0] == cf_local:
                    for v, tgt in t["targets"]:
                        if v == "0":
                            return (bb, tgt)
            return None
        if t["k"] == "goto":
            bb = t["to"]
        else:
            return None
    return None


def err_edges(body, call_bb):
    """(switch_block, break_target) edges for a `?`-consumed call"""
    t = body.term(call_bb)
    dest = t["dest"][0]
    aliases, _, _ = forward_aliases(body, dest, through=_RESULT_THROUGH)
    out = []
    for bi, b in enumerate(body.blocks):
        tt = b["t"]
        if tt["k"] == "call" and TRY_BRANCH.search(callee(tt)) and op_local(tt["args"][0]) in aliases:
            nxt = tt["to"]
            blk = body.blocks[nxt]
            if blk["t"]["k"] == "switch":
                for v, tgt in blk["t"]["targets"]:
                    if v == "1":
                        out.append((nxt, tgt))
    return out


# ---- backward provenance ------------------------------------------------------------

class Origin:
    """a leaf in the backward slice of a value"""
    __slots__ = ("kind", "data")

    def __init__(self, kind, data):
        self.kind = kind
        self.data = data

    def __repr__(self):
        return f"{self.kind}:{self.data}"


def origins(body, place, through=PASS_THROUGH, depth=0, _seen=None, at=None):
    """Backward slice of the value held in `place` (flow-insensitive over definitions of the base local).
    Leaves:  ('arg', (n, fieldpath)) ('call', (bb, callee)) ('const', v) ('field', (base_origin..)) ('agg', kind)
    ('bin', op) ('promoted', idx) ('unknown', x)"""
    if _seen is None:
        _seen = set()
    local = place[0]
    proj = [e for e in place[1:]]
    fields = tuple(e[2] if isinstance(e, list) and e[0] == "f" else None for e in proj if isinstance(e, list) and e[0] == "f")
    key = (local, fields)
    if key in _seen or depth > 60:
        return []
    _seen.add(key)
    out = []
    defs = body.defs().get(local, [])
    if not defs:
        return [Origin("undef", local)]
    for d in defs:
        if d[0] == "arg":
            out.append(Origin("arg", (d[1], fields)))
        elif d[0] == "call":
            t = d[2]
            c = callee(t)
            cd = callee_decl(t)
            if t["args"] and (through.search(c) or through.search(cd)) and op_place(t["args"][0]) is not None:
                sub = origins(body, op_place(t["args"][0]), through, depth + 1, _seen)
                for o in sub:
                    if fields and o.kind in ("arg",):
                        out.append(Origin("arg", (o.data[0], o.data[1] + fields)))
                    else:
                        out.append(o)
            else:
                out.append(Origin("call", (d[1], c, fields)))
        elif d[0] == "stmt":
            dplace, rv = d[3], d[4]
            # a store to a sub-place of the local: only relevant if projections overlap; keep simple
            k = rv[0]
            if k == "use":
                op = rv[1]
                if op[0] == "k":
                    c = op[1]
                    if "promoted" in c:
                        out.append(Origin("promoted", c["promoted"]))
                    elif "fn" in c:
                        out.append(Origin("fn", c["fn"].get("resolved", {}).get("path") or c["fn"]["callee"]))
                    else:
                        if isinstance(c.get("v"), dict) and "static" in c["v"]:
                            out.append(Origin("static", c["v"]["static"]))
                        else:
                            out.append(Origin("const", c.get("v") if c.get("v") is not None else c.get("item")))
                else:
                    src = op[1]
                    sub = origins(body, src, through, depth + 1, _seen)
                    out.extend(_extend_fields(sub, fields))
            elif k in ("ref", "refmut", "rawptr"):
                sub = origins(body, rv[1], through, depth + 1, _seen)
                out.extend(_extend_fields(sub, fields))
            elif k == "cast":
                p = op_place(rv[2])
                if p is not None:
                    out.extend(origins(body, p, through, depth + 1, _seen))
                else:
                    c = rv[2][1]
                    if "fn" in c:
                        out.append(Origin("fn", c["fn"].get("resolved", {}).get("path") or c["fn"]["callee"]))
                    else:
                        if isinstance(c.get("v"), dict) and "static" in c["v"]:
                            out.append(Origin("static", c["v"]["static"]))
                        else:
                            out.append(Origin("const", c.get("v")))
            elif k == "agg":
                out.append(Origin("agg", (d[1], d[2], rv[1], rv[2])))
            elif k == "bin":
                out.append(Origin("bin", (d[1], d[2], rv[1], rv[2], rv[3])))
            elif k == "un":
                out.append(Origin("un", (d[1], d[2], rv[1], rv[2])))
            elif k == "discr":
                out.append(Origin("discr", (d[1], d[2], rv[1], rv[2])))
            else:
                out.append(Origin("unknown", rv))
        elif d[0] == "setdiscr":
            pass
    return out


def _extend_fields(subs, fields):
    if not fields:
        return subs
    out = []
    for o in subs:
        if o.kind == "arg":
            out.append(Origin("arg", (o.data[0], o.data[1] + fields)))
        else:
            out.append(o)
    return out


def place_path(body, place, through=PASS_THROUGH, depth=0):
    """Resolve a place to a symbolic access path: (root, [field names...]) where root is
    ('arg', n) | ('call', bb, callee) | ('local', n); follows single-definition refs/copies/pass-through calls.
    Returns None if ambiguous."""
    local = place[0]
    fields = [e[2] if e[2] is not None else str(e[1]) for e in place[1:] if isinstance(e, list) and e[0] == "f"]
    if depth > 40:
        return None
    if 1 <= local <= body.argc:
        return (("arg", local), fields)
    defs = [d for d in body.defs().get(local, []) if d[0] != "setdiscr"]
    # ignore re-definitions that are plain StorageDead/re-init of same source
    if len(defs) == 0:
        return (("local", local), fields)
    srcs = []
    for d in defs:
        if d[0] == "stmt" and len(d[3]) == 1:
            rv = d[4]
            if rv[0] == "use" and rv[1][0] in ("c", "m"):
                srcs.append(place_path(body, rv[1][1], through, depth + 1))
            elif rv[0] in ("ref", "refmut", "rawptr"):
                srcs.append(place_path(body, rv[1], through, depth + 1))
            elif rv[0] == "cast" and rv[2][0] in ("c", "m"):
                srcs.append(place_path(body, rv[2][1], through, depth + 1))
            else:
                srcs.append((("local", local), []))
        elif d[0] == "call":
            t = d[2]
            c = callee(t)
            if t["args"] and (through.search(c) or through.search(callee_decl(t))) and op_place(t["args"][0]) is not None:
                srcs.append(place_path(body, op_place(t["args"][0]), through, depth + 1))
            else:
                srcs.append((("call", d[1], c), []))
        else:
            srcs.append((("local", local), []))
    srcs = [s for s in srcs if s is not None]
    if not srcs:
        return None
    first = srcs[0]
    if all(s == first for s in srcs):
        return (first[0], first[1] + fields)
    return (("local", local), fields)


# ---- branch conditions ---------------------------------------------------------------

def describe_cond(body, bb, depth=0):
    """Describe what the switch terminating block bb tests.
    Returns dict: {'kind': 'bool'|'discr'|'int', 'expr': <expr>, 'targets': {value: bb}, 'otherwise': bb}
    where expr is a small tree built by expr_of()."""
    t = body.term(bb)
    if t["k"] != "switch":
        return None
    e = expr_of(body, t["discr"], bb)
    return {"expr": e, "targets": {v: x for v, x in t["targets"]}, "otherwise": t["otherwise"], "ty": t["discr_ty"]}


def expr_of(body, op, at_bb=None, depth=0, _seen=None):
    """Symbolic expression tree for an operand:
      ('const', v) | ('path', root, fields) | ('call', callee, [args...], bb) | ('bin', op, a, b) | ('not', a)
      | ('discr', expr) | ('promoted', idx, value) | ('unknown',)"""
    if _seen is None:
        _seen = set()
    if op[0] == "k":
        c = op[1]
        if "promoted" in c:
            return ("promoted", c["promoted"], promoted_value(body, c["promoted"]))
        if "fn" in c:
            return ("fn", c["fn"].get("resolved", {}).get("path") or c["fn"]["callee"])
        return ("const", c.get("v") if c.get("v") is not None else c.get("item"))
    place = op[1]
    return place_expr(body, place, depth, _seen)


def place_expr(body, place, depth=0, _seen=None):
    if _seen is None:
        _seen = set()
    local = place[0]
    felems = [(e[1], e[2] if e[2] is not None else str(e[1])) for e in place[1:] if isinstance(e, list) and e[0] == "f"]
    fields = [n for _, n in felems]
    downs = [e[1] for e in place[1:] if isinstance(e, list) and e[0] == "d"]
    if depth > 40 or (local, tuple(fields)) in _seen:
        return ("unknown",)
    _seen = _seen | {(local, tuple(fields))}
    if 1 <= local <= body.argc:
        return ("path", ("arg", local), fields, downs)
    if local in mut_borrowed(body) and not fields and not downs and body.locals[local] in ("bool", "u8", "u16", "u32", "u64", "usize", "i32", "i64"):
        # a scalar whose address is taken mutably (e.g. captured by a closure that assigns it) is not a constant
        return ("path", ("local", local), fields, downs)
    alld = [d for d in body.defs().get(local, []) if d[0] in ("stmt", "call")]
    defs = [d for d in alld if d[0] == "call" or len(d[3]) == 1]
    # field-wise initialisation of a tuple/struct local: `_x.0 = a; _x.1 = b`
    if not defs and felems and not downs:
        fw = [d for d in alld if d[0] == "stmt" and len(d[3]) == 2 and isinstance(d[3][1], list) and d[3][1][0] == "f" and d[3][1][1] == felems[0][0]]
        if len(fw) == 1:
            e = _rv_expr(body, fw[0][4], fw[0][1], depth + 1, _seen)
            return _project(e, fields[1:], [])
    if len(defs) != 1:
        # several defs: a merge variable (e.g. short-circuit && / ||): report as phi of its sources
        if len(defs) > 1 and depth < 6:
            subs = []
            for d in defs:
                if d[0] == "stmt":
                    subs.append(_rv_expr(body, d[4], d[1], depth + 1, _seen))
                else:
                    subs.append(("call", callee(d[2]), [expr_of(body, a, d[1], depth + 1, _seen) for a in d[2]["args"]], d[1]))
            e = ("phi", local, subs)
            return _project(e, fields, downs)
        return ("path", ("local", local), fields, downs)
    d = defs[0]
    if d[0] == "call":
        t = d[2]
        e = ("call", callee(t), [expr_of(body, a, d[1], depth + 1, _seen) for a in t["args"]], d[1])
        return _project(e, fields, downs)
    e = _rv_expr(body, d[4], d[1], depth + 1, _seen)
    # projection out of an aggregate built in this body: pick the operand
    while e[0] == "agg" and felems and not downs and e[1][0] in ("tuple", "adt", "closure") and felems[0][0] < len(e[2]):
        e = e[2][felems[0][0]]
        felems = felems[1:]
        fields = fields[1:]
    return _project(e, fields, downs)


_MUTB = {}


def mut_borrowed(body):
    k = id(body)
    if k not in _MUTB:
        out = set()
        for blk in body.blocks:
            for s in blk["s"]:
                if s[0] == "=" and s[2][0] in ("refmut", "rawptr") and len(s[2][1]) == 1:
                    out.add(s[2][1][0])
        _MUTB[k] = out
    return _MUTB[k]


def _project(e, fields, downs):
    if not fields and not downs:
        return e
    if e[0] == "path":
        return ("path", e[1], e[2] + fields, e[3] + downs)
    if e[0] == "proj":
        return ("proj", e[1], e[2] + fields, e[3] + downs)
    return ("proj", e, fields, downs)


def _rv_expr(body, rv, bb, depth, _seen):
    k = rv[0]
    if k == "use":
        return expr_of(body, rv[1], bb, depth, _seen)
    if k in ("ref", "refmut", "rawptr"):
        return place_expr(body, rv[1], depth, _seen)
    if k == "cast":
        return expr_of(body, rv[2], bb, depth, _seen)
    if k == "bin":
        return ("bin", rv[1], expr_of(body, rv[2], bb, depth, _seen), expr_of(body, rv[3], bb, depth, _seen))
    if k == "un":
        return ("un", rv[1], expr_of(body, rv[2], bb, depth, _seen))
    if k == "discr":
        return ("discr", place_expr(body, rv[1], depth, _seen), rv[2])
    if k == "agg":
        return ("agg", rv[1], [expr_of(body, o, bb, depth, _seen) for o in rv[2]])
    return ("unknown",)


def promoted_value(body, idx):
    """evaluate simple promoted constants: &Some(true), &None, &5, &"str" -> python value / ('Some', v)"""
    owner = body if body.owner is None else body.owner
    for p in owner.promoted:
        if p.promoted_idx == idx:
            return _eval_promoted(p)
    return None


def _eval_promoted(p):
    env = {}
    for b in p.blocks:
        for s in b["s"]:
            if s[0] != "=":
                continue
            rv = s[2]
            dst = s[1][0]
            if rv[0] == "use" and rv[1][0] == "k":
                env[dst] = ("const", rv[1][1].get("v"))
            elif rv[0] == "agg":
                kind = rv[1]
                vals = []
                for o in rv[2]:
                    if o[0] == "k":
                        vals.append(("const", o[1].get("v")))
                    else:
                        vals.append(env.get(o[1][0]))
                if kind[0] == "adt":
                    env[dst] = ("adt", kind[1], kind[2], vals)
                else:
                    env[dst] = (kind[0], vals)
            elif rv[0] in ("ref",):
                env[dst] = env.get(rv[1][0])
            elif rv[0] == "use":
                env[dst] = env.get(rv[1][1][0])
    return env.get(0)


def _first_field(place):
    """name (or index) of the first field projection of a place, None if the whole local is meant"""
    for e in place[1:]:
        if isinstance(e, list) and e[0] == "f":
            return e[2] if e[2] is not None else str(e[1])
        if isinstance(e, list) and e[0] == "d":
            continue
    return None


def backward_slice(body, place, limit=600):
    """Backward data-dependence closure of a place, following every operand of every definition (for calls: all
    arguments) and writes through `&mut` borrows handed to calls. Field-sensitive at the first projection level for
    by-reference ARGUMENTS (`(*self).inner` and `(*self).path` are different objects: a call that receives
    `&mut self.inner` is not a writer of `self.path`). Returns dict with
    'calls': {callee path}, 'args': {arg index}, 'fields': {field names}, 'consts': [values], 'locals': {locals}"""
    calls, args, fields, consts = set(), set(), set(), []
    call_sites = set()
    seen = set()
    seen_locals = set()
    work = [(place[0], _first_field(place))]
    for e in place[1:]:
        if isinstance(e, list) and e[0] == "f" and e[2]:
            fields.add(e[2])
    n = 0
    # index: local -> calls that receive `&mut local[.field]` (possible writers), with the borrowed first field
    mut_writers = {}
    for bb, t in body.calls():
        for ai, a in enumerate(t["args"]):
            l = op_local(a)
            if l is None:
                continue
            for d in body.defs().get(l, []):
                if d[0] == "stmt" and d[4][0] == "refmut":
                    mut_writers.setdefault(d[4][1][0], []).append((bb, t, ai, _first_field(d[4][1])))

    def is_ref_arg(l):
        return 1 <= l <= body.argc and body.locals[l].startswith("&")

    while work and n < limit:
        l, ff = work.pop()
        if not is_ref_arg(l):
            ff = None               # only arguments behind a reference are split by field
        if (l, ff) in seen or (l, None) in seen:
            continue
        seen.add((l, ff))
        seen_locals.add(l)
        n += 1
        if 1 <= l <= body.argc:
            args.add(l)
        for d in body.defs().get(l, []):
            ops = []
            if d[0] == "stmt":
                if ff is not None and len(d[3]) > 1 and _first_field(d[3]) not in (None, ff):
                    continue        # a store into another field of the argument
                rv = d[4]
                k = rv[0]
                if k == "use":
                    ops = [rv[1]]
                elif k in ("ref", "refmut", "rawptr", "discr"):
                    ops = [("c", rv[1])]
                elif k == "cast":
                    ops = [rv[2]]
                elif k == "bin":
                    ops = [rv[2], rv[3]]
                elif k == "un":
                    ops = [rv[2]]
                elif k == "agg":
                    ops = list(rv[2])
                elif k == "repeat":
                    ops = [rv[1]]
            elif d[0] == "call":
                t = d[2]
                if "callee" in t:
                    calls.add(callee(t))
                    calls.add(callee_decl(t))
                call_sites.add(d[1])
                ops = list(t["args"])
            for o in ops:
                if o[0] == "k":
                    consts.append(o[1].get("v") if o[1].get("v") is not None else o[1].get("item"))
                    continue
                p = o[1]
                for e in p[1:]:
                    if isinstance(e, list) and e[0] == "f" and e[2]:
                        fields.add(e[2])
                    if isinstance(e, list) and e[0] == "i":
                        work.append((e[1], None))
                work.append((p[0], _first_field(p)))
        for (bb, t, ai, wf) in mut_writers.get(l, []):
            if ff is not None and wf is not None and wf != ff:
                continue            # `&mut self.other_field` cannot write the field that is read
            if "callee" in t:
                calls.add(callee(t))
            call_sites.add(bb)
            for o in t["args"]:
                p = op_place(o)
                if p is not None:
                    work.append((p[0], _first_field(p)))
    return {"calls": calls, "args": args, "fields": fields, "consts": consts, "locals": seen_locals, "call_sites": call_sites}


def base_local(body, place, through=None, depth=0):
    """the local whose storage a (reference) place ultimately denotes: follows `&`, `&mut`, reborrows, moves and
    deref-like pass-through calls. Returns local index or None if ambiguous."""
    through = through or re.compile(r"Deref>::deref$|DerefMut>::deref_mut$|AsRef<.*>>::as_ref$|AsMut<.*>>::as_mut$|Borrow(Mut)?<.*>>::borrow(_mut)?$")
    l = place[0]
    if depth > 30:
        return None
    defs = [d for d in body.defs().get(l, []) if d[0] in ("stmt", "call") and (d[0] == "call" or len(d[3]) == 1)]
    if len(defs) != 1:
        return l
    d = defs[0]
    if d[0] == "stmt":
        rv = d[4]
        if rv[0] in ("ref", "refmut", "rawptr"):
            src = rv[1]
            if len(src) == 1:
                # `&_3`: _3 is the storage
                inner = [x for x in body.defs().get(src[0], []) if x[0] == "stmt" and x[4][0] in ("ref", "refmut") or (x[0] == "stmt" and x[4][0] == "use" and x[4][1][0] in ("c", "m"))]
                if not inner:
                    return src[0]
            return base_local(body, src, through, depth + 1)
        if rv[0] == "use" and rv[1][0] in ("c", "m"):
            return base_local(body, rv[1][1], through, depth + 1)
        if rv[0] == "cast" and rv[2][0] in ("c", "m"):
            return base_local(body, rv[2][1], through, depth + 1)
        return l
    t = d[2]
    if "callee" in t and t["args"] and (through.search(callee(t)) or through.search(callee_decl(t))) and op_place(t["args"][0]) is not None:
        return base_local(body, op_place(t["args"][0]), through, depth + 1)
    return l


def expr_mentions(e):
    """(fields, callees) occurring anywhere in an expression tree built by expr_of()"""
    fields, calls = set(), set()

    def walk(x):
        if isinstance(x, (tuple, list)):
            if len(x) >= 3 and x[0] == "path" and isinstance(x[2], list):
                fields.update(f for f in x[2] if isinstance(f, str))
            elif len(x) >= 3 and x[0] == "proj" and isinstance(x[2], list):
                fields.update(f for f in x[2] if isinstance(f, str))
            elif len(x) >= 2 and x[0] == "call" and isinstance(x[1], str):
                calls.add(x[1])
            for y in x:
                walk(y)
    walk(e)
    return fields, calls


def subst_args(e, actual):
    """replace parameter paths (arg i) in expression e by the caller's argument expressions"""
    if e[0] == "path":
        root = e[1]
        if isinstance(root, tuple) and root[0] == "arg" and 1 <= root[1] <= len(actual):
            a = actual[root[1] - 1]
            f = list(e[2])
            dn = list(e[3]) if len(e) > 3 else []
            if not f and not dn:
                return a
            if a[0] == "path":
                return ("path", a[1], list(a[2]) + f, list(a[3] if len(a) > 3 else []) + dn)
            return ("proj", a, f, dn)
        return e
    if e[0] == "call":
        return ("call", e[1], [subst_args(a, actual) for a in e[2]], e[3] if len(e) > 3 else 0)
    if e[0] == "bin":
        return ("bin", e[1], subst_args(e[2], actual), subst_args(e[3], actual))
    if e[0] == "un":
        return ("un", e[1], subst_args(e[2], actual))
    if e[0] == "proj":
        return ("proj", subst_args(e[1], actual), e[2], e[3] if len(e) > 3 else [])
    if e[0] == "agg":
        return ("agg", e[1], [subst_args(a, actual) for a in e[2]])
    if e[0] == "phi":
        return ("phi", e[1], [subst_args(a, actual) for a in e[2]])
    return e


def inline_expr(prog, e, crate="rustic_core", depth=0, maxdepth=4):
    """inline calls of small functions of the analysed crate (their return expression with arguments substituted) and
    resolve projections out of the tuples / structs they build; third-party and std calls stay as call nodes"""
    if not isinstance(e, tuple):
        return e
    k = e[0]
    if k == "call":
        args = [inline_expr(prog, a, crate, depth, maxdepth) for a in e[2]]
        tb = prog.bodies.get(e[1])
        if tb is not None and tb.crate == crate and depth < maxdepth and len(tb.blocks) <= 60:
            actual = args
            if tb.is_closure() and len(args) == 2 and args[1][0] == "agg":
                actual = [args[0]] + list(args[1][2])
            return inline_expr(prog, subst_args(place_expr(tb, [0]), actual), crate, depth + 1, maxdepth)
        return ("call", e[1], args, e[3] if len(e) > 3 else 0)
    if k == "proj":
        inner = inline_expr(prog, e[1], crate, depth, maxdepth)
        fields = list(e[2])
        downs = list(e[3]) if len(e) > 3 else []
        # wrappers of `?` / Option / Result are transparent: drop their payload field
        while inner[0] == "agg" and fields and inner[1][0] in ("tuple", "adt") and fields[0].isdigit() and int(fields[0]) < len(inner[2]):
            inner = inner[2][int(fields[0])]
            fields = fields[1:]
            if downs:
                downs = downs[1:]
        if not fields and not downs:
            return inner
        return ("proj", inner, fields, downs)
    if k == "bin":
        return ("bin", e[1], inline_expr(prog, e[2], crate, depth, maxdepth), inline_expr(prog, e[3], crate, depth, maxdepth))
    if k == "un":
        return ("un", e[1], inline_expr(prog, e[2], crate, depth, maxdepth))
    if k == "agg":
        return ("agg", e[1], [inline_expr(prog, a, crate, depth, maxdepth) for a in e[2]])
    if k == "phi":
        return ("phi", e[1], [inline_expr(prog, a, crate, depth, maxdepth) for a in e[2]])
    return e
