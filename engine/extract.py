"""Fact extraction: run the rcfacts driver over /repo's *current working tree* and cache the
result under a content hash of the sources (so 20 property checks pay for one extraction).

Fail closed: a missing driver, a failing build, or a missing fact file raises ExtractError.
"""
import fcntl
import hashlib
import json
import os
import shutil
import subprocess
import sys
import time

VERIF = os.path.dirname(os.path.dirname(os.path.abspath(__file__)))
REPO = os.environ.get("VERIF_REPO", "/repo")
CACHE = os.path.join(VERIF, ".cache")
DRIVER = os.path.join(VERIF, "driver", "target", "release", "rcfacts")
MEMBERS = ["rustic_core", "rustic_backend", "rustic_testing"]

# feature configurations; "default" is what the baseline test command builds
CONFIGS = {
    "default": ["-p", "rustic_core", "-p", "rustic_backend", "-p", "rustic_testing"],
    # clap/merge derive expansions touch every options struct
    "cli": ["-p", "rustic_core", "--features", "rustic_core/cli", "-p", "rustic_backend", "-p", "rustic_testing"],
}


class ExtractError(Exception):
    pass


def _sysroot():
    return subprocess.check_output(["rustc", "+nightly", "--print", "sysroot"], text=True).strip()


def tree_hash(repo=REPO):
    h = hashlib.sha256()
    files = []
    for root, dirs, fs in os.walk(repo):
        dirs[:] = sorted(d for d in dirs if d not in ("target", ".git"))
        for f in fs:
            if f.endswith(".rs") or f in ("Cargo.toml", "Cargo.lock"):
                files.append(os.path.join(root, f))
    files.sort()
    for p in files:
        h.update(os.path.relpath(p, repo).encode())
        h.update(b"\0")
        with open(p, "rb") as fh:
            h.update(fh.read())
        h.update(b"\0")
    with open(DRIVER, "rb") as fh:
        h.update(hashlib.sha256(fh.read()).digest())
    return h.hexdigest()[:24], len(files)


def ensure_driver():
    if not os.path.exists(DRIVER):
        build_driver()


def build_driver():
    r = subprocess.run(
        ["cargo", "+nightly", "build", "--release", "--offline"],
        cwd=os.path.join(VERIF, "driver"),
        stdout=subprocess.PIPE, stderr=subprocess.STDOUT, text=True,
    )
    if r.returncode != 0 or not os.path.exists(DRIVER):
        raise ExtractError("driver build failed:\n" + r.stdout[-4000:])


def facts_dir(config="default", repo=REPO):
    """Return (dir, info) with fresh facts for the current tree of `repo`; extract if needed."""
    ensure_driver()
    os.makedirs(CACHE, exist_ok=True)
    key, nfiles = tree_hash(repo)
    d = os.path.join(CACHE, "facts", f"{key}-{config}")
    info = {"tree_key": key, "source_files_hashed": nfiles, "config": config, "cached": True}
    if _complete(d):
        try:
            os.utime(d)
        except OSError:
            pass
        return d, info
    lock = open(os.path.join(CACHE, "extract.lock"), "w")
    fcntl.flock(lock, fcntl.LOCK_EX)
    try:
        if _complete(d):
            return d, info
        info["cached"] = False
        t0 = time.time()
        _extract(d, config, repo)
        info["extract_s"] = round(time.time() - t0, 1)
        _gc(os.path.join(CACHE, "facts"), keep=d)
        return d, info
    finally:
        fcntl.flock(lock, fcntl.LOCK_UN)
        lock.close()


def _complete(d):
    return os.path.isdir(d) and all(os.path.exists(os.path.join(d, m + ".json")) for m in MEMBERS)


def _gc(root, keep, maxn=6):
    try:
        ds = sorted((os.path.join(root, x) for x in os.listdir(root)), key=os.path.getmtime)
    except FileNotFoundError:
        return
    # never evict what another process may be loading right now: only entries unused for 20 minutes are candidates
    now = time.time()
    ds = [x for x in ds if x != keep and now - os.path.getmtime(x) > 1200]
    for x in ds[: max(0, len(ds) - maxn)]:
        shutil.rmtree(x, ignore_errors=True)


def _extract(d, config, repo):
    target = os.environ.get("VERIF_TARGET", os.path.join(CACHE, "target-nightly"))
    if repo != REPO:
        # scratch copies get their own target dir cloned lazily by the caller
        target = os.environ.get("VERIF_TARGET", os.path.join(repo, "target-nightly"))
    os.makedirs(target, exist_ok=True)
    # cargo's freshness cache would skip the wrapper for unchanged members: drop their fingerprints
    fp = os.path.join(target, "debug", ".fingerprint")
    if os.path.isdir(fp):
        for x in os.listdir(fp):
            if any(x.startswith(m + "-") for m in MEMBERS):
                shutil.rmtree(os.path.join(fp, x), ignore_errors=True)
    tmp = d + f".tmp{os.getpid()}"
    shutil.rmtree(tmp, ignore_errors=True)
    os.makedirs(tmp)
    env = dict(os.environ)
    env.update({
        "LD_LIBRARY_PATH": _sysroot() + "/lib",
        "RUSTFLAGS": "-Zmir-opt-level=0 -Awarnings",
        "RUSTC_WORKSPACE_WRAPPER": DRIVER,
        "RCFACTS_OUT": tmp,
        "RCFACTS_CRATES": ",".join(MEMBERS),
        "CARGO_TARGET_DIR": target,
        "CARGO_PROFILE_DEV_DEBUG": "0",
        "CARGO_NET_OFFLINE": "true",
        "CARGO_INCREMENTAL": "0",
    })
    cmd = ["cargo", "+nightly", "check", "--offline", "--locked"] + CONFIGS[config]
    r = subprocess.run(cmd, cwd=repo, env=env, stdout=subprocess.PIPE, stderr=subprocess.STDOUT, text=True)
    if r.returncode != 0:
        shutil.rmtree(tmp, ignore_errors=True)
        raise ExtractError(f"cargo check failed in {repo} ({config}):\n" + r.stdout[-6000:])
    for m in MEMBERS:
        src = os.path.join(tmp, m + ".lib.json")
        if not os.path.exists(src):
            # crate type may print differently; accept any single file for the crate
            cands = [x for x in os.listdir(tmp) if x.startswith(m + ".")]
            if len(cands) != 1:
                shutil.rmtree(tmp, ignore_errors=True)
                raise ExtractError(f"no fact file produced for {m} (wrapper skipped?): {os.listdir(tmp) if os.path.isdir(tmp) else ''}")
            src = os.path.join(tmp, cands[0])
        os.rename(src, os.path.join(tmp, m + ".json"))
    shutil.rmtree(d, ignore_errors=True)
    os.rename(tmp, d)


if __name__ == "__main__":
    cfg = sys.argv[1] if len(sys.argv) > 1 else "default"
    d, info = facts_dir(cfg)
    print(json.dumps({"dir": d, **info}))
