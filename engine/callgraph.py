"""Call graph over the analysed crates + generic effect summaries.

Edges: resolved static callees; trait-method calls on generic/dyn receivers get class-hierarchy
edges to every impl of that trait method found in the analysed crates (and the provided body);
closures are attributed to the site that finally consumes the closure value (iterator adaptor
chain followed through result types that mention the closure type); fn items passed as values
are edges from the passing site.
"""
import re
from collections import defaultdict
from facts import callee, callee_decl, op_place, op_local, AnchorError

LOCAL_CRATES = ("rustic_core", "rustic_backend", "rustic_testing")


def strip_crate(s):
    for c in LOCAL_CRATES:
        s = s.replace(c + "::", "")
    return s


class CallGraph:
    def __init__(self, prog):
        self.prog = prog
        # trait method (crate-stripped decl path) -> [impl method body paths]
        self.impls_of = defaultdict(list)
        for im in prog.impls:
            for it in im["items"]:
                ti = it.get("trait_item")
                if ti and it["kind"] == "Fn":
                    self.impls_of[strip_crate(ti)].append(it["path"])
        self._sites = {}
        self._closure_sites = {}

    # ---- per-body outgoing edges -------------------------------------------------
    def sites(self, body):
        """list of (bb, term_or_None, kind, [target Body], info) for a body.
        kind: 'call' (static/resolved), 'cha' (trait dispatch), 'closure' (closure value consumed here),
              'fnptr' (fn item passed as value)"""
        if body.path in self._sites:
            return self._sites[body.path]
        prog = self.prog
        out = []
        for bb, t in body.calls():
            if "callee" not in t:
                out.append((bb, t, "indirect", [], None))
                continue
            res = t.get("resolved")
            decl = t["callee"]
            if res:
                tgt = prog.bodies.get(res["path"])
                out.append((bb, t, "call", [tgt] if tgt else [], res.get("gargs")))
            elif t.get("resolved_same"):
                tgt = prog.bodies.get(decl)
                out.append((bb, t, "call", [tgt] if tgt else [], t.get("gargs")))
            else:
                # unresolved: trait method on a generic or dyn receiver
                key = strip_crate(decl)
                tg = []
                for p in self.impls_of.get(key, []):
                    b = prog.bodies.get(p)
                    if b:
                        tg.append(b)
                d = prog.bodies.get(decl)  # provided method body
                if d:
                    tg.append(d)
                out.append((bb, t, "cha" if t.get("trait") else "call", tg, t.get("gargs")))
            # fn items passed as arguments
            for a in t["args"]:
                if a[0] == "k" and "fn" in a[1]:
                    f = a[1]["fn"]
                    p = (f.get("resolved") or {}).get("path") or f["callee"]
                    b = prog.bodies.get(p)
                    if b:
                        out.append((bb, t, "fnptr", [b], (f.get("resolved") or {}).get("gargs") or f.get("gargs")))
        # closures created in this body
        for c in prog.closures_of(body, recursive=False):
            for (bb, si, ops) in self.closure_creations(body, c):
                cons = self.closure_consumers(body, c, bb, si)
                if not cons:
                    cons = [bb]
                for cb in cons:
                    out.append((cb, body.term(cb) if body.term(cb)["k"] == "call" else None, "closure", [c], ops))
        self._sites[body.path] = out
        return out

    def closure_creations(self, body, closure):
        out = []
        for bi, b in enumerate(body.blocks):
            for si, s in enumerate(b["s"]):
                if s[0] == "=" and s[2][0] == "agg" and s[2][1][0] in ("closure", "coroutine", "coroutine_closure") and s[2][1][1] == closure.path:
                    out.append((bi, si, s[2][2]))
        return out

    def closure_consumers(self, body, closure, bb, si):
        """blocks whose call terminator finally consumes the closure value created at (bb,si)"""
        s = body.blocks[bb]["s"][si]
        start = s[1][0]
        cty = body.locals[start]
        # type string of the closure: "{closure@file:l:c: l:c}"
        m = re.search(r"\{closure@[^}]*\}", cty)
        ctoken = m.group(0) if m else None
        seen = {start}
        work = [start]
        consumers = []
        while work:
            l = work.pop()
            for bi, b in enumerate(body.blocks):
                for st in b["s"]:
                    if st[0] != "=":
                        continue
                    rv = st[2]
                    src = None
                    if rv[0] == "use":
                        src = op_local(rv[1])
                    elif rv[0] in ("ref", "refmut"):
                        src = rv[1][0]
                    elif rv[0] == "cast":
                        src = op_local(rv[2])
                    elif rv[0] == "agg":
                        if any(op_local(o) == l for o in rv[2]):
                            src = l
                    if src == l and st[1][0] not in seen:
                        seen.add(st[1][0])
                        work.append(st[1][0])
                t = b["t"]
                if t["k"] == "call" and any(op_local(a) == l for a in t["args"]):
                    dty = t.get("dest_ty", "")
                    d = t["dest"][0]
                    if ctoken and ctoken in dty:
                        if d not in seen:
                            seen.add(d)
                            work.append(d)
                    else:
                        # `&mut iter` passed to next(): dest does not carry the closure; this is a consumer
                        if bi not in consumers:
                            consumers.append(bi)
        return consumers

    # ---- reachability -------------------------------------------------------------
    def reachable(self, roots, stop=None):
        seen = {}
        work = []
        for r in roots:
            seen[r.path] = None
            work.append(r)
        while work:
            b = work.pop()
            if stop and stop(b):
                continue
            for (bb, t, kind, tgts, info) in self.sites(b):
                for tg in tgts:
                    if tg.path not in seen:
                        seen[tg.path] = (b.path, bb)
                        work.append(tg)
        return seen

    def path_to(self, seen, target_path):
        chain = []
        x = target_path
        while x is not None and x in seen:
            pr = seen[x]
            chain.append(x)
            x = pr[0] if pr else None
        return list(reversed(chain))


# ---- effect summaries ------------------------------------------------------------------

class Effects:
    """Bottom-up may-effect summaries with symbolic file types.

    prim(body, bb, t) -> list of (kind, tpe_operand_spec) for primitive effect call sites, where
      tpe spec is produced by `tpe_of_operand(body, op)`;
    site_filter(body, bb, effects:set) -> set : lets a rule drop effects at guarded sites.
    descend(body, t, target) -> bool : whether to follow the edge."""

    def __init__(self, prog, cg, prim, site_filter=None, descend=None, type_const=None):
        self.prog = prog
        self.cg = cg
        self.prim = prim
        self.site_filter = site_filter
        self.descend = descend
        self.type_const = type_const  # (type string, const path suffix) -> concrete value
        self.summ = {}
        self.site_eff = {}

    def compute(self, roots=None):
        prog = self.prog
        bodies = list(prog.bodies.values()) if roots is None else [prog.bodies[p] for p in self.cg.reachable(roots)]
        for b in bodies:
            self.summ[b.path] = frozenset()
        changed = True
        rounds = 0
        while changed and rounds < 50:
            changed = False
            rounds += 1
            for b in bodies:
                new = self._body_effects(b)
                if new != self.summ[b.path]:
                    self.summ[b.path] = new
                    changed = True
        return self.summ

    def _body_effects(self, body):
        acc = set()
        per_site = defaultdict(set)
        for bb, t in body.calls():
            for e in self.prim(body, bb, t):
                per_site[bb].add(e)
        for (bb, t, kind, tgts, info) in self.cg.sites(body):
            for tg in tgts:
                if tg.path not in self.summ:
                    continue
                if self.descend and not self.descend(body, t, tg):
                    continue
                for e in self.summ[tg.path]:
                    per_site[bb].add(self._subst(body, bb, t, kind, tg, info, e))
        for bb, es in per_site.items():
            if self.site_filter:
                es = self.site_filter(body, bb, es)
            acc |= set(es)
        self.site_eff[body.path] = per_site
        return frozenset(acc)

    def _subst(self, body, bb, t, kind, tg, info, e):
        k, tpe = e[0], e[1]
        rest = e[2:]
        if isinstance(tpe, tuple):
            if tpe[0] == "g":
                name, cpath = tpe[1], tpe[2]
                if kind == "closure":
                    # closure shares its parent's generics by name
                    ntpe = self.resolve_generic(body, name, cpath)
                else:
                    gargs = info or []
                    gi = tg.generics.index(name) if name in tg.generics else None
                    if gi is None or gi >= len(gargs):
                        ntpe = "*"
                    else:
                        ntpe = self.resolve_generic(body, gargs[gi], cpath)
            elif tpe[0] == "p":
                idx = tpe[1]
                if kind == "closure":
                    ntpe = "*"
                elif t is not None and kind in ("call", "cha") and idx - 1 < len(t["args"]):
                    ntpe = self.tpe_of_operand(body, t["args"][idx - 1])
                else:
                    ntpe = "*"
            elif tpe[0] == "up":
                idx = tpe[1]
                if kind == "closure" and info is not None and idx < len(info):
                    ntpe = self.tpe_of_operand(body, info[idx])
                else:
                    ntpe = "*"
            else:
                ntpe = "*"
        else:
            ntpe = tpe
        return (k, ntpe) + tuple(rest)

    def resolve_generic(self, body, tyname, cpath):
        """tyname is a type string at the caller: a generic parameter of the caller or a concrete type"""
        if tyname in body.generics or (body.is_closure() and self._root_generics(body, tyname)):
            return ("g", tyname, cpath)
        v = self.type_const(strip_crate(tyname), cpath) if self.type_const else None
        return v if v is not None else "*"

    def _root_generics(self, body, name):
        r = self.prog.bodies.get(body.root) if body.root else None
        return r is not None and name in r.generics

    def tpe_of_operand(self, body, op):
        """file-type spec of an operand: concrete variant name, ('p', n), ('g', name, const), ('up', i) or '*'"""
        raise NotImplementedError
