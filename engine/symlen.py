"""Symbolic lengths: a small forward abstract interpretation of one MIR body that tracks, per local,
  * ival  - the value of an integer local as a linear expression over symbols (arguments, results of opaque calls),
  * blen  - the LENGTH of the byte container (bytes::Bytes, &[u8], Vec<u8>) a local holds or points to,
through moves, casts, checked arithmetic, reborrows, the Result/Option/ControlFlow wrappers of `?`, and the slicing
API of bytes::Bytes (split_off / split_to / slice / len / deref / index by range). Joins keep a value only if all
predecessors agree (otherwise a per-(block, local) join symbol). Used to decide framing rules such as "the slice handed to
decrypt has exactly the length that was read from the pack's length field" without executing anything."""
import re
from facts import callee, callee_decl, op_place, op_local


class Lin:
    """linear expression: const + sum coef*symbol"""
    __slots__ = ("c", "t")

    def __init__(self, c=0, t=None):
        self.c = c
        self.t = {k: v for k, v in (t or {}).items() if v != 0}

    @staticmethod
    def sym(name):
        return Lin(0, {name: 1})

    def __add__(self, o):
        t = dict(self.t)
        for k, v in o.t.items():
            t[k] = t.get(k, 0) + v
        return Lin(self.c + o.c, t)

    def __sub__(self, o):
        t = dict(self.t)
        for k, v in o.t.items():
            t[k] = t.get(k, 0) - v
        return Lin(self.c - o.c, t)

    def scale(self, n):
        return Lin(self.c * n, {k: v * n for k, v in self.t.items()})

    def is_const(self):
        return not self.t

    def __eq__(self, o):
        return isinstance(o, Lin) and self.c == o.c and self.t == o.t

    def __hash__(self):
        return hash((self.c, tuple(sorted(self.t.items()))))

    def __repr__(self):
        parts = [f"{'' if v == 1 else ('-' if v == -1 else str(v) + '*')}{k}" for k, v in sorted(self.t.items())]
        if self.c or not parts:
            parts.append(str(self.c))
        return " + ".join(parts).replace("+ -", "- ")


TRANSPARENT = re.compile(
    r"ops::Try>::branch$|Result::<T, E>::(map_err|inspect_err|inspect)$|Option::<T>::(ok_or|ok_or_else)$|convert::From<.*>>::from$|convert::Into<.*>>::into$|ops::Deref>::deref$"
    r"|ops::DerefMut>::deref_mut$|convert::AsRef<.*>>::as_ref$|clone::Clone>::clone$|::attach_context$|::ask_report$|<T as std::convert::Into<U>>::into$"
    r"|bytes::Bytes::copy_from_slice$|::to_vec$|::as_slice$|borrow::Borrow<.*>>::borrow$|std::convert::identity$")
READ_PARTIAL = re.compile(r"(ReadBackend|DecryptReadBackend)(>)?::read_partial$|::read_encrypted_partial$")
LEN = re.compile(r"^bytes::Bytes::len$|^core::slice::<impl \[T\]>::len$|^std::vec::Vec::<T, A>::len$|BytesMut::len$")
MUTATORS = re.compile(r"bytes::Bytes::(truncate|clear|advance)$|Buf>::advance$|Vec::<T, A>::(truncate|clear|push|extend_from_slice|resize|drain|append|insert|remove)$")


class State:
    __slots__ = ("ival", "blen", "ref", "rng")

    def __init__(self):
        self.ival, self.blen, self.ref, self.rng = {}, {}, {}, {}

    def copy(self):
        s = State()
        s.ival, s.blen, s.ref, s.rng = dict(self.ival), dict(self.blen), dict(self.ref), dict(self.rng)
        return s

    def same(self, o):
        return self.ival == o.ival and self.blen == o.blen and self.ref == o.ref and self.rng == o.rng


def _join(bb, states):
    out = State()
    for attr in ("ival", "blen", "ref", "rng"):
        keys = set()
        for s in states:
            keys |= set(getattr(s, attr))
        d = getattr(out, attr)
        for k in keys:
            vals = [getattr(s, attr).get(k) for s in states]
            if all(v == vals[0] for v in vals) and vals[0] is not None:
                d[k] = vals[0]
            elif attr in ("ival", "blen") and any(v is not None for v in vals):
                d[k] = Lin.sym(f"join{bb}_{attr}{k}")
    return out


class Analysis:
    def __init__(self, body, sinks, arg_names=None):
        """sinks: list of (name, callee regex, argument index, 'blen'|'ival')"""
        self.body = body
        self.sinks = [(n, re.compile(rx), ai, kind) for (n, rx, ai, kind) in sinks]
        self.found = []            # (sink name, bb, Lin or None)
        self.call_syms = {}        # bb -> symbol name of an opaque call's integer result
        self.instate = {}
        self.arg_names = arg_names or {}

    # ---- access ---------------------------------------------------------------------------------------
    def base(self, st, l):
        seen = set()
        while l in st.ref and l not in seen:
            seen.add(l)
            l = st.ref[l]
        return l

    def int_of(self, st, op):
        if op[0] == "k":
            v = op[1].get("v")
            if isinstance(v, int) and not isinstance(v, bool):
                return Lin(v)
            return None
        p = op[1]
        l = p[0]
        if len(p) == 1:
            if 1 <= l <= self.body.argc and l not in st.ival and self.body.locals[l] in ("u32", "u64", "usize", "u16", "u8", "i64", "i32"):
                return Lin.sym(self.arg_names.get(l, f"arg{l}"))
            return st.ival.get(l)
        # projections: wrappers and checked tuples are transparent for field 0; deref of a reference reads the target
        fields = [e for e in p[1:] if isinstance(e, list) and e[0] == "f"]
        if all((e == "*" or (isinstance(e, list) and e[0] in ("d", "f"))) for e in p[1:]):
            if any(e[1] != 0 or (e[2] not in (None, "0")) for e in fields):
                # a named field of some structure: an opaque but stable symbol (e.g. `blob.location.length`)
                names = [e[2] or str(e[1]) for e in fields]
                return Lin.sym("field:" + ".".join(names))
            v = st.ival.get(self.base(st, l))
            if v is None and fields and all(e[2] in (None, "0", "1", "2", "3") for e in fields) and not any(isinstance(e, list) and e[0] == "d" for e in p[1:]):
                # component of an opaque tuple value (e.g. the pair returned by a helper): a stable symbol
                return Lin.sym(f"tuple{self.base(st, l)}." + ".".join(str(e[1]) for e in fields))
            return v
        return None

    def len_of(self, st, op):
        p = op_place(op)
        if p is None:
            return None
        if any(isinstance(e, list) and e[0] == "f" and e[1] != 0 for e in p[1:]):
            return None
        return st.blen.get(self.base(st, p[0]))

    # ---- transfer -------------------------------------------------------------------------------------
    def assign(self, st, dest, iv=None, bl=None, ref=None, rng=None):
        if len(dest) != 1:
            return
        d = dest[0]
        for m in (st.ival, st.blen, st.ref, st.rng):
            m.pop(d, None)
        if iv is not None:
            st.ival[d] = iv
        if bl is not None:
            st.blen[d] = bl
        if ref is not None:
            st.ref[d] = ref
        if rng is not None:
            st.rng[d] = rng

    def stmt(self, st, s):
        if s[0] != "=":
            return
        dest, rv = s[1], s[2]
        k = rv[0]
        if k == "use":
            op = rv[1]
            p = op_place(op)
            refv = None
            if p is not None and len(p) == 1 and p[0] in st.ref:
                refv = st.ref[p[0]]
            rngv = st.rng.get(p[0]) if p is not None and len(p) == 1 else None
            self.assign(st, dest, self.int_of(st, op), self.len_of(st, op), refv, rngv)
        elif k == "cast":
            self.assign(st, dest, self.int_of(st, rv[2]), self.len_of(st, rv[2]))
        elif k == "bin":
            op = rv[1].replace("WithOverflow", "")
            a, b = self.int_of(st, rv[2]), self.int_of(st, rv[3])
            r = None
            if a is not None and b is not None:
                if op == "Add":
                    r = a + b
                elif op == "Sub":
                    r = a - b
                elif op == "Mul" and (a.is_const() or b.is_const()):
                    r = b.scale(a.c) if a.is_const() else a.scale(b.c)
            self.assign(st, dest, r)
        elif k in ("ref", "refmut", "rawptr"):
            p = rv[1]
            if all(e == "*" for e in p[1:]):
                self.assign(st, dest, ref=self.base(st, p[0]))
            else:
                self.assign(st, dest)
        elif k == "agg" and rv[1][0] == "adt" and re.search(r"ops::Range(From|To|Inclusive|ToInclusive|Full)?$", rv[1][1]):
            name = rv[1][1].rsplit("::", 1)[-1]
            vals = [self.int_of(st, o) for o in rv[2]]
            fields = rv[1][3] if len(rv[1]) > 3 else []
            fm = dict(zip(fields, vals))
            self.assign(st, dest, rng=(name, fm.get("start"), fm.get("end")))
        else:
            self.assign(st, dest)

    def range_len(self, total, rng):
        if rng is None:
            return None
        name, start, end = rng
        if name == "RangeFrom" and start is not None and total is not None:
            return total - start
        if name == "Range" and start is not None and end is not None:
            return end - start
        if name == "RangeTo" and end is not None:
            return end
        if name == "RangeFull":
            return total
        return None

    def call(self, st, bb, t):
        if "callee" not in t:
            self.assign(st, t["dest"])
            return
        c, cd = callee(t), callee_decl(t)
        args = t["args"]
        for (name, rx, ai, kind) in self.sinks:
            if (rx.search(c) or rx.search(cd)) and ai < len(args):
                v = self.len_of(st, args[ai]) if kind == "blen" else self.int_of(st, args[ai])
                self.found = [f for f in self.found if not (f[0] == name and f[1] == bb)]
                self.found.append((name, bb, v))
        dest = t["dest"]
        if READ_PARTIAL.search(c) or READ_PARTIAL.search(cd):
            self.assign(st, dest, bl=self.int_of(st, args[-1]))
            return
        if c == "bytes::Bytes::split_off" or c == "bytes::Bytes::split_to":
            tgt = self.base(st, op_local(args[0])) if op_local(args[0]) is not None else None
            at = self.int_of(st, args[1])
            cur = st.blen.get(tgt)
            if c.endswith("split_off"):
                self.assign(st, dest, bl=(cur - at) if cur is not None and at is not None else None)
                if tgt is not None:
                    if at is not None:
                        st.blen[tgt] = at
                    else:
                        st.blen.pop(tgt, None)
            else:
                self.assign(st, dest, bl=at)
                if tgt is not None:
                    if cur is not None and at is not None:
                        st.blen[tgt] = cur - at
                    else:
                        st.blen.pop(tgt, None)
            return
        if c == "bytes::Bytes::slice" or re.search(r"ops::Index<.*>>::index$|impl std::ops::Index<I> for \[T\]>::index$|slice::<impl \[T\]>::get$|ops::Index<I> for std::vec::Vec<T, A>>::index$", c):
            r = st.rng.get(op_local(args[1])) if len(args) > 1 and op_local(args[1]) is not None else None
            self.assign(st, dest, bl=self.range_len(self.len_of(st, args[0]), r))
            return
        if LEN.search(c):
            v = self.len_of(st, args[0])
            if v is None:
                v = Lin.sym(f"len@{bb}")
                self.call_syms[bb] = f"len@{bb}"
            self.assign(st, dest, iv=v)
            return
        m_chk = re.search(r"::(checked_sub|checked_add)$", c)
        if m_chk and len(args) == 2:
            # the payload of `Some`: the exact difference / sum (the `None` case leaves through `?` / `ok_or_else`)
            x, y = self.int_of(st, args[0]), self.int_of(st, args[1])
            self.assign(st, dest, iv=((x - y) if m_chk.group(1) == "checked_sub" else (x + y)) if x is not None and y is not None else None)
            return
        if TRANSPARENT.search(c) or TRANSPARENT.search(cd):
            self.assign(st, dest, self.int_of(st, args[0]) if args else None, self.len_of(st, args[0]) if args else None)
            return
        if MUTATORS.search(c) and args and op_local(args[0]) is not None:
            st.blen.pop(self.base(st, op_local(args[0])), None)
        # opaque call: an integer result is a fresh, stable symbol
        dty = t.get("dest_ty", "")
        if dty in ("u32", "u64", "usize", "u16", "u8", "i64", "i32"):
            name = f"{c.rsplit('::', 1)[-1]}@{bb}"
            self.call_syms[bb] = name
            self.assign(st, dest, iv=Lin.sym(name))
        else:
            self.assign(st, dest)
        # a &mut handed to an unknown callee invalidates the length
        for a in args:
            l = op_local(a)
            if l is not None and self.body.locals[l].startswith("&mut") and l in st.ref:
                st.blen.pop(self.base(st, l), None)

    def run(self):
        body = self.body
        preds = body.preds()
        st0 = State()
        for l in range(1, body.argc + 1):
            ty = body.locals[l]
            if re.search(r"bytes::Bytes|\[u8\]|Vec<u8>", ty):
                st0.blen[l] = Lin.sym(f"len_arg{l}")
        self.instate = {0: st0}
        outs = {}
        work = [0]
        n = 0
        while work and n < 20000:
            bb = work.pop(0)
            n += 1
            st = self.instate[bb].copy()
            blk = body.blocks[bb]
            for s in blk["s"]:
                self.stmt(st, s)
            t = blk["t"]
            if t["k"] == "call":
                self.call(st, bb, t)
            outs[bb] = st
            for sx in body.succ(bb):
                if body.blocks[sx].get("cleanup"):
                    continue
                ps = [outs[p] for p in preds[sx] if p in outs]
                new = _join(sx, ps) if len(ps) > 1 else ps[0].copy()
                if sx not in self.instate or not self.instate[sx].same(new):
                    self.instate[sx] = new
                    if sx not in work:
                        work.append(sx)
        return self
