"""Small path-sensitive reachability: explores the CFG keeping the truth values of boolean tests on
immutable access paths (by-value bool parameters and fields read through `&T` parameters, including
closure captures) consistent along a path, with some tests forced by the caller (assumptions)."""
import flow


def _bool_key(body, bb):
    """if block bb ends in a switch on a (possibly negated) bool read of an immutable access path, return
    (key, true_target, false_target) else None"""
    t = body.term(bb)
    if t["k"] != "switch" or t["discr_ty"] != "bool":
        return None
    e = flow.expr_of(body, t["discr"])
    neg = False
    while e[0] == "un" and e[1] == "Not":
        neg = not neg
        e = e[2]
    if e[0] != "path":
        return None
    root, fields = e[1], e[2]
    if root[0] != "arg":
        return None
    aty = body.locals[root[1]]
    if not fields:
        if aty != "bool":
            return None
        # by-value bool param: must never be reassigned
        if any(d[0] != "arg" for d in body.defs().get(root[1], [])):
            return None
    else:
        if aty.startswith("&mut") and not body.is_closure():
            return None
    zero = None
    for v, x in t["targets"]:
        if v == "0":
            zero = x
    if zero is None:
        return None
    other = t["otherwise"]
    tt, ft = (other, zero) if not neg else (zero, other)
    return ((root, tuple(fields)), tt, ft)


def reachable_under(body, forced, track_bools=True, max_states=20000):
    """blocks reachable from entry when `forced(body, bb)` (-> successor block or None) decides some switches
    and bool tests on immutable paths stay consistent. Returns dict block -> one witness state (frozenset)."""
    start = (0, frozenset())
    seen = {start}
    reach = {0: frozenset()}
    work = [start]
    cache = {}
    while work:
        bb, st = work.pop()
        if len(seen) > max_states:
            # give up path sensitivity: fall back to plain reachability (sound over-approximation)
            for b in body.reachable_from(0):
                reach.setdefault(b, frozenset())
            return reach
        f = forced(body, bb)
        if f is not None:
            nxt = [(f, st)]
        else:
            bk = None
            if track_bools:
                if bb not in cache:
                    cache[bb] = _bool_key(body, bb)
                bk = cache[bb]
            if bk is not None:
                key, tt, ft = bk
                d = dict(st)
                if key in d:
                    nxt = [(tt if d[key] else ft, st)]
                else:
                    nxt = [(tt, st | {(key, True)}), (ft, st | {(key, False)})]
            else:
                nxt = [(s, st) for s in body.succ(bb)]
        for n in nxt:
            if n not in seen:
                seen.add(n)
                reach.setdefault(n[0], n[1])
                work.append(n)
    return reach
