"""Small path-sensitive reachability: explores the CFG keeping the truth values of boolean tests on
immutable access paths (by-value bool parameters and fields read through `&T` parameters, including
closure captures) consistent along a path, with some tests forced by the caller (assumptions)."""
import flow


def _bool_key(body, bb):
    """if block bb ends in a switch on a (possibly negated) bool read of an immutable access path, return
    (key, true_target, false_target) else None"""
    t = body.term(bb)
    if t["k"] != "switch" or t["discr_ty"] != "bool":
        return None
    e = flow.expr_of(body, t["discr"])
    neg = False
    while e[0] == "un" and e[1] == "Not":
        neg = not neg
        e = e[2]
    if e[0] != "path":
        return None
    root, fields = e[1], e[2]
    if root[0] != "arg":
        return None
    aty = body.locals[root[1]]
    if not fields:
        if aty != "bool":
            return None
        # by-value bool param: must never be reassigned
        if any(d[0] != "arg" for d in body.defs().get(root[1], [])):
            return None
    else:
        if aty.startswith("&mut") and not body.is_closure():
            return None
    zero = None
    for v, x in t["targets"]:
        if v == "0":
            zero = x
    if zero is None:
        return None
    other = t["otherwise"]
    tt, ft = (other, zero) if not neg else (zero, other)
    return ((root, tuple(fields)), tt, ft)


def _tracked_bools(body):
    """bool locals whose value can decide a switch: discriminant locals of bool switches and, transitively, the locals
    they are copied / negated from. Returns {local}. Arguments and locals whose address is taken mutably are excluded."""
    mb = flow.mut_borrowed(body)
    S = set()
    work = []
    for bi in range(len(body.blocks)):
        t = body.term(bi)
        if t["k"] == "switch" and t["discr_ty"] == "bool" and t["discr"][0] in ("c", "m") and len(t["discr"][1]) == 1:
            work.append(t["discr"][1][0])
    while work:
        l = work.pop()
        if l in S or l in mb or l <= body.argc or body.locals[l] != "bool":
            continue
        S.add(l)
        for d in body.defs().get(l, []):
            if d[0] == "stmt" and len(d[3]) == 1:
                rv = d[4]
                src = None
                if rv[0] == "use" and rv[1][0] in ("c", "m") and len(rv[1][1]) == 1:
                    src = rv[1][1][0]
                elif rv[0] == "un" and rv[1] == "Not" and rv[2][0] in ("c", "m") and len(rv[2][1]) == 1:
                    src = rv[2][1][0]
                if src is not None:
                    work.append(src)
    return S


# variant name -> discriminant value (as written in switch targets); std's two-variant enums are built in, the analysed
# crates' enums are registered by the runner (register_adts)
ADT_VARIANTS = {"std::option::Option": {"None": "0", "Some": "1"}, "std::result::Result": {"Ok": "0", "Err": "1"},
                "std::ops::ControlFlow": {"Continue": "0", "Break": "1"}}


def register_adts(adts):
    for p, a in adts.items():
        vs = {}
        for v in a.get("variants", []):
            if v.get("discr") is not None:
                vs[v["name"]] = str(v["discr"])
        if vs and a.get("kind") == "Enum":
            ADT_VARIANTS.setdefault(p, vs)


def _tracked_enums(body):
    """enum-typed locals whose variant can decide a switch: {local: None} for locals L with a block `_d = discriminant(L);
    switch _d` that are never mutably borrowed; and {switch block: L}"""
    mb = flow.mut_borrowed(body)
    E, sw = set(), {}
    for bi, blk in enumerate(body.blocks):
        t = blk["t"]
        if t["k"] != "switch" or t["discr_ty"] == "bool" or t["discr"][0] not in ("c", "m") or len(t["discr"][1]) != 1:
            continue
        dl = t["discr"][1][0]
        src = [s_ for s_ in blk["s"] if s_[0] == "=" and s_[1] == [dl]]
        if len(src) == 1 and src[0][2][0] == "discr" and len(src[0][2][1]) == 1:
            L = src[0][2][1][0]
            if L in mb or L <= body.argc:
                continue
            # the local must not be assigned in the very block that reads its discriminant
            if any(s_[0] == "=" and s_[1] and s_[1][0] == L for s_ in blk["s"]):
                continue
            E.add(L)
            sw[bi] = L
    # transitively: locals they are moved / copied from
    work = list(E)
    while work:
        l = work.pop()
        for d in body.defs().get(l, []):
            if d[0] == "stmt" and len(d[3]) == 1 and d[4][0] == "use" and d[4][1][0] in ("c", "m") and len(d[4][1][1]) == 1:
                src_l = d[4][1][1][0]
                if src_l not in E and src_l not in mb and src_l > body.argc:
                    E.add(src_l)
                    work.append(src_l)
    return E, sw


def _block_enum_effects(body, bb, E):
    """ordered (local, kind, data): ('const', discr) | ('copy', src) | ('unknown', None) for whole-local assignments"""
    out = []
    blk = body.blocks[bb]
    for s_ in blk["s"]:
        if s_[0] != "=" or not s_[1] or s_[1][0] not in E:
            continue
        l = s_[1][0]
        if len(s_[1]) != 1:
            continue            # a field of the payload: the variant stays
        rv = s_[2]
        if rv[0] == "agg" and rv[1][0] == "adt" and rv[1][1] in ADT_VARIANTS and rv[1][2] in ADT_VARIANTS[rv[1][1]]:
            out.append((l, "const", ADT_VARIANTS[rv[1][1]][rv[1][2]]))
        elif rv[0] == "use" and rv[1][0] in ("c", "m") and len(rv[1][1]) == 1 and rv[1][1][0] in E:
            out.append((l, "copy", rv[1][1][0]))
        else:
            out.append((l, "unknown", None))
    t = blk["t"]
    if t["k"] == "call" and len(t.get("dest", [])) >= 1 and t["dest"][0] in E:
        out.append((t["dest"][0], "unknown", None))
    return out


def _block_bool_effects(body, bb, S, eval_expr):
    """ordered list of (local, kind, data) for assignments to tracked bool locals in block bb:
    ('const', v) | ('copy', src) | ('not', src) | ('val', v) value known under the caller's assumptions | ('unknown',)"""
    out = []
    blk = body.blocks[bb]
    for s in blk["s"]:
        if s[0] != "=" or len(s[1]) != 1 or s[1][0] not in S:
            continue
        l, rv = s[1][0], s[2]
        if rv[0] == "use" and rv[1][0] == "k" and isinstance(rv[1][1].get("v"), bool):
            out.append((l, "const", rv[1][1]["v"]))
        elif rv[0] == "use" and rv[1][0] in ("c", "m") and len(rv[1][1]) == 1 and rv[1][1][0] in S:
            out.append((l, "copy", rv[1][1][0]))
        elif rv[0] == "un" and rv[1] == "Not" and rv[2][0] in ("c", "m") and len(rv[2][1]) == 1 and rv[2][1][0] in S:
            out.append((l, "not", rv[2][1][0]))
        else:
            v = None
            if eval_expr is not None:
                try:
                    v = eval_expr(body, flow._rv_expr(body, rv, bb, 0, set()))
                except Exception:
                    v = None
            out.append((l, "val", v) if isinstance(v, bool) else (l, "unknown", None))
    t = blk["t"]
    if t["k"] == "call" and len(t.get("dest", [])) == 1 and t["dest"][0] in S:
        v = None
        if eval_expr is not None and "callee" in t:
            from facts import callee as _c
            try:
                v = eval_expr(body, ("call", _c(t), [flow.expr_of(body, a, bb) for a in t["args"]], bb))
            except Exception:
                v = None
        out.append((t["dest"][0], "val", v) if isinstance(v, bool) else (t["dest"][0], "unknown", None))
    return out


def reachable_under(body, forced, track_bools=True, max_states=20000, eval_expr=None, stop_at=(), call_results=None, start_bb=0, start_state=None):
    """blocks reachable from entry when `forced(body, bb)` (-> successor block or None) decides some switches,
    bool tests on immutable paths stay consistent, and the values of bool locals that are assigned constants, copies,
    negations or expressions that `eval_expr(body, expr)` can evaluate under the caller's assumptions are tracked along
    each path (so `let ok = !a || b; if !ok {..}` and `matches!(..)` are followed exactly).
    `call_results` = {call block: [discriminant, ..]}: the enum value returned by that call has one of these variants (from a
    summary of the callee under the same assumptions); the paths fork per variant.
    Returns dict block -> one witness state (frozenset)."""
    call_results = call_results or {}
    # start_bb: explore from that block with nothing known (what holds after a given site, whatever led there)
    # start_state: {("b", local): bool} known at the start (the answer of the call just left)
    start = (start_bb, frozenset((start_state or {}).items()))
    seen = {start}
    reach = {start_bb: start[1]}
    work = [start]
    cache = {}
    S = _tracked_bools(body) if track_bools else set()
    E, esw = _tracked_enums(body) if track_bools else (set(), {})
    effects = {}
    eeffects = {}
    stop_at = set(stop_at)
    while work:
        bb, st = work.pop()
        if bb in stop_at:
            continue
        if len(seen) > max_states:
            # give up path sensitivity: fall back to plain reachability (sound over-approximation)
            for b in body.reachable_from(0):
                reach.setdefault(b, frozenset())
            return reach
        if S:
            if bb not in effects:
                effects[bb] = _block_bool_effects(body, bb, S, eval_expr)
            if effects[bb]:
                d0 = dict(st)
                # statements first; the call terminator's destination (last entry, if any) is written on the way out
                for (l, kind, data) in effects[bb]:
                    key = ("b", l)
                    if kind in ("const", "val"):
                        d0[key] = data
                    elif kind == "copy" and ("b", data) in d0:
                        d0[key] = d0[("b", data)]
                    elif kind == "not" and ("b", data) in d0:
                        d0[key] = not d0[("b", data)]
                    else:
                        d0.pop(key, None)
                st = frozenset(d0.items())
        if E:
            if bb not in eeffects:
                eeffects[bb] = _block_enum_effects(body, bb, E)
            if eeffects[bb]:
                d0 = dict(st)
                for (l, kind, data) in eeffects[bb]:
                    key = ("d", l)
                    d0.pop(("pl", l), None)
                    if kind == "const":
                        d0[key] = data
                    elif kind == "copy" and ("d", data) in d0:
                        d0[key] = d0[("d", data)]
                    else:
                        d0.pop(key, None)
                st = frozenset(d0.items())
        if bb in call_results and call_results[bb] and body.term(bb)["k"] == "call" and len(body.term(bb).get("dest", [])) == 1 \
                and body.term(bb)["dest"][0] in E:
            # the callee's summary: one successor state per possible variant of the returned enum
            tgt = body.term(bb).get("to")
            if tgt is not None:
                for v in call_results[bb]:
                    dl_ = body.term(bb)["dest"][0]
                    d1 = dict(st)
                    d1.pop(("pl", dl_), None)
                    if isinstance(v, tuple):
                        # (variant, constant bool payload): `Some(true)`
                        v, pl_ = v
                        if pl_ is not None:
                            d1[("pl", dl_)] = pl_
                    d1[("d", dl_)] = str(v)
                    n = (tgt, frozenset(d1.items()))
                    if n not in seen:
                        seen.add(n)
                        reach.setdefault(n[0], n[1])
                        work.append(n)
                continue
        f = forced(body, bb)
        tpl = body.term(bb)
        if f is None and E and tpl["k"] == "switch" and tpl["discr_ty"] == "bool" and tpl["discr"][0] in ("c", "m") and len(tpl["discr"][1]) == 3 \
                and tpl["discr"][1][0] in E and isinstance(tpl["discr"][1][1], list) and tpl["discr"][1][1][0] == "d" \
                and isinstance(tpl["discr"][1][2], list) and tpl["discr"][1][2][0] == "f" and ("pl", tpl["discr"][1][0]) in dict(st):
            # `Some(true) => ..`: the bool payload of a summarised call result
            zero = [x for v, x in tpl["targets"] if v == "0"]
            if zero:
                f = tpl["otherwise"] if dict(st)[("pl", tpl["discr"][1][0])] else zero[0]
        if f is not None:
            nxt = [(f, st)]
        elif bb in esw and ("d", esw[bb]) in dict(st):
            # `match local { .. }` on a local whose variant is known on this path
            t = body.term(bb)
            v = dict(st)[("d", esw[bb])]
            tg = [x for vv, x in t["targets"] if vv == v]
            nxt = [(tg[0] if tg else t["otherwise"], st)]
        else:
            bk = None
            t = body.term(bb)
            lk = None
            if track_bools and t["k"] == "switch" and t["discr_ty"] == "bool" and t["discr"][0] in ("c", "m") and len(t["discr"][1]) == 1 and t["discr"][1][0] in S:
                zero = [x for v, x in t["targets"] if v == "0"]
                if zero:
                    lk = (("b", t["discr"][1][0]), t["otherwise"], zero[0], True)
            if lk is not None and lk[0] in dict(st):
                bk = lk                       # the local's value is known on this path
            elif track_bools:
                if bb not in cache:
                    k0 = _bool_key(body, bb)
                    cache[bb] = (k0[0], k0[1], k0[2], False) if k0 else None
                bk = cache[bb] or lk          # a test of an immutable flag (keyed by its access path), else the local
            if bk is not None:
                key, tt, ft, is_local = bk
                d = dict(st)
                if key in d:
                    nxt = [(tt if d[key] else ft, st)]
                elif is_local:
                    # value not known on this path: both ways (the choice is not recorded: it would multiply the states
                    # by every log-level test and similar one-off conditions)
                    nxt = [(tt, st), (ft, st)]
                else:
                    nxt = [(tt, st | {(key, True)}), (ft, st | {(key, False)})]
            else:
                nxt = [(s, st) for s in body.succ(bb)]
        for n in nxt:
            if n not in seen:
                seen.add(n)
                reach.setdefault(n[0], n[1])
                work.append(n)
    return reach


import re as _re
from facts import callee as _callee

_VEC_NEW = _re.compile(r"^std::vec::Vec::<T>::(new|with_capacity)$|^<std::vec::Vec<T> as std::default::Default>::default$")
_PUSH = _re.compile(r"^std::vec::Vec::<T, A>::(push|insert|append|extend_from_slice|resize|push_within_capacity)$|as std::iter::Extend<.*>>::extend$")
_NEXT = _re.compile(r"as std::iter::Iterator>::next$")
_READONLY = _re.compile(r"::(len|is_empty|iter|as_slice|first|last|get|contains)$")
_TERMINAL = _re.compile(r"^std::iter::Iterator::(try_for_each|for_each|fold|try_fold|all|any|find|find_map|position|count|last|max|min|sum)$|ParallelIterator::(try_for_each|for_each)$")


def _vec_uses(body, local):
    """how the container held in `local` (a Vec created here, or a `&[T]` / `&Vec<T>` parameter) is used:
    (push blocks, [(next block, term)], terminal-consumer blocks, unknown use?, [(call block, arg index)] calls that receive it by
    shared reference)"""
    from facts import callee_decl as _cdecl
    seen, consumers, ret = flow.forward_aliases(body, local, limit=80)
    pushes, nexts, terms, unknown, shared = [], [], [], bool(ret), []
    for (cb, ct, ai) in consumers:
        c = _callee(ct)
        if ai == 0 and _PUSH.search(c):
            pushes.append(cb)
        elif ai == 0 and _NEXT.search(c):
            nexts.append((cb, ct))
        elif ai == 0 and (_TERMINAL.search(c) or _TERMINAL.search(_cdecl(ct))):
            terms.append(cb)
        elif _READONLY.search(c):
            pass
        else:
            # handed to another function by shared reference (`&Vec<T>` / `&[T]`): it can only be read there
            op = ct["args"][ai]
            ty = body.locals[op[1][0]] if op[0] in ("c", "m") and len(op[1]) == 1 else ""
            if c.startswith("rustic_") and ty.startswith("&") and not ty.startswith("&mut") and ("Vec<" in ty or ty.startswith("&[")) and ct.get("dest") and not ("Vec<" in ct.get("dest_ty", "") and "&" in ct.get("dest_ty", "")):
                shared.append((cb, ai))
            else:
                unknown = True
    return pushes, nexts, terms, unknown, shared


def _next_switch_forcing(body, nexts, forced):
    for (nb, nt) in nexts:
        res = nt["dest"][0]
        sw = nt.get("to")
        hops = 0
        while sw is not None and hops < 4:
            b = body.blocks[sw]
            tt = b["t"]
            if tt["k"] == "switch":
                dl = tt["discr"][1][0] if tt["discr"][0] in ("c", "m") else None
                isd = any(s[0] == "=" and s[1] == [dl] and s[2][0] == "discr" and s[2][1][0] == res for s in b["s"])
                if isd:
                    for v, x in tt["targets"]:
                        if v == "0":
                            forced[sw] = x
                break
            if tt["k"] == "goto":
                sw = tt["to"]
                hops += 1
            else:
                break


def empty_loop_forcing(body, reach, dead_calls=None, dead_args=None):
    """loops over a Vec that is created empty in this body and only filled at blocks outside `reach` cannot run:
    returns {switch_block: forced_successor} for the `match iter.next()` of such loops; terminal iterator consumers
    (`v.iter().try_for_each(closure)`) over such a Vec never invoke their closure: their call blocks are added to
    `dead_calls` (a set) when given; calls that receive such a Vec by shared reference are added to `dead_args` as
    (call block, argument index) - the callee sees an empty slice"""
    forced = {}
    for bb, t in body.calls():
        if "callee" not in t or not _VEC_NEW.search(_callee(t)):
            continue
        d = t["dest"]
        if len(d) != 1:
            continue
        pushes, nexts, terms, unknown, shared = _vec_uses(body, d[0])
        if unknown or not (nexts or terms or shared):
            continue
        if any(p in reach for p in pushes):
            continue
        if dead_calls is not None:
            dead_calls.update(terms)
        if dead_args is not None:
            dead_args.update(shared)
        _next_switch_forcing(body, nexts, forced)
    return forced


def empty_param_forcing(body, param_local, dead_calls=None):
    """the same for a `&[T]` / `&Vec<T>` PARAMETER that is known to be empty at a call site: loops over it do not run"""
    forced = {}
    pushes, nexts, terms, unknown, shared = _vec_uses(body, param_local)
    if unknown or shared:
        return None
    if dead_calls is not None:
        dead_calls.update(terms)
    _next_switch_forcing(body, nexts, forced)
    return forced


def reachable_under_refined(body, forced, rounds=4, eval_expr=None, dead_args_out=None):
    """reachable_under + refinement by empty_loop_forcing to a fixed point; `dead_args_out` (a set) receives the
    (call block, argument index) pairs at which a provably empty Vec is handed on by shared reference"""
    extra = {}

    def f(b, bb):
        r = forced(b, bb)
        if r is not None:
            return r
        return extra.get(bb)
    reach = reachable_under(body, f, eval_expr=eval_expr)
    dead = set()
    for _ in range(rounds):
        d2 = set()
        da = set()
        e2 = empty_loop_forcing(body, reach, d2, da)
        if dead_args_out is not None:
            dead_args_out.clear()
            dead_args_out.update(da)
        if all(k in extra for k in e2) and d2 <= dead:
            break
        extra.update(e2)
        dead |= d2
        reach = reachable_under(body, f, eval_expr=eval_expr)
    # a terminal consumer over a provably empty Vec runs, but its closure never does: drop the call's block so that the
    # effects attributed to the closure at that site are not counted
    return {b: v for b, v in reach.items() if b not in dead}
