"""Small path-sensitive reachability: explores the CFG keeping the truth values of boolean tests on
immutable access paths (by-value bool parameters and fields read through `&T` parameters, including
closure captures) consistent along a path, with some tests forced by the caller (assumptions)."""
import flow


def _bool_key(body, bb):
    """if block bb ends in a switch on a (possibly negated) bool read of an immutable access path, return
    (key, true_target, false_target) else None"""
    t = body.term(bb)
    if t["k"] != "switch" or t["discr_ty"] != "bool":
        return None
    e = flow.expr_of(body, t["discr"])
    neg = False
    while e[0] == "un" and e[1] == "Not":
        neg = not neg
        e = e[2]
    if e[0] != "path":
        return None
    root, fields = e[1], e[2]
    if root[0] != "arg":
        return None
    aty = body.locals[root[1]]
    if not fields:
        if aty != "bool":
            return None
        # by-value bool param: must never be reassigned
        if any(d[0] != "arg" for d in body.defs().get(root[1], [])):
            return None
    else:
        if aty.startswith("&mut") and not body.is_closure():
            return None
    zero = None
    for v, x in t["targets"]:
        if v == "0":
            zero = x
    if zero is None:
        return None
    other = t["otherwise"]
    tt, ft = (other, zero) if not neg else (zero, other)
    return ((root, tuple(fields)), tt, ft)


def _merge_locals(body):
    """bool locals that are only ever assigned boolean constants (the materialised result of `a && b`, `matches!(..)`,
    `if let .. else ..` expressions): {local: {block: [values in statement order]}}"""
    out = {}
    mb = flow.mut_borrowed(body)
    for local, defs in body.defs().items():
        if body.locals[local] != "bool" or not defs or local in mb or local <= body.argc:
            continue
        ok = True
        per = {}
        for d in defs:
            if d[0] != "stmt" or len(d[3]) != 1:
                ok = False
                break
            rv = d[4]
            if rv[0] == "use" and rv[1][0] == "k" and isinstance(rv[1][1].get("v"), bool):
                per.setdefault(d[1], []).append(rv[1][1]["v"])
            else:
                ok = False
                break
        if ok and len(defs) >= 2:
            out[local] = per
    return out


def _merge_switch(body, bb, merges):
    """switch directly on a merge local (possibly through `Not`): (local, true_target, false_target)"""
    t = body.term(bb)
    if t["k"] != "switch" or t["discr_ty"] != "bool" or t["discr"][0] not in ("c", "m"):
        return None
    p = t["discr"][1]
    if len(p) != 1 or p[0] not in merges:
        return None
    zero = None
    for v, x in t["targets"]:
        if v == "0":
            zero = x
    if zero is None:
        return None
    return (p[0], t["otherwise"], zero)


def reachable_under(body, forced, track_bools=True, max_states=20000):
    """blocks reachable from entry when `forced(body, bb)` (-> successor block or None) decides some switches
    and bool tests on immutable paths stay consistent. Returns dict block -> one witness state (frozenset)."""
    start = (0, frozenset())
    seen = {start}
    reach = {0: frozenset()}
    work = [start]
    cache = {}
    merges = _merge_locals(body) if track_bools else {}
    assigns = {}
    for l, per in merges.items():
        for b_, vals in per.items():
            assigns.setdefault(b_, []).append((l, vals[-1]))
    while work:
        bb, st = work.pop()
        if bb in assigns:
            d0 = dict(st)
            for l, v in assigns[bb]:
                d0[("mlocal", l)] = v
            st = frozenset(d0.items())
        if len(seen) > max_states:
            # give up path sensitivity: fall back to plain reachability (sound over-approximation)
            for b in body.reachable_from(0):
                reach.setdefault(b, frozenset())
            return reach
        f = forced(body, bb)
        if f is not None:
            nxt = [(f, st)]
        else:
            bk = None
            if track_bools:
                if bb not in cache:
                    ms = _merge_switch(body, bb, merges)
                    cache[bb] = ((("mlocal", ms[0]), ms[1], ms[2]) if ms else _bool_key(body, bb))
                bk = cache[bb]
            if bk is not None:
                key, tt, ft = bk
                d = dict(st)
                if key in d:
                    nxt = [(tt if d[key] else ft, st)]
                else:
                    nxt = [(tt, st | {(key, True)}), (ft, st | {(key, False)})]
            else:
                nxt = [(s, st) for s in body.succ(bb)]
        for n in nxt:
            if n not in seen:
                seen.add(n)
                reach.setdefault(n[0], n[1])
                work.append(n)
    return reach


import re as _re
from facts import callee as _callee

_VEC_NEW = _re.compile(r"^std::vec::Vec::<T>::(new|with_capacity)$|^<std::vec::Vec<T> as std::default::Default>::default$")
_PUSH = _re.compile(r"^std::vec::Vec::<T, A>::(push|insert|append|extend_from_slice|resize|push_within_capacity)$|as std::iter::Extend<.*>>::extend$")
_NEXT = _re.compile(r"as std::iter::Iterator>::next$")
_READONLY = _re.compile(r"::(len|is_empty|iter|as_slice|first|last|get|contains)$")


def empty_loop_forcing(body, reach):
    """loops over a Vec that is created empty in this body and only filled at blocks outside `reach` cannot run:
    returns {switch_block: forced_successor} for the `match iter.next()` of such loops"""
    forced = {}
    for bb, t in body.calls():
        if "callee" not in t or not _VEC_NEW.search(_callee(t)):
            continue
        d = t["dest"]
        if len(d) != 1:
            continue
        seen, consumers, ret = flow.forward_aliases(body, d[0], limit=80)
        if ret:
            continue
        pushes, nexts, unknown = [], [], False
        for (cb, ct, ai) in consumers:
            c = _callee(ct)
            if ai == 0 and _PUSH.search(c):
                pushes.append(cb)
            elif ai == 0 and _NEXT.search(c):
                nexts.append((cb, ct))
            elif _READONLY.search(c):
                pass
            else:
                unknown = True
        if unknown or not nexts:
            continue
        if any(p in reach for p in pushes):
            continue
        for (nb, nt) in nexts:
            res = nt["dest"][0]
            sw = nt.get("to")
            hops = 0
            while sw is not None and hops < 4:
                b = body.blocks[sw]
                tt = b["t"]
                if tt["k"] == "switch":
                    dl = tt["discr"][1][0] if tt["discr"][0] in ("c", "m") else None
                    isd = any(s[0] == "=" and s[1] == [dl] and s[2][0] == "discr" and s[2][1][0] == res for s in b["s"])
                    if isd:
                        for v, x in tt["targets"]:
                            if v == "0":
                                forced[sw] = x
                    break
                if tt["k"] == "goto":
                    sw = tt["to"]
                    hops += 1
                else:
                    break
    return forced


def reachable_under_refined(body, forced, rounds=4):
    """reachable_under + refinement by empty_loop_forcing to a fixed point"""
    extra = {}

    def f(b, bb):
        r = forced(b, bb)
        if r is not None:
            return r
        return extra.get(bb)
    reach = reachable_under(body, f)
    for _ in range(rounds):
        e2 = empty_loop_forcing(body, reach)
        if all(k in extra for k in e2):
            break
        extra.update(e2)
        reach = reachable_under(body, f)
    return reach
