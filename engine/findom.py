"""Finite-domain concrete interpretation of a MIR body: given concrete values for (some) arguments - enum
variants by name, bools, small ints - walk the CFG executing copies, constants, comparisons and PartialEq calls;
unknown values make a switch branch both ways. Used to compare routing predicates of sibling methods exactly
over small domains such as FileType x bool."""
from facts import callee, op_place
import re

UNKNOWN = None


class Enum:
    """an enum value of ADT `adt` with variant name `name` (fieldless)"""
    __slots__ = ("adt", "name")

    def __init__(self, adt, name):
        self.adt, self.name = adt, name

    def __eq__(self, o):
        return isinstance(o, Enum) and o.adt.split("::")[-1] == self.adt.split("::")[-1] and o.name == self.name

    def __hash__(self):
        return hash((self.adt.split("::")[-1], self.name))

    def __repr__(self):
        return f"{self.adt.split('::')[-1]}::{self.name}"


class Ref:
    __slots__ = ("place",)

    def __init__(self, place):
        self.place = place


def _promoted_val(prog, body, idx):
    import flow
    v = flow.promoted_value(body, idx)
    return _conv(v)


def _conv(v):
    if v is None:
        return UNKNOWN
    if v[0] == "const":
        return v[1]
    if v[0] == "adt":
        if not v[3]:
            return Enum(v[1], v[2])
        return ("adt", v[1], v[2], tuple(_conv(x) for x in v[3]))
    return UNKNOWN


class Interp:
    def __init__(self, prog, body, args, discr_of=None, call_model=None, max_paths=4000):
        self.prog = prog
        self.body = body
        self.args = args  # {argindex: value}
        self.discr_of = discr_of or self._discr_of
        self.call_model = call_model
        self.max_paths = max_paths
        self.imprecise = False
        self.returns = []   # values of _0 observed at return blocks

    def _discr_of(self, val):
        if isinstance(val, Enum) and val.adt.endswith("option::Option"):
            return 1 if val.name == "Some" else 0
        if isinstance(val, Enum):
            a = [x for p, x in self.prog.adts.items() if p.split("::")[-1] == val.adt.split("::")[-1] and any(v["name"] == val.name for v in x["variants"])]
            for ad in a:
                for v in ad["variants"]:
                    if v["name"] == val.name and v["discr"] is not None:
                        return int(v["discr"])
        if isinstance(val, tuple) and val and val[0] == "adt":
            if val[1].endswith("option::Option"):
                return 1 if val[2] == "Some" else 0
            for p, ad in self.prog.adts.items():
                if p.split("::")[-1] == val[1].split("::")[-1]:
                    for v in ad["variants"]:
                        if v["name"] == val[2] and v["discr"] is not None:
                            return int(v["discr"])
        return UNKNOWN

    def run(self):
        """returns set of blocks reached"""
        reached = set()
        env0 = {i: v for i, v in self.args.items()}
        stack = [(0, env0)]
        n = 0
        seen = set()
        while stack:
            bb, env = stack.pop()
            n += 1
            if n > self.max_paths:
                self.imprecise = True
                reached |= self.body.reachable_from(bb)
                continue
            key = (bb, tuple(sorted((k, repr(v)) for k, v in env.items() if not isinstance(v, Ref))))
            if key in seen:
                continue
            seen.add(key)
            reached.add(bb)
            env = dict(env)
            blk = self.body.blocks[bb]
            for s in blk["s"]:
                if s[0] == "=":
                    self.assign(env, s[1], self.rvalue(env, s[2]))
            t = blk["t"]
            k = t["k"]
            if k == "switch":
                d = self.operand(env, t["discr"])
                if isinstance(d, bool):
                    d = int(d)
                if isinstance(d, int):
                    tgt = None
                    for v, x in t["targets"]:
                        if int(v) == d:
                            tgt = x
                    if tgt is None:
                        tgt = t["otherwise"]
                    stack.append((tgt, env))
                else:
                    # unknown: fine if it is an external result (e.g. the Result of a backend call); imprecise only if
                    # the condition depends on one of the tracked arguments and could not be evaluated
                    if self._mentions_args(t["discr"]):
                        self.imprecise = True
                    for x in self.body.succ(bb):
                        stack.append((x, env))
            elif k == "call":
                res = self.call(env, t)
                if t.get("to") is not None:
                    if "dest" in t:
                        self.assign(env, t["dest"], res)
                    stack.append((t["to"], env))
            else:
                if k == "return":
                    self.returns.append(env.get(0, UNKNOWN))
                for x in self.body.succ(bb):
                    stack.append((x, env))
        return reached

    def return_value(self):
        """the unique concrete return value if every explored path returned the same known value, else UNKNOWN"""
        vals = {repr(v) for v in self.returns}
        if len(vals) == 1 and self.returns and self.returns[0] is not UNKNOWN and not self.imprecise:
            return self.returns[0]
        return UNKNOWN

    def _mentions_args(self, op):
        import flow
        e = flow.expr_of(self.body, op)
        tracked = set(self.args)

        def walk(x, depth=0):
            if depth > 40 or not isinstance(x, tuple) or not x:
                return False
            if x[0] == "path":
                return x[1][0] == "arg" and x[1][1] in tracked
            if x[0] == "call":
                # results of calls other than comparisons are external values even if they received the argument
                if not re.search(r"PartialEq|PartialOrd|::not$|is_cacheable$", x[1]):
                    return False
                return any(walk(a, depth + 1) for a in x[2])
            if x[0] in ("bin",):
                return walk(x[2], depth + 1) or walk(x[3], depth + 1)
            if x[0] in ("un",):
                return walk(x[2], depth + 1)
            if x[0] in ("discr", "proj"):
                return walk(x[1], depth + 1)
            if x[0] == "phi":
                return any(walk(s_, depth + 1) for s_ in x[2])
            return False
        return walk(e)

    # ---- values -----------------------------------------------------------------------------
    def read_place(self, env, place):
        base = place[0]
        v = env.get(base, UNKNOWN) if base in env else (self.args.get(base, UNKNOWN))
        for e in place[1:]:
            if e == "*":
                if isinstance(v, Ref):
                    v = self.read_place(env, v.place)
                else:
                    # deref of an argument reference holding a concrete value: keep value
                    pass
            elif isinstance(e, list) and e[0] == "f":
                if isinstance(v, tuple) and v and v[0] in ("tuple",):
                    v = v[1][e[1]] if e[1] < len(v[1]) else UNKNOWN
                elif isinstance(v, tuple) and v and v[0] == "adt":
                    v = v[3][e[1]] if e[1] < len(v[3]) else UNKNOWN
                elif isinstance(v, dict):
                    v = v.get(e[2], UNKNOWN)
                else:
                    v = UNKNOWN
            elif isinstance(e, list) and e[0] == "d":
                pass
            else:
                v = UNKNOWN
        return v

    def assign(self, env, place, val):
        if len(place) == 1:
            env[place[0]] = val
        # stores through projections are ignored (value becomes unknown)
        elif place[0] in env and not (len(place) == 2 and place[1] == "*"):
            env[place[0]] = UNKNOWN

    def operand(self, env, op):
        if op[0] == "k":
            c = op[1]
            if "promoted" in c:
                v = _promoted_val(self.prog, self.body, c["promoted"])
                return Ref(None) if v is UNKNOWN else ("promoted-ref", v)
            if c.get("v") is not None and not isinstance(c["v"], (dict, str)):
                v = c["v"]
                ty = c.get("ty", "")
                if isinstance(v, int) and not isinstance(v, bool) and "::" in ty and not ty.startswith("std::"):
                    # fieldless enum constant: map through the ADT's discriminants
                    for p, a in self.prog.adts.items():
                        if p == ty or p.endswith("::" + ty.split("::")[-1]) and p.split("::")[-1] == ty.split("::")[-1]:
                            for var in a["variants"]:
                                if var["discr"] is not None and int(var["discr"]) == v:
                                    return Enum(ty, var["name"])
                return v
            return UNKNOWN
        return self.read_place(env, op[1])

    def deref(self, env, v):
        if isinstance(v, Ref):
            if v.place is None:
                return UNKNOWN
            return self.deref(env, self.read_place(env, v.place))
        if isinstance(v, tuple) and v and v[0] == "promoted-ref":
            return v[1]
        return v

    def rvalue(self, env, rv):
        k = rv[0]
        if k == "use":
            return self.operand(env, rv[1])
        if k in ("ref", "refmut", "rawptr"):
            pl = rv[1]
            # &(*x) is x itself when x is a reference / or a by-ref argument holding a concrete value
            if len(pl) == 2 and pl[1] == "*":
                return self.read_place(env, [pl[0]])
            return Ref(pl)
        if k == "cast":
            return self.operand(env, rv[2])
        if k == "un":
            v = self.deref(env, self.operand(env, rv[2]))
            if rv[1] == "Not" and isinstance(v, bool):
                return not v
            return UNKNOWN
        if k == "bin":
            a = self.deref(env, self.operand(env, rv[2]))
            b = self.deref(env, self.operand(env, rv[3]))
            if a is UNKNOWN or b is UNKNOWN:
                return UNKNOWN
            op = rv[1]
            try:
                if op == "Eq":
                    return a == b
                if op == "Ne":
                    return a != b
                if op == "Lt":
                    return a < b
                if op == "Le":
                    return a <= b
                if op == "Gt":
                    return a > b
                if op == "Ge":
                    return a >= b
                if op == "BitAnd":
                    return a & b
                if op == "BitOr":
                    return a | b
            except TypeError:
                return UNKNOWN
            return UNKNOWN
        if k == "discr":
            v = self.deref(env, self.read_place(env, rv[1]))
            return self.discr_of(v)
        if k == "agg":
            kind = rv[1]
            vals = tuple(self.operand(env, o) for o in rv[2])
            if kind[0] == "adt":
                if not vals:
                    if kind[1].endswith("option::Option") or not kind[3]:
                        return Enum(kind[1], kind[2])
                return ("adt", kind[1], kind[2], vals)
            if kind[0] == "tuple":
                return ("tuple", vals)
            return UNKNOWN
        return UNKNOWN

    def call(self, env, t):
        if "callee" not in t:
            return UNKNOWN
        c = callee(t)
        args = [self.deref(env, self.operand(env, a)) for a in t["args"]]
        m = re.search(r"PartialEq(<.*>)?>::(eq|ne)$|PartialEq::(eq|ne)$", c)
        if m and len(args) == 2:
            if args[0] is UNKNOWN or args[1] is UNKNOWN:
                return UNKNOWN
            r = args[0] == args[1]
            return r if (m.group(2) or m.group(3)) == "eq" else (not r)
        if self.call_model:
            r = self.call_model(self, env, t, c, args)
            if r is not NotImplemented:
                return r
        # small pure local functions (e.g. FileType::is_cacheable): interpret the callee on the concrete arguments
        tb = self.prog.bodies.get(c)
        if tb is not None and len(tb.blocks) <= 12 and all(a is not UNKNOWN for a in args) and getattr(self, "_depth", 0) < 3:
            sub = Interp(self.prog, tb, {i + 1: a for i, a in enumerate(args)})
            sub._depth = getattr(self, "_depth", 0) + 1
            sub.run()
            return sub.return_value()
        if re.search(r"Deref>::deref$|Clone>::clone$|Borrow>::borrow$", c) and args:
            return args[0]
        return UNKNOWN
