"""Fact model: the type-checked program of the analysed crates (as dumped by rcfacts).

Everything is keyed by resolved definition paths, field names, types and constants.
"""
import json
import os
import re
from collections import defaultdict


class AnchorError(Exception):
    """An anchor (function, field, type, site) that a rule needs was not found: fail closed."""


class Body:
    __slots__ = ("prog", "path", "kind", "span", "pub", "reachable", "impl", "in_trait", "argc",
                 "locals", "dbg", "blocks", "promoted", "root", "parent", "crate", "generics", "_succ", "_pred",
                 "_dom", "_pdom", "_defs", "_cd", "promoted_idx", "owner")

    def __init__(self, prog, crate, j, owner=None):
        self.prog = prog
        self.crate = crate
        self.path = j["path"]
        self.kind = j["kind"]
        self.span = j["span"]
        self.pub = j.get("pub", False)
        self.reachable = j.get("reachable", False)
        self.impl = j.get("impl")
        self.in_trait = j.get("in_trait")
        self.generics = j.get("generics", [])
        self.argc = j["argc"]
        self.locals = j["locals"]
        self.dbg = j["dbg"]
        self.blocks = j["blocks"]
        self.root = j.get("root")
        self.parent = j.get("parent")
        self.promoted_idx = j.get("promoted_idx")
        self.owner = owner
        self.promoted = [Body(prog, crate, p, owner=self) for p in j.get("promoted", [])]
        self._succ = self._pred = self._dom = self._pdom = self._defs = self._cd = None

    # ---- naming -----------------------------------------------------------------
    @property
    def name(self):
        return self.path

    def loc(self):
        return f"{self.span[0]}:{self.span[1]}"

    def is_closure(self):
        return self.kind == "Closure"

    def var(self, name):
        """locals (as places) bound to a source-level variable name"""
        out = []
        for n, p in self.dbg:
            if n == name and isinstance(p, list):
                out.append(p)
        return out

    def local_names(self):
        m = defaultdict(list)
        for n, p in self.dbg:
            if isinstance(p, list) and len(p) == 1:
                m[p[0]].append(n)
        return m

    # ---- CFG --------------------------------------------------------------------
    def term(self, bb):
        return self.blocks[bb]["t"]

    def succ(self, bb, unwind=False):
        t = self.blocks[bb]["t"]
        k = t["k"]
        out = []
        if k == "goto":
            out = [t["to"]]
        elif k == "switch":
            out = [x[1] for x in t["targets"]] + [t["otherwise"]]
        elif k in ("call", "drop", "assert"):
            if t.get("to") is not None:
                out = [t["to"]]
            if unwind and t.get("unwind") is not None:
                out.append(t["unwind"])
        elif k == "yield":
            out = [t["to"]]
            if t.get("drop") is not None:
                out.append(t["drop"])
        elif k == "asm":
            out = list(t["targets"])
        # return, unreachable, resume, terminate, tailcall, coroutine_drop: no successors
        seen = []
        for x in out:
            if x not in seen:
                seen.append(x)
        return seen

    def succs(self):
        if self._succ is None:
            self._succ = [self.succ(i) for i in range(len(self.blocks))]
        return self._succ

    def preds(self):
        if self._pred is None:
            p = [[] for _ in self.blocks]
            for i, ss in enumerate(self.succs()):
                for s in ss:
                    p[s].append(i)
            self._pred = p
        return self._pred

    def calls(self):
        for i, b in enumerate(self.blocks):
            t = b["t"]
            if t["k"] in ("call", "tailcall"):
                yield i, t

    def returns(self):
        return [i for i, b in enumerate(self.blocks) if b["t"]["k"] == "return"]

    def reachable_from(self, start, cut_edges=(), cut_blocks=()):
        """blocks reachable from `start` (a block or iterable of blocks) in the normal-flow CFG,
        without following edges in cut_edges {(a,b)} or leaving blocks in cut_blocks"""
        if isinstance(start, int):
            start = [start]
        seen = set(start)
        work = list(start)
        cut_edges = set(cut_edges)
        cut_blocks = set(cut_blocks)
        succs = self.succs()
        while work:
            b = work.pop()
            if b in cut_blocks:
                continue
            for s in succs[b]:
                if (b, s) in cut_edges:
                    continue
                if s not in seen:
                    seen.add(s)
                    work.append(s)
        return seen

    # ---- definitions -------------------------------------------------------------
    def defs(self):
        """local -> list of definition sites: ('stmt', bb, idx, place, rvalue) | ('call', bb, term) | ('arg', n)"""
        if self._defs is None:
            d = defaultdict(list)
            for a in range(1, self.argc + 1):
                d[a].append(("arg", a))
            for bi, b in enumerate(self.blocks):
                for si, s in enumerate(b["s"]):
                    if s[0] == "=":
                        d[s[1][0]].append(("stmt", bi, si, s[1], s[2]))
                    elif s[0] == "setdiscr":
                        d[s[1][0]].append(("setdiscr", bi, si, s[1], s[2]))
                t = b["t"]
                if t["k"] == "call":
                    d[t["dest"][0]].append(("call", bi, t))
            self._defs = d
        return self._defs


class Program:
    def __init__(self, facts_dir, crates=("rustic_core", "rustic_backend", "rustic_testing")):
        self.dir = facts_dir
        self.bodies = {}
        self.by_crate = defaultdict(list)
        self.consts = {}
        self.const_bodies = {}
        self.adts = {}
        self.impls = []
        self.traits = {}
        self.aliases = {}
        for c in crates:
            p = os.path.join(facts_dir, c + ".json")
            with open(p) as fh:
                raw = fh.read()
            if c != crates[0] and self.aliases:
                # other crates see items of the first crate through its re-exports (`rustic_core::WriteBackend`);
                # rewrite those to the definition paths used in the first crate's own facts
                rx = re.compile(r"\b" + re.escape(crates[0]) + r"::(" + "|".join(sorted(map(re.escape, self.aliases), key=len, reverse=True)) + r")\b")
                raw = rx.sub(lambda m: self.aliases[m.group(1)], raw)
            j = json.loads(raw)
            if c == crates[0]:
                cand = defaultdict(set)
                for a in j["adts"]:
                    cand[a["path"].rsplit("::", 1)[-1]].add(a["path"])
                for t in j["traits"]:
                    cand[t["path"].rsplit("::", 1)[-1]].add(t["path"])
                top = {a["path"] for a in j["adts"]} | {t["path"] for t in j["traits"]}
                for n, ps in cand.items():
                    if len(ps) == 1 and f"{c}::{n}" not in top and n[:1].isupper():
                        self.aliases[n] = next(iter(ps))
            for bj in j["bodies"]:
                b = Body(self, c, bj)
                if b.path in self.bodies:
                    # derive-generated items inside `const _: () = {..}` share printed paths
                    if "::_::" not in b.path and "::_serde::" not in b.path:
                        raise AnchorError(f"duplicate body path {b.path}")
                    n = 2
                    while f"{b.path}#{n}" in self.bodies:
                        n += 1
                    b.path = f"{b.path}#{n}"
                self.bodies[b.path] = b
                self.by_crate[c].append(b)
            for cj in j["consts"]:
                self.consts[cj["path"]] = cj
            for cb in j.get("const_bodies", []):
                self.const_bodies[cb["path"]] = Body(self, c, cb)
            for a in j["adts"]:
                self.adts[a["path"]] = a
            for i in j["impls"]:
                i["crate"] = c
                self.impls.append(i)
            for t in j["traits"]:
                self.traits[t["path"]] = t
        self._closures_of = defaultdict(list)
        for b in self.bodies.values():
            if b.is_closure() and b.parent:
                self._closures_of[b.parent].append(b)

    # ---- lookup -----------------------------------------------------------------
    def fn(self, path):
        b = self.bodies.get(path)
        if b is None:
            raise AnchorError(f"function not found: {path}")
        return b

    def find(self, regex, crate=None):
        r = re.compile(regex)
        return [b for p, b in self.bodies.items() if r.search(p) and (crate is None or b.crate == crate)]

    def find1(self, regex, crate=None):
        m = self.find(regex, crate)
        if len(m) != 1:
            raise AnchorError(f"expected exactly one function matching /{regex}/, found {len(m)}: {[b.path for b in m][:6]}")
        return m[0]

    def closures_of(self, body, recursive=True):
        out = []
        for c in self._closures_of.get(body.path, []):
            out.append(c)
            if recursive:
                out.extend(self.closures_of(c, True))
        return out

    def adt(self, suffix):
        m = [a for p, a in self.adts.items() if p == suffix or p.endswith("::" + suffix)]
        if len(m) != 1:
            raise AnchorError(f"expected exactly one ADT named {suffix}, found {[a['path'] for a in m]}")
        return m[0]

    def variants(self, suffix):
        return [v["name"] for v in self.adt(suffix)["variants"]]

    def variant_by_discr(self, suffix, val):
        for v in self.adt(suffix)["variants"]:
            if v["discr"] is not None and str(v["discr"]) == str(val):
                return v["name"]
        raise AnchorError(f"{suffix}: no variant with discriminant {val}")

    def impls_of_trait(self, trait_suffix):
        return [i for i in self.impls if i["header"].get("trait", "").endswith(trait_suffix)]


# ---- small helpers on the JSON shapes ---------------------------------------------

def callee(t):
    """most precise callee path of a call terminator (resolved instance if known)"""
    r = t.get("resolved")
    if r:
        return r["path"]
    return t.get("callee") or "<indirect>"


def callee_decl(t):
    return t.get("callee") or "<indirect>"


def is_const(op):
    return op[0] == "k"


def const_val(op):
    if op[0] == "k":
        return op[1].get("v")
    return None


def op_place(op):
    if op[0] in ("c", "m"):
        return op[1]
    return None


def op_local(op):
    p = op_place(op)
    return p[0] if p else None


def place_fields(place):
    """list of field names along a place projection"""
    return [e[2] for e in place[1:] if isinstance(e, list) and e[0] == "f"]


def place_has_field(place, name, owner_suffix=None):
    for e in place[1:]:
        if isinstance(e, list) and e[0] == "f" and e[2] == name:
            if owner_suffix is None or (e[4] or "").endswith(owner_suffix):
                return True
    return False


def fmt_place(p):
    s = f"_{p[0]}"
    for e in p[1:]:
        if e == "*":
            s = f"(*{s})"
        elif isinstance(e, list) and e[0] == "f":
            s += "." + (e[2] if e[2] is not None else str(e[1]))
        elif isinstance(e, list) and e[0] == "d":
            s += f" as {e[1]}"
        elif isinstance(e, list) and e[0] == "i":
            s += f"[_{e[1]}]"
        else:
            s += f"<{e}>"
    return s


def span_str(sp):
    if not sp:
        return "?"
    return f"{sp[0]}:{sp[1]}"
