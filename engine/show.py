#!/usr/bin/env python3
"""debug helper: print a readable form of the extracted MIR of bodies matching a regex
usage: show.py <regex> [--calls]"""
import sys, os, json
sys.path.insert(0, os.path.dirname(os.path.abspath(__file__)))
from facts import Program, fmt_place, callee
import extract


def fmt_op(op):
    if op[0] in ("c", "m"):
        return ("move " if op[0] == "m" else "") + fmt_place(op[1])
    if op[0] == "k":
        c = op[1]
        if "fn" in c:
            return "fn " + (c["fn"].get("resolved", {}).get("path") or c["fn"]["callee"])
        if "promoted" in c:
            return f"promoted[{c['promoted']}]"
        if "v" in c and c["v"] is not None:
            return f"const {json.dumps(c['v'])}:{c['ty']}"
        if "item" in c:
            return f"const {c['item']}"
        return f"const ?:{c['ty']}"
    return str(op)


def fmt_rv(rv):
    k = rv[0]
    if k == "use":
        return fmt_op(rv[1])
    if k in ("ref", "refmut", "rawptr"):
        return ("&mut " if k == "refmut" else "&") + fmt_place(rv[1])
    if k == "cast":
        return f"{fmt_op(rv[2])} as {rv[3]} ({rv[1]})"
    if k == "bin":
        return f"{rv[1]}({fmt_op(rv[2])}, {fmt_op(rv[3])}) [{rv[4]}]"
    if k == "un":
        return f"{rv[1]}({fmt_op(rv[2])})"
    if k == "discr":
        return f"discriminant({fmt_place(rv[1])}) [{rv[2]}]"
    if k == "agg":
        kind = rv[1]
        head = kind[0] if kind[0] != "adt" else f"{kind[1]}::{kind[2]}"
        if kind[0] == "closure":
            head = "closure " + kind[1]
        return f"{head}{{{', '.join(fmt_op(o) for o in rv[2])}}}"
    return str(rv)


def show(b, calls_only=False, out=sys.stdout):
    w = out.write
    w(f"fn {b.path}  [{b.kind}] {b.loc()} argc={b.argc} pub={b.pub}\n")
    names = b.local_names()
    if not calls_only:
        for i, t in enumerate(b.locals):
            nm = ",".join(names.get(i, []))
            w(f"    let _{i}: {t}{'  // ' + nm if nm else ''}\n")
    for bi, blk in enumerate(b.blocks):
        if blk["cleanup"]:
            continue
        if not calls_only:
            w(f"  bb{bi}:\n")
            for s in blk["s"]:
                if s[0] == "=":
                    w(f"    {fmt_place(s[1])} = {fmt_rv(s[2])}   // L{s[3][1]}\n")
                else:
                    w(f"    {s}\n")
        t = blk["t"]
        k = t["k"]
        if k in ("call", "tailcall"):
            args = ", ".join(fmt_op(a) for a in t["args"])
            tgt = t.get("to")
            callee_s = callee(t) if "callee" in t else "(" + fmt_op(t["indirect"]) + ")"
            ga = t.get("resolved", {}).get("gargs") or t.get("gargs") or []
            w(f"    bb{bi}: {fmt_place(t['dest']) if 'dest' in t else '_'} = {callee_s}::<{', '.join(ga)}>({args}) -> bb{tgt}   // L{t['span'][1]} {t['span'][2] or ''}\n")
        elif not calls_only:
            if k == "switch":
                w(f"    switch {fmt_op(t['discr'])} [{', '.join(f'{v}: bb{x}' for v, x in t['targets'])}, otherwise: bb{t['otherwise']}]\n")
            elif k == "assert":
                w(f"    assert {fmt_op(t['cond'])}=={t['expected']} {t['kind']} -> bb{t['to']}\n")
            elif k == "drop":
                w(f"    drop {fmt_place(t['place'])} -> bb{t['to']}\n")
            elif k == "goto":
                w(f"    goto bb{t['to']}\n")
            else:
                w(f"    {k}\n")
    for p in b.promoted:
        w(f"  promoted[{p.promoted_idx}]:\n")
        for blk in p.blocks:
            for s in blk["s"]:
                if s[0] == "=":
                    w(f"    {fmt_place(s[1])} = {fmt_rv(s[2])}\n")


if __name__ == "__main__":
    d, _ = extract.facts_dir("default")
    prog = Program(d)
    rx = sys.argv[1]
    for b in prog.find(rx):
        show(b, "--calls" in sys.argv)
        print()
