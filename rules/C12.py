"""C12 - Copy, merge, rewrite and repair preserve all content they keep.

C12.a typed blob identity in the indexer shared by copy's data and tree copiers (R-TYPEDID).
C12.b copy_fast (no re-encryption) only within one repository (shared with C04.b).
C12.c ordering: blobs before index before snapshots; replacement before removal (R-ORDER 3-10, shared with C03).
C12.d copy walks both node kinds and selects what to copy with the typed destination index: file contents are filtered
  by has_data and go to the Data copier, subtrees by has_tree and go to the Tree copier; a tree-walk error aborts.
C12.e merge: among same-named nodes the maximum under the given ordering is chosen (Iterator::max_by with the caller's
  comparison) and ALL directory subtrees are merged recursively.
C12.f repair: the new content of a file is exactly the subsequence of its blobs that the index still has; the file is
  marked changed (suffix) iff a blob is missing; an unreadable tree is replaced by an empty tree.
C12.g rewrite: a node is removed only if the exclusion matcher says Ignore.
C12.d also: the blob-collecting walk starts from the root tree of EVERY snapshot to copy (no filter by presence in the
  destination: a present root does not imply present children).
C12.i tree order key (sibling agreement, D20): trees are stored ordered by the UNESCAPED name (the walker sorts by path, the
  parent cursor walk compares Node::name()). Every ORDERING comparison of node names in the crate (Ord::cmp / PartialOrd /
  max / min) takes Node::name() - never the escaped `Node.name` string, whose order differs for names containing a quote,
  backslash, control or non-UTF-8 bytes: a k-way merge keyed by the escaped string emits such names twice.
C12.j renamed nodes keep the tree ordered (D21, known finding): a Visitor::process_node that changes a node's name (repair appends
  a suffix to files with lost content) hands the node back to TreeModifier::modify_tree, which must then re-establish name
  order and uniqueness (a sort after the adds, or a sorted / de-duplicating Tree::add) - otherwise the rewritten tree is
  unsorted and may list a name twice.
C12.e also: the merged subtree is attached only if the winning node itself is a directory.
C12.h processed-tree caches of tree visitors are keyed by everything the processing depends on: the rewrite visitor matches
  globs against the path, so its caches must be keyed by (path, tree id); repair's is path-independent.
"""
import re
from rules.common import *
import runner

TECHNIQUE = ('static analysis over rustc MIR: typed-identity rule on the shared indexer, derivation of has_tree/has_data receivers from the destination repository parameter, selection by max_by(cmp), must-pass directory test, per-blob kept-iff-indexed in closure and match form, memo-key dependence rule, crate-wide agreement of node-name ordering comparisons on the unescaped name (sibling comparator rule), R-ORDER ordering instances')
LEVEL = "other"
EXPLANATION = (
    "Guard, provenance and ordering rules over commands/copy.rs, merge.rs, blob/tree.rs (merge_nodes), the rewrite "
    "visitor and the repair visitor, decided on MIR. Necessary conditions for 'what these commands keep is unchanged'; "
    "byte-for-byte equality of restored content is a runtime statement.")
NOT_DECIDED = ["content equality of copied/merged/rewritten/repaired snapshots with their sources (runtime)"]


def run(ctx, rep):
    prog = ctx.prog
    wiring_rule(ctx, rep, "C12")
    for r, tx in (("C12.a", "typed blob identity in the shared indexer"), ("C12.b", "copy_fast only within one repository"), ("C12.c", "durable-before-visible ordering"),
                  ("C12.d", "copy selects with the typed destination index"), ("C12.e", "merge picks the maximum and merges all subtrees"),
                  ("C12.f", "repair keeps exactly the blobs still indexed"), ("C12.g", "rewrite removes only ignored paths"),
                  ("C12.h", "processed-tree caches are keyed by everything the processing depends on")):
        rep.rule(r, tx)
    from rules import typedid, C03, C04
    from rules.C10 import borrow
    typedid.run(ctx, rep, "C12.a", owners=["index::indexer::Indexer.indexed"])
    n = borrow(rep, ctx, C04, lambda o: o.rule == "C04.b" and ("copy_fast" in o.key or "pack-path" in o.key), "C12.b")
    rep.floor("C12.b", "borrowed obligations", n, 1)
    n = borrow(rep, ctx, C03, lambda o: o.rule == "R-ORDER" and re.search(r"/R-ORDER/(03|04|05|06|07|08|09|10|15)/", o.key), "C12.c")
    rep.floor("C12.c", "borrowed obligations", n, 12)
    # ---- C12.d -------------------------------------------------------------------------------------
    CP = prog.find1(r"^rustic_core::commands::copy::copy$")
    cls = prog.closures_of(CP, recursive=False)
    # presence tests against an index, in copy itself or in its closures (filter closures or plain loops)
    tests = {"has_tree": [], "has_data": []}
    for b_ in [CP] + cls:
        for bb, t in b_.calls():
            if "callee" in t:
                m_ = re.search(r"(has_tree|has_data)$", callee(t))
                if m_:
                    tests[m_.group(1)].append((b_, bb, t))
    ft, fd = tests["has_tree"], tests["has_data"]
    rep.check("C12.d", "filters", len(ft) >= 1 and len(fd) >= 1, where=CP.loc(), what="copy tests trees with has_tree and file contents with has_data before selecting them")

    def parent_args(b_, operand):
        """parameters of copy() the operand derives from (through the closure capture if b_ is a closure of copy)"""
        pl = op_place(operand)
        if pl is None:
            return set()
        if b_ is CP:
            return set(flow.backward_slice(CP, pl)["args"])
        e = flow.expr_of(b_, operand)
        out = set()
        if e[0] == "path" and e[1] == ("arg", 1) and e[2] and e[2][0].isdigit():
            k = int(e[2][0])
            for blk in CP.blocks:
                for s_ in blk["s"]:
                    if s_[0] == "=" and s_[2][0] == "agg" and s_[2][1][0] == "closure" and s_[2][1][1] == b_.path and k < len(s_[2][2]):
                        cp_ = op_place(s_[2][2][k])
                        if cp_:
                            out |= set(flow.backward_slice(CP, cp_)["args"])
        return out
    # the index the tests consult is the DESTINATION repository's (parameter 2 of copy), never the source's (parameter 1)
    okdst = bool(ft) and bool(fd)
    for (b_, bb, t) in ft + fd:
        pa = parent_args(b_, t["args"][0])
        if not (2 in pa and 1 not in pa):
            okdst = False
    rep.check("C12.d", "filters-use-destination-index", okdst, where=CP.loc(), what="every has_tree/has_data test in copy looks the blob up in the destination repository's index (derived from `repo_dest` only)")
    # BlobCopier::new types and what feeds them
    news = [(bb, t) for bb, t in CP.calls() if "callee" in t and callee(t).endswith("blob::packer::BlobCopier::<BE>::new")]
    cbs = [(bb, t) for bb, t in CP.calls() if "callee" in t and callee(t).endswith("commands::copy::copy_blobs")]
    rep.require("C12.d", "copiers", len(news) == 2 and len(cbs) == 2, where=CP.loc(), what="copy builds two BlobCopiers and runs copy_blobs twice")
    if len(news) == 2 and len(cbs) == 2:
        for (bb, t) in cbs:
            rp = flow.backward_slice(CP, op_place(t["args"][1]))
            nb = [nbb for nbb, _ in news if nbb in rp["call_sites"]]
            ty = None
            if len(nb) == 1:
                e = flow.expr_of(CP, CP.term(nb[0])["args"][2])
                ty = e[1][2] if e[0] == "agg" else None
            bl = flow.backward_slice(CP, op_place(t["args"][0]))
            # lookups in the filter_map closure or, for the loop form (`for id in ids { if let Some(e) = index.get_data(&id) { v.push(..) } }`),
            # in copy itself: the pushes into the vector are part of its slice
            seen_calls = set(_closure_calls(prog, CP, bl)) | set(bl["calls"])
            gt_, gd_ = any(c.endswith("get_tree") for c in seen_calls), any(c.endswith("get_data") for c in seen_calls)
            getter = "get_tree" if gt_ and not gd_ else ("get_data" if gd_ and not gt_ else ("both" if gt_ and gd_ else None))
            want = {"Tree": "get_tree", "Data": "get_data"}.get(ty)
            rep.check("C12.d", f"copier/{ty}", ty in ("Tree", "Data") and getter == want, where=where(CP, bb), what=f"the {ty} copier receives blobs looked up with {getter}")
    # the walk starts from every snapshot tree - not only from those missing in the destination: a root tree that is
    # present does not imply that everything below it is
    ts = [(bb, t) for bb, t in CP.calls() if "callee" in t and callee(t).endswith("TreeStreamerOnce::<P>::new") or ("callee" in t and re.search(r"TreeStreamerOnce(::<.*>)?::new$", callee(t)))]
    okr = False
    if len(ts) == 1:
        sl = flow.backward_slice(CP, op_place(ts[0][1]["args"][2])) if op_place(ts[0][1]["args"][2]) else {"calls": set(), "args": set()}
        filt = [c for c in sl["calls"] if re.search(r"::filter$|::filter_map$|has_tree$|::retain$|::difference$", c)]
        okr = 3 in sl["args"] and not filt
    rep.check("C12.d", "walk-from-all-snapshot-trees", okr, where=CP.loc(), what="the blob-collecting tree walk starts from the root tree of every snapshot to copy (unfiltered)" if okr else
              "the tree walk that collects the blobs to copy does not start from every snapshot's root tree (roots are filtered): blobs below an already-present root are never examined")
    # tree walk errors abort
    # `while let Some(item) = streamer.next().transpose()?` or `for item in &mut streamer { let x = item?; .. }` (next through `&mut I`)
    nx = [bb for bb, t in CP.calls() if "callee" in t and (re.search(r"TreeStreamerOnce as std::iter::Iterator>::next$", callee(t))
          or (re.search(r"Iterator>::next$", callee(t)) and "TreeStreamerOnce" in " ".join(t.get("gargs") or [])))]
    tb = [bb for bb, t in CP.calls() if "callee" in t and flow.TRY_BRANCH.search(callee(t))]
    okw = any(any(n_ in flow.backward_slice(CP, op_place(CP.term(b_)["args"][0]))["call_sites"] for n_ in nx) for b_ in tb)
    rep.check("C12.d", "walk-errors-abort", bool(nx) and okw, where=CP.loc(), what="an unreadable source tree aborts copy (the streamer's item is `?`-propagated)")
    # ---- C12.e -------------------------------------------------------------------------------------
    MN = prog.find1(r"^rustic_core::blob::tree::merge_nodes$")
    mb = [(bb, t) for bb, t in MN.calls() if "callee" in t and re.search(r"Iterator::(max_by|min_by|max_by_key|min_by_key|last|next)$", callee_decl(t))]
    okm = len(mb) == 1 and callee_decl(mb[0][1]).endswith("Iterator::max_by")
    if okm:
        c = None
        for a in mb[0][1]["args"][1:]:
            for d in MN.defs().get(op_local(a), []):
                if d[0] == "stmt" and d[4][0] == "agg" and d[4][1][0] == "closure":
                    c = prog.bodies.get(d[4][1][1])
        # the closure calls the caller's cmp (an indirect call through the captured Fn) with (n1, n2) in order
        okm = c is not None and any(t["k"] == "call" and ("indirect" in t or re.search(r"ops::Fn(Mut|Once)?(<.*>)?(>)?::call(_mut|_once)?$", callee(t) if "callee" in t else "")) for _, t in c.calls())
        if c is None:
            # max_by(cmp): the caller's comparison (parameter 4) handed over directly
            pl = op_place(mb[0][1]["args"][1]) if len(mb[0][1]["args"]) > 1 else None
            okm = pl is not None and 4 in flow.backward_slice(MN, pl)["args"]
    rep.check("C12.e", "max-by-given-order", okm, where=MN.loc(), what="merge_nodes keeps the node that is maximal under the caller's ordering (Iterator::max_by(cmp))")
    mt = [(bb, t) for bb, t in MN.calls() if "callee" in t and callee(t).endswith("blob::tree::merge_trees")]
    oka = False
    if len(mt) == 1:
        sl = flow.backward_slice(MN, op_place(mt[0][1]["args"][2]))
        cl = [c for c in prog.closures_of(MN, recursive=False) if any("callee" in t and callee(t).endswith("Node::is_dir") for _, t in c.calls())]
        oka = 3 in sl["args"] and bool(cl) and any(c.endswith("Iterator::filter") or c.endswith("::filter") for c in sl["calls"]) and not any(re.search(r"::(take|skip|step_by|take_while)$", c) for c in sl["calls"])
    rep.check("C12.e", "all-subtrees-merged", oka, where=MN.loc(), what="the subtrees of ALL same-named directory nodes are merged (filter(is_dir) over every node, no truncation)")
    # the merged node gets a subtree iff the WINNING node is a directory (entry types are preserved)
    sub = [(bi, s_) for bi, blk in enumerate(MN.blocks) for s_ in blk["s"] if s_[0] == "=" and place_has_field(s_[1], "subtree")]
    oksub = bool(sub)
    for bi, s_ in sub:
        base = s_[1][0]
        dep = False
        for (sw, succ) in C.transitive_control_deps(MN, bi):
            e = flow.expr_of(MN, MN.term(sw)["discr"])
            neg = False
            while e[0] == "un" and e[1] == "Not":
                neg = not neg
                e = e[2]
            if e[0] == "call" and e[1].endswith("Node::is_dir") and len(e) > 3 and op_place(MN.term(e[3])["args"][0]) and flow.base_local(MN, op_place(MN.term(e[3])["args"][0])) == base:
                v = [vv for vv, x in MN.term(sw)["targets"] if x == succ]
                took_true = (not v or v[0] != "0") != neg
                dep = dep or took_true
        oksub = oksub and dep
        dirv = str([v["discr"] for v in prog.adt("backend::node::NodeType")["variants"] if v["name"] == "Dir"][0])
        via_call = only_via(MN, bi, lambda x: x[0] == "call" and x[1].endswith("Node::is_dir"), True)
        via_match = only_via(MN, bi, lambda x: x[0] == "discr" and x[1][0] in ("path", "proj") and bool(x[1][2]) and x[1][2][-1] == "node_type", dirv)
        oksub = (oksub or via_match) and (via_call or via_match)
    rep.check("C12.e", "subtree-only-for-dir-winner", oksub, where=MN.loc(), what="merge_nodes attaches a merged subtree only if the chosen node itself is a directory" if oksub else
              "merge_nodes attaches a subtree to the chosen node without testing that THIS node is a directory: a file that wins over same-named directories gets a subtree")
    # ---- C12.i -------------------------------------------------------------------------------------
    rep.rule("C12.i", "node names are ordered by the unescaped name everywhere (the order trees are stored in)")
    ORD = re.compile(r"cmp::Ord(>)?::(cmp|max|min)$|cmp::PartialOrd(<.*>)?(>)?::(partial_cmp|lt|le|gt|ge)$|as std::cmp::Ord>::cmp$|as std::cmp::PartialOrd(<.*>)?>::(partial_cmp|lt|le|gt|ge)$")
    n_unesc, raw_sites = 0, []
    # one named exception: the derived structural order of Node itself (field by field) only serves as a BTreeMap key in
    # find_nodes / find_matching, whose results are re-ordered by their insertion index - it never decides a tree position
    EXEMPT = re.compile(r"^<rustic_core::backend::node::Node as std::cmp::(PartialOrd|Ord)>::")
    for b in prog.by_crate["rustic_core"]:
        if EXEMPT.search(b.path):
            continue
        for bb, t in b.calls():
            if "callee" not in t or not (ORD.search(callee(t)) or ORD.search(callee_decl(t))) or len(t["args"]) < 2:
                continue
            sides = []
            for a in t["args"][:2]:
                e = flow.expr_of(b, a, bb)
                flds, cls = flow.expr_mentions(e)
                unesc = any(c.endswith("backend::node::Node::name") for c in cls)
                raw = (not unesc) and _raw_name_field(b, a, e)
                sides.append((unesc, raw))
            if any(u for u, _ in sides):
                n_unesc += 1
            if any(r for _, r in sides):
                raw_sites.append((b, bb))
    for b, bb in raw_sites:
        rep.check("C12.i", f"{fn_key(b)}/orders-by-escaped-name", False, where=where(b, bb),
                  what=f"{fn_key(b)} orders nodes by the escaped `Node.name` string; stored trees are ordered by the unescaped name (Node::name()), so names containing a quote, backslash or non-UTF-8 bytes are visited out of order (merge lists them twice)")
    rep.check("C12.i", "no-ordering-on-escaped-name", not raw_sites, where=MN.loc(), what=f"no ordering comparison in rustic_core takes the escaped Node.name field ({n_unesc} ordering comparisons use Node::name())")
    rep.floor("C12.i", "ordering comparisons on node names examined (unescaped + escaped)", n_unesc + len(raw_sites), 2)
    # ---- C12.j -------------------------------------------------------------------------------------
    rep.rule("C12.j", "a visitor that renames a node is followed by a re-sort of the rebuilt tree")
    REN = re.compile(r"String as std::ops::AddAssign<.*>>::add_assign$|String::(push_str|push|insert_str|insert|clear|truncate|replace_range)$")
    renamers = []
    for b in prog.by_crate["rustic_core"]:
        if not re.search(r"modify::Visitor>::process_node$", b.path):
            continue
        hit = None
        for bb, t in b.calls():
            if "callee" in t and REN.search(callee(t)) and t["args"] and op_place(t["args"][0]):
                pp = flow.place_path(b, op_place(t["args"][0]))
                sl_ok = pp is not None and pp[1] and pp[1][-1] == "name"
                if not sl_ok:
                    # `&mut node.name` taken into a temporary first
                    for d_ in b.defs().get(op_local(t["args"][0]), []):
                        if d_[0] == "stmt" and d_[4][0] in ("refmut", "ref") and place_has_field(d_[4][1], "name", "backend::node::Node"):
                            sl_ok = True
                if sl_ok:
                    hit = bb
        for bi, blk in enumerate(b.blocks):
            for s_ in blk["s"]:
                if s_[0] == "=" and place_has_field(s_[1], "name", "backend::node::Node") and isinstance(s_[1][-1], list) and s_[1][-1][0] == "f" and s_[1][-1][2] == "name":
                    hit = bi
        if hit is not None:
            renamers.append((b, hit))
    MT = prog.find1(r"^rustic_core::blob::tree::modify::TreeModifier::<'a, BE, I>::modify_tree$")
    adds_ = [bb for bb, t in MT.calls() if "callee" in t and callee(t).endswith("blob::tree::Tree::add")]
    rep.require("C12.j", "modify_tree/assembles-with-Tree::add", len(adds_) >= 1, where=MT.loc(), what="TreeModifier::modify_tree rebuilds the tree with Tree::add")
    SORT = re.compile(r"::(sort|sort_by|sort_by_key|sort_unstable|sort_unstable_by|sort_unstable_by_key|sort_by_cached_key|binary_search_by|binary_search_by_key|dedup_by|dedup_by_key)$")
    TA = prog.bodies.get("rustic_core::blob::tree::Tree::add")
    sorted_add = TA is not None and any("callee" in t and SORT.search(callee_decl(t) + " " + callee(t)) for _, t in TA.calls())
    resort = any("callee" in t and SORT.search(callee_decl(t) + " " + callee(t)) and any(bb in MT.reachable_from(a) for a in adds_) for bb, t in MT.calls())
    for b, bi in renamers:
        okr = sorted_add or resort
        rep.check("C12.j", f"{fn_key(b)}/renamed-node-resorted", okr, where=where(b, bi),
                  what=f"{fn_key(b)} changes Node.name and modify_tree re-sorts the rebuilt tree" if okr else
                       f"{fn_key(b)} changes Node.name in place, and TreeModifier::modify_tree adds the nodes in their old order without re-sorting or checking for an existing entry of the new name: the rewritten tree is out of name order and can list one name twice")
    rep.count("C12.j: visitors renaming nodes", str(len(renamers)))
    # ---- C12.f -------------------------------------------------------------------------------------
    PN = prog.find1(r"^<rustic_core::commands::repair::snapshots::RepairState<'_, I> as rustic_core::blob::tree::modify::Visitor>::process_node$")
    fam = [PN] + prog.closures_of(PN)
    gd = [(f, bb) for f in fam for bb, t in f.calls() if "callee" in t and re.search(r"get_data$", callee(t))]
    pushes = [(f, bb) for f in fam for bb, t in f.calls() if "callee" in t and callee(t).endswith("Vec::<T, A>::push")]
    # the "content is missing" flag, identified by its use (not its name): the bool local handed on as `changed` in
    # NodeAction::Node(node, <flag>)
    flag_names = set()
    for blk in PN.blocks:
        for s in blk["s"]:
            if s[0] == "=" and s[2][0] == "agg" and s[2][1][0] == "adt" and s[2][1][1].endswith("NodeAction") and s[2][1][2] == "Node" and len(s[2][2]) == 2 and op_local(s[2][2][1]) is not None:
                l_ = op_local(s[2][2][1])
                for _ in range(4):
                    flag_names |= {n_.split("__")[-1] for n_ in PN.local_names().get(l_, [])}
                    ds_ = [d_ for d_ in PN.defs().get(l_, []) if d_[0] == "stmt" and d_[4][0] == "use" and op_local(d_[4][1]) is not None]
                    if len(ds_) != 1:
                        break
                    l_ = op_local(ds_[0][4][1])
    chg = [(f, bi) for f in fam for bi, blk in enumerate(f.blocks) for s in blk["s"] if s[0] == "=" and s[2][0] == "use" and s[2][1][0] == "k" and s[2][1][1].get("v") is True and any(_is_flag_store(f, s[1], fn_) for fn_ in flag_names)]
    rep.require("C12.f", "sites", len(gd) == 1 and len(pushes) >= 1 and len(chg) >= 1, where=PN.loc(), what="process_node looks each blob up (get_data), collects kept blobs and flags missing ones")
    if len(gd) == 1 and pushes and chg:
        # push happens in the Some-closure, flag in the None-closure of map_or_else on the lookup result
        f0, gbb = gd[0]
        moe = [bb for bb, t in f0.calls() if "callee" in t and re.search(r"Option::<T>::map_or_else$", callee(t)) and gbb in flow.backward_slice(f0, op_place(t["args"][0]))["call_sites"]]
        ok = False
        if len(moe) == 1:
            t = f0.term(moe[0])
            def clos(op):
                for d in f0.defs().get(op_local(op), []):
                    if d[0] == "stmt" and d[4][0] == "agg" and d[4][1][0] == "closure":
                        return d[4][1][1]
                return None
            none_c, some_c = clos(t["args"][1]), clos(t["args"][2])
            ok = any(f.path == some_c for f, _ in pushes) and any(f.path == none_c for f, _ in chg) and not any(f.path == none_c for f, _ in pushes)
        elif not moe:
            # match / if-let / let-else on the lookup result in the same body: every push lies behind the Some edge, and every path
            # from the None edge back to the loop head (or out of the function) stores file_changed = true
            is_look = lambda x: x[0] == "discr" and isinstance(x[1], tuple) and x[1][0] == "call" and re.search(r"get_data$", x[1][1]) is not None
            sws = [sw for sw in range(len(f0.blocks)) if f0.term(sw)["k"] == "switch" and is_look(flow.expr_of(f0, f0.term(sw)["discr"]))]
            if len(sws) == 1:
                tsw = f0.term(sws[0])
                none_t = [x for v, x in tsw["targets"] if v == "0"]
                none_t = none_t[0] if none_t else tsw["otherwise"]
                okp = all(f is f0 and only_via(f0, bb, is_look, "1", from_bb=0) for f, bb in pushes)
                flag_bbs = {bi for f, bi in chg if f is f0}
                cut = [(p_, b_) for b_ in flag_bbs for p_ in f0.preds()[b_]]
                rest = f0.reachable_from(none_t, cut_edges=cut) if none_t not in flag_bbs else set()
                nexts = {bb for bb, t_ in f0.calls() if "callee" in t_ and re.search(r"Iterator>::next$", callee(t_))}
                rets = {bi for bi in range(len(f0.blocks)) if f0.term(bi)["k"] == "return"}
                okf = bool(flag_bbs) and not (rest & (nexts | rets))
                ok = okp and okf
        rep.check("C12.f", "kept-iff-indexed", ok, where=PN.loc(), what="a blob is kept iff the index still has it; a missing blob marks the file as changed")
        # suffix only if changed
        sfx = [bi for bi, blk in enumerate(PN.blocks) for s in blk["s"] if False]
        adds = [bb for bb, t in PN.calls() if "callee" in t and re.search(r"AddAssign<.*>>::add_assign$|String::push_str$", callee(t)) and "suffix" in flow.backward_slice(PN, op_place(t["args"][1]))["fields"]]
        oks = bool(adds)
        for a in adds:
            conds = [cond_name(PN, flow.expr_of(PN, PN.term(sw)["discr"])) for (sw, succ) in C.transitive_control_deps(PN, a)]
            oks = oks and any(nm in flag_names for nm, neg in conds)
        rep.check("C12.f", "suffix-iff-changed", oks, where=PN.loc(), what="the name suffix is appended only to files with missing content")
    PT = prog.find1(r"^<rustic_core::commands::repair::snapshots::RepairState<'_, I> as rustic_core::blob::tree::modify::Visitor>::pre_process_tree$")
    cl = prog.closures_of(PT)
    okt = any(any("callee" in t and callee(t).endswith("blob::tree::Tree::new") for _, t in c.calls()) and any(s[0] == "=" and s[2][0] == "agg" and s[2][1][0] == "adt" and s[2][1][2] == "ProcessChangedTree" for blk in c.blocks for s in blk["s"]) for c in cl)
    rep.check("C12.f", "unreadable-tree-emptied", okt, where=PT.loc(), what="an unreadable tree is processed as a changed, empty tree")
    # ---- C12.g -------------------------------------------------------------------------------------
    RW = prog.find1(r"^<rustic_core::blob::tree::rewrite::RewriteVisitor as rustic_core::blob::tree::modify::Visitor>::process_node$")
    rem = [bi for bi, blk in enumerate(RW.blocks) for s in blk["s"] if s[0] == "=" and s[2][0] == "agg" and s[2][1][0] == "adt" and s[2][1][1].endswith("NodeAction") and s[2][1][2] == "Removed"]
    IGN = _discr_of(prog_variants_ignore_match(), "Ignore")
    is_matched = lambda x: x[0] == "discr" and "ignore::Match" in (x[2] if len(x) > 2 and isinstance(x[2], str) else "") and "matched" in repr(x)
    # bool helpers that answer `true` only for Match::Ignore (`fn is_excluded(..) -> bool { matches!(self.overrides.matched(..), Match::Ignore(_)) }`)
    ign_helpers = set()
    for bb_, t_ in RW.calls():
        if "callee" in t_ and callee(t_).startswith("rustic_core::") and callee(t_) in prog.bodies and t_.get("dest_ty") == "bool":
            H = prog.bodies[callee(t_)]
            tb, other = [], False
            for bi_, blk_ in enumerate(H.blocks):
                for s_ in blk_["s"]:
                    if s_[0] == "=" and s_[1] == [0]:
                        if s_[2][0] == "use" and s_[2][1][0] == "k" and isinstance(s_[2][1][1].get("v"), bool):
                            if s_[2][1][1]["v"]:
                                tb.append(bi_)
                        else:
                            other = True
                if blk_["t"]["k"] == "call" and blk_["t"].get("dest") == [0]:
                    other = True
            if tb and not other and all(only_via(H, x_, is_matched, IGN) for x_ in tb):
                ign_helpers.add(callee(t_))
    is_helper = lambda x: x[0] == "call" and x[1] in ign_helpers
    # decided path-sensitively (a `let is_excluded = matches!(..)` local is followed): with the matcher answering anything but
    # Ignore (and Ignore-only helpers answering false) no removal is reachable; with Ignore it is
    import pathsens
    mvars = prog_variants_ignore_match()

    def force_match(variant):
        dv = _discr_of(mvars, variant)

        def fz(body, bb):
            t = body.term(bb)
            if t["k"] != "switch":
                return None
            x = flow.expr_of(body, t["discr"], bb)
            if x[0] == "path" and x[1][0] == "local" and not x[2]:
                for s_ in body.blocks[bb]["s"]:
                    if s_[0] == "=" and s_[1] == [x[1][1]] and s_[2][0] == "discr":
                        x = ("discr", flow.place_expr(body, s_[2][1]), s_[2][2])
            neg = False
            while x[0] == "un" and x[1] == "Not":
                x = x[2]
                neg = not neg
            if is_matched(x):
                tg = [y for v, y in t["targets"] if v == dv]
                return tg[0] if tg else t["otherwise"]
            if t["discr_ty"] == "bool" and is_helper(x):
                val = (variant == "Ignore") != neg
                zero = [y for v, y in t["targets"] if v == "0"]
                return (t["otherwise"] if val else zero[0]) if zero else None
            return None

        def ev(body, e):
            if isinstance(e, tuple) and e and is_helper(e):
                return variant == "Ignore"
            return None
        return set(pathsens.reachable_under(RW, fz, eval_expr=ev))
    others = [v for v in mvars if v != "Ignore"]
    okg = bool(rem) and all(not (set(rem) & force_match(v)) for v in others) and bool(set(rem) & force_match("Ignore"))
    rep.check("C12.g", "removed-only-if-ignored", okg, where=RW.loc(), what="a node is dropped from a rewritten tree only if the exclusion matcher returns Match::Ignore")
    memo_rule(prog, rep)


def memo_rule(prog, rep):
    """C12.h: a tree visitor that short-cuts already processed trees (pre_process answering from a cache) must key that
    cache by everything the processing depends on: if the visitor's per-node processing reads the path (rewrite matches
    exclude globs against the full path), every cache lookup in pre_process must have the path in its key."""
    VIS = "rustic_core::blob::tree::modify::Visitor>::"
    impls = {}
    for b in prog.by_crate["rustic_core"]:
        m = re.match(r"^<(.+) as rustic_core::blob::tree::modify::Visitor>::(\w+)$", b.path)
        if m:
            impls.setdefault(m.group(1), {})[m.group(2)] = b
    rep.floor("C12.h", "Visitor implementations", len(impls), 1)
    LOOK = re.compile(r"(BTreeMap|HashMap|BTreeSet|HashSet)::<.*>::(get|contains|contains_key|get_mut|entry)$")
    for ty, ms in sorted(impls.items()):
        pre = ms.get("pre_process")
        if pre is None:
            continue
        # does the processing depend on the path?  (any use of the path parameter in process_node / pre_process_tree /
        # post_process_tree beyond passing it back into the cache)
        dep = []
        for name in ("process_node", "post_process_tree"):
            b = ms.get(name)
            if b is None:
                continue
            for fam in [b] + prog.closures_of(b):
                for bb, t in fam.calls():
                    if "callee" not in t or LOOK.search(callee(t)):
                        continue
                    for a in t["args"]:
                        pl = op_place(a)
                        if pl is None:
                            continue
                        sl = flow.backward_slice(fam, pl)
                        if fam is b and 2 in sl["args"] and re.search(r"Path|join|matched|Override|display|to_", callee(t)):
                            dep.append(strip_crate(callee(t)))
        looks = [(bb, t) for bb, t in pre.calls() if "callee" in t and LOOK.search(callee(t))]
        k = strip_crate(ty)
        if not looks:
            rep.check("C12.h", f"{k}/no-cache", True, where=pre.loc(), what=f"{k}: pre_process does not answer from a cache", nontrivial=False)
            continue
        for n, (bb, t) in enumerate(looks, 1):
            keyp = op_place(t["args"][1]) if len(t["args"]) > 1 else None
            sl = flow.backward_slice(pre, keyp) if keyp else {"args": set()}
            has_path = 2 in sl["args"]
            ok = has_path or not dep
            rep.check("C12.h", f"{k}/cache-key/{n}", ok, where=where(pre, bb),
                      what=(f"{k}: the processed-tree cache is keyed by (path, tree id) and the processing depends on the path (via {sorted(set(dep))[:3]})" if has_path and dep else
                            f"{k}: the processing does not depend on the path; the cache may be keyed by the tree id alone" if not dep else
                            f"{k}: processing a tree depends on its path (via {sorted(set(dep))[:3]}) but the processed-tree cache is keyed without the path: the result for one path is reused for the same subtree at another path"))


def prog_variants_ignore_match():
    # ignore::Match<T> { None, Ignore(T), Whitelist(T) } (third-party, stable)
    return {"None": "0", "Ignore": "1", "Whitelist": "2"}


def _discr_of(tbl, name):
    return tbl[name]


def _is_flag_store(body, place, name):
    """store to a local / captured variable named `name`"""
    if len(place) == 1:
        return name in body.local_names().get(place[0], [])
    if body.is_closure() and len(place) == 2 and place[1] == "*":
        for d in body.defs().get(place[0], []):
            if d[0] == "stmt" and d[4][0] == "use" and op_place(d[4][1]) and op_place(d[4][1])[0] == 1:
                for e in op_place(d[4][1])[1:]:
                    if isinstance(e, list) and e[0] == "f":
                        n = upvar_name(body, e[1])
                        return bool(n) and n.split("__")[-1] == name
    if body.is_closure() and place[0] == 1:
        for e in place[1:]:
            if isinstance(e, list) and e[0] == "f":
                n = upvar_name(body, e[1])
                return bool(n) and n.split("__")[-1] == name
    return False


def _closure_calls(prog, body, sl):
    """callees inside closures created in `body` whose values are in the slice"""
    out = set()
    for c in prog.closures_of(body, recursive=False):
        for (bb, si, ops) in _creations(body, c):
            out |= {callee(t) for _, t in c.calls() if "callee" in t}
    # restrict to closures whose creation feeds the slice
    res = set()
    for c in prog.closures_of(body, recursive=False):
        for bi, blk in enumerate(body.blocks):
            for s in blk["s"]:
                if s[0] == "=" and s[2][0] == "agg" and s[2][1][0] == "closure" and s[2][1][1] == c.path and s[1][0] in sl["locals"]:
                    res |= {callee(t) for _, t in c.calls() if "callee" in t}
    return res


def _creations(body, c):
    return []


def _raw_name_field(body, op, e):
    """the operand is (a reference to) the `name` field of backend::node::Node itself"""
    def is_name_path(x):
        return isinstance(x, tuple) and len(x) >= 3 and x[0] in ("path", "proj") and isinstance(x[2], list) and x[2] and x[2][-1] == "name"
    def walk(x, d=0):
        if d > 6 or not isinstance(x, tuple):
            return False
        if is_name_path(x):
            return True
        if x[0] in ("ref", "deref", "un", "cast") or (x[0] == "call" and re.search(r"Deref>::deref$|AsRef<.*>>::as_ref$|String::as_str$|Borrow<.*>>::borrow$", x[1])):
            return any(walk(y, d + 1) for y in x[1:] if isinstance(y, (tuple, list))) or any(walk(z, d + 1) for y in x[1:] if isinstance(y, list) for z in y)
        return False
    if not walk(e):
        return False
    # owner of the field: the place projection carries the ADT
    pl = op_place(op)
    seen = set()
    work = [pl] if pl else []
    while work:
        q = work.pop()
        if q is None or tuple(map(str, q)) in seen:
            continue
        seen.add(tuple(map(str, q)))
        for el in q[1:]:
            if isinstance(el, list) and el[0] == "f" and el[2] == "name":
                return (el[4] or "").endswith("backend::node::Node")
        for d_ in body.defs().get(q[0], []):
            if d_[0] == "stmt" and d_[4][0] in ("ref", "refmut", "use"):
                src = d_[4][1]
                work.append(src if d_[4][0] != "use" else op_place(src))
    return False
