"""C15 - Append-only and dry-run modes never remove or overwrite stored data.

C15.a (removal clause, complete over call paths): for every public entry point m of rustic_core and every
  removal site s (a call of WriteBackend::remove with file type Snapshot|Index|Pack or undetermined) reachable
  from m in the call graph: on every call path m..f(s) some frame contains a branch on
  `config.append_only == Some(true)` whose true edge only returns Err, and s (or the call leading to it) is
  unreachable in that frame when the test is true - decided by path-sensitive reachability that keeps bool tests
  on immutable option fields consistent (so `opts.delete && append_only` protects a site under `if opts.delete`).
  The test is recognised semantically (value of the switch when the field is Some(true)): `== Some(true)`, `if let
  Some(true)`, `matches!`, `unwrap_or(false)`, a bool predicate method of the field, and Result-returning guard helpers
  used with `?` (functions whose every return is Err once the field is forced) - see compute_ao_helpers.
C15.a2 fails-before-touching-storage: no W/RM/CREATE effect can precede a guard in its frame.
C15.c dry-run: with every `dry_run` flag assumed true, no W/RM/CREATE effect is reachable from any function that
  reads a dry_run flag; flags are wired: every struct field named dry_run is initialised from a dry_run source.
"""
import re
from collections import defaultdict
from rules.common import *
import pathsens

TECHNIQUE = ('static analysis over rustc MIR and the resolved call graph: effect summaries (W/RM/CREATE/STAGE) with semantic guard evaluation under append_only == Some(true) / dry_run == true (path-sensitive reachability with bool- and enum-local environment, guard helpers with `?`), completeness obligations for indirect calls')
LEVEL = "proof"
EXHAUSTIVE = True
EXPLANATION = (
    "Whole-program static rule over the call graph of rustic_core (resolved callees, class-hierarchy edges for trait "
    "dispatch, closures attributed to their consumer). Obligations are (public entry point, reachable removal site) "
    "pairs; one is discharged iff the removal site is unreachable, frame by frame, once `append_only == Some(true)` "
    "forces the guard's error edge. The same summary machinery with every dry_run flag forced true decides the dry-run "
    "clause for the functions that read such a flag. Decides the structure (guard on every call path, before any "
    "storage effect), not runtime behaviour of the backends below the WriteBackend interface.")
NOT_DECIDED = [
    "replacement of content-addressed files by identical ids (content-addressing makes it a no-op; see C04/C08 rules)",
    "behaviour of third-party backends below WriteBackend::remove",
    "backup --dry-run through DryRunBackend in generic code: decided only via the DryRunBackend method rules (C15.c2)",
]
TRUSTED = ["class-hierarchy treatment of dyn/generic WriteBackend receivers (complete for impls inside the analysed crates)",
           "immutability of option structs reached through & references",
           "guard evaluation: a switch is forced only if its condition is a function of one `append_only` field read (== Some(true), if let, matches!, "
           "unwrap_or, is_some/is_none, bool predicate methods whose body is such an expression) - every repository has a single ConfigFile, so "
           "which object the field is read from is not tracked",
           "guard helpers: a Result-returning function counts as a guard only if, with the field forced, every reachable assignment of its return "
           "place is Err(..) (or the result of another such helper)",
           "dry-run clause: loops and terminal iterator consumers over a Vec created in the same body and filled only at blocks unreachable "
           "under dry_run = true are treated as not executing their body"]
ASSUMPTIONS = ["entry points = pub functions reachable from the crate root of rustic_core, excluding the raw storage-layer "
               "traits (WriteBackend, DecryptWriteBackend and their impls), which are below the append-only check by design"]

PROTECTED = {"Snapshot", "Index", "Pack"}


class SiteEffects(StagedEffects):
    """effects carry the identity of the primitive site"""

    def __init__(self, *a, **k):
        self._ord = {}
        super().__init__(*a, **k)

    def _prim(self, body, bb, t):
        out = []
        for e in super()._prim(body, bb, t):
            key = (body.path, bb)
            if key not in self._ord:
                # ordinal among same-callee sites in the function, in block order -> position-free
                n = sum(1 for (p, b2) in self._ord if p == body.path) + 1
                self._ord[key] = n
            out.append((e[0], e[1], f"{fn_key(body)}#{e[0]}{self._ord[key]}", where(body, bb)))
        return out


_AO_HELPERS = {}      # path -> True for functions that return Err on every path when append_only == Some(true)
_AO_ERR_SWITCH = {}   # body path -> {switch block of the `?` on a helper's result: break target}


def _base_forced(body, bb):
    r = is_append_only_test(body, bb)
    if r is not None:
        return r[0]
    # the documented escape of apply_config: `opts.set_append_only != Some(false)`; assume the caller does not
    # ask to switch append-only off (that request is the one operation allowed to change the stored config)
    r = is_not_disabling_test(body, bb)
    if r is not None:
        return r[0]
    return None


def ao_eval(body, e):
    """value of a bool expression under the assumptions of C15.a: append_only == Some(true) and the caller does not ask
    to switch append-only off (set_append_only != Some(false))"""
    v = eval_under_append_only(e)
    if v is not None:
        return bool(v) if isinstance(v, bool) else None
    neg = False
    while e[0] == "un" and e[1] == "Not":
        neg = not neg
        e = e[2]
    if _is_set_payload(e):
        return not neg
    if e[0] == "call":
        m = re.search(r"PartialEq(>)?::(eq|ne)$", e[1])
        if m and len(e[2]) == 2:
            for a, b in ((e[2][0], e[2][1]), (e[2][1], e[2][0])):
                if a[0] in ("path", "proj") and a[2] and a[2][-1] == "set_append_only" and b[0] == "promoted" and b[2] and b[2][0] == "adt" and b[2][2] == "Some" and b[2][3] and b[2][3][0] == ("const", False):
                    r = (m.group(2) == "ne")      # set_append_only != Some(false) is assumed
                    return r != neg
    return None


def ao_forced(body, bb):
    f = _base_forced(body, bb)
    if f is not None:
        return f
    return _AO_ERR_SWITCH.get(body.path, {}).get(bb)


def compute_ao_helpers(prog, rounds=3):
    """guard helpers: a function with a Result return type whose every return, once append_only == Some(true) is
    forced, carries Err (e.g. `fn ensure_not_append_only(cfg) -> RusticResult<()>`). A `?` on the result of such a
    helper is then itself a guard: under append-only only its error edge is taken. Iterated so that helpers may call
    helpers."""
    _AO_HELPERS.clear()
    _AO_ERR_SWITCH.clear()
    AO_PREDICATES.clear()
    # bool predicates decided by the append_only field: `fn is_append_only(&self) -> bool { self.append_only == Some(true) }`
    for _ in range(2):
        for b in prog.by_crate["rustic_core"]:
            if not b.locals or b.locals[0] != "bool" or b.is_closure() or b.path in AO_PREDICATES:
                continue
            v = eval_under_append_only(flow.place_expr(b, [0]))
            if v is None:
                # `if <test> { true } else { false }` shapes: constant assignments reachable once the test is forced
                if not any(_base_forced(b, bb) is not None for bb in range(len(b.blocks))):
                    continue
                reach = pathsens.reachable_under(b, _base_forced, eval_expr=ao_eval)
                vals = set()
                for bb in reach:
                    for st in b.blocks[bb]["s"]:
                        if st[0] == "=" and st[1] == [0]:
                            rv = st[2]
                            vals.add(rv[1][1].get("v") if rv[0] == "use" and rv[1][0] == "k" else "?")
                    t = b.blocks[bb]["t"]
                    if t["k"] == "call" and t.get("dest") == [0]:
                        vals.add("?")
                if len(vals) == 1 and isinstance(next(iter(vals)), bool):
                    v = next(iter(vals))
            if isinstance(v, bool):
                AO_PREDICATES[b.path] = v
    bodies = [b for b in prog.by_crate["rustic_core"] if b.locals and b.locals[0].startswith("std::result::Result<") and not b.is_closure()]
    for _ in range(rounds):
        changed = False
        for b in bodies:
            if b.path in _AO_HELPERS:
                continue
            has_test = any(_base_forced(b, bb) is not None for bb in range(len(b.blocks))) or bool(_AO_ERR_SWITCH.get(b.path))
            if not has_test:
                continue
            reach = pathsens.reachable_under(b, ao_forced, eval_expr=ao_eval)
            ok = True
            nret = 0
            for bb in reach:
                blk = b.blocks[bb]
                for st in blk["s"]:
                    if st[0] == "=" and st[1] == [0]:
                        rv = st[2]
                        if not (rv[0] == "agg" and rv[1][0] == "adt" and rv[1][1].endswith("result::Result") and rv[1][2] == "Err"):
                            ok = False
                t = blk["t"]
                if t["k"] == "call" and t.get("dest") == [0] and not callee(t).endswith("::from_residual"):
                    # tail call: Err only if the callee is itself a helper
                    if not ("callee" in t and _AO_HELPERS.get(callee(t))):
                        ok = False
                if t["k"] == "return":
                    nret += 1
            if ok and nret:
                _AO_HELPERS[b.path] = True
                changed = True
        # `?` sites on helper results
        for b in prog.by_crate["rustic_core"]:
            for bb, t in b.calls():
                if "callee" in t and _AO_HELPERS.get(callee(t)):
                    for (sw, brk) in flow.err_edges(b, bb):
                        if _AO_ERR_SWITCH.setdefault(b.path, {}).get(sw) != brk:
                            _AO_ERR_SWITCH[b.path][sw] = brk
                            changed = True
        if not changed:
            break
    return sorted(_AO_HELPERS)


def _is_set_payload(e):
    """the bool inside `set_append_only: Option<bool>` read through the Some variant"""
    return isinstance(e, tuple) and e and e[0] in ("path", "proj") and len(e) > 3 and len(e[2]) >= 2 and e[2][-2] == "set_append_only" and e[2][-1] == "0" and list(e[3])[-1:] == ["Some"]


def is_not_disabling_test(body, bb):
    """switch on `<..>.set_append_only != Some(false)` -> (true_target, false_target)"""
    t = body.term(bb)
    if t["k"] != "switch":
        return None
    e = flow.expr_of(body, t["discr"])
    neg = False
    while e[0] == "un" and e[1] == "Not":
        neg = not neg
        e = e[2]
    if _is_set_payload(e):
        # `matches!(opts.set_append_only, Some(false))` form: the payload of Some(..) is tested; under the assumption
        # set_append_only != Some(false) it is true wherever it exists
        zero = [x for v, x in t["targets"] if v == "0"]
        if not zero or t.get("discr_ty") != "bool":
            return None
        return (t["otherwise"], zero[0]) if not neg else (zero[0], t["otherwise"])
    if e[0] != "call":
        return None
    m = re.search(r"PartialEq(>)?::(eq|ne)$", e[1])
    if not m:
        return None
    if m.group(2) == "eq":
        neg = not neg
    a, b = e[2][0], e[2][1]

    def is_set(x):
        return x[0] in ("path", "proj") and x[2] and x[2][-1] == "set_append_only"

    def is_some_false(x):
        return x[0] == "promoted" and x[2] and x[2][0] == "adt" and x[2][2] == "Some" and x[2][3] and x[2][3][0] == ("const", False)

    if not ((is_set(a) and is_some_false(b)) or (is_set(b) and is_some_false(a))):
        return None
    zero = None
    for v, x in t["targets"]:
        if v == "0":
            zero = x
    if zero is None:
        return None
    other = t["otherwise"]
    return (other, zero) if not neg else (zero, other)


def dry_forced(body, bb):
    return force_flag("dry_run", True)(body, bb)


def _upvar_name(body, idx):
    for n, p in body.dbg:
        if isinstance(p, list) and p[0] == 1 and any(isinstance(e, list) and e[0] == "f" and e[1] == idx for e in p[1:]):
            return n
    return None


def is_storage_layer(b):
    tr = (b.impl or {}).get("trait", "") or ""
    if tr.endswith(("backend::WriteBackend", "backend::ReadBackend", "decrypt::DecryptWriteBackend", "decrypt::DecryptReadBackend")):
        return True
    if b.in_trait and b.in_trait.endswith(("backend::WriteBackend", "decrypt::DecryptWriteBackend", "decrypt::DecryptReadBackend", "backend::ReadBackend")):
        return True
    return False


def run(ctx, rep):
    prog, cg = ctx.prog, ctx.cg
    rep.rule("C15.a", "every removal site reachable from a public entry point is cut off by an append-only guard in some frame of every call path")
    rep.rule("C15.b", "the config file is rewritten only behind the append-only guard (or at repository creation)")
    rep.rule("C15.a2", "no storage effect can precede an append-only guard in its frame")
    rep.rule("C15.c", "with dry_run flags true no W/RM/CREATE effect is reachable from a function that reads a dry_run flag")

    # ---- completeness of the call graph the proof-level claim rests on -----------------------------------------
    INDIRECT_OK = {"commands::forget::KeepOptions::matches": "calls one of the nine period predicates through a fn pointer taken from a constant table (pure functions)"}
    nind = 0
    for b in prog.by_crate["rustic_core"]:
        for (bb, t, kind, tgts, info) in cg.sites(b):
            if kind == "indirect":
                nind += 1
                why = INDIRECT_OK.get(re.sub(r"(::\{closure#\d+\})+$", "", fn_key(b)))
                rep.check("C15.a", f"call-graph/indirect/{fn_key(b)}", why is not None, where=where(b, bb),
                          what=f"{fn_key(b)}: indirect call [{why}]" if why else
                               f"{fn_key(b)}: call through a function pointer / dyn Fn whose targets the call graph cannot enumerate: the 'guard on every call path' claim is not established for paths through this site", nontrivial=False)
    rep.count("C15.a: indirect call sites in rustic_core (targets not enumerable)", nind)
    # ---- C15.a -------------------------------------------------------------------------------
    helpers = compute_ao_helpers(prog)
    rep.observe(f"append-only guard helpers (always Err under append_only == Some(true)): {[strip_crate(h) for h in helpers]}; bool predicates of the field: { {strip_crate(k): v for k, v in AO_PREDICATES.items()} }")
    allrm = SiteEffects(prog, cg, kinds=("RM",))
    allrm.compute()
    reach_cache = {}

    def ao_filter(body, bb, es):
        if body.path not in reach_cache:
            reach_cache[body.path] = pathsens.reachable_under(body, ao_forced, eval_expr=ao_eval)
        return es if bb in reach_cache[body.path] else set()

    ung = SiteEffects(prog, cg, kinds=("RM",), site_filter=ao_filter)
    ung.compute()

    entries = [b for b in prog.by_crate["rustic_core"] if b.kind in ("Fn", "AssocFn") and b.pub and b.reachable]
    excluded = [b for b in entries if is_storage_layer(b)]
    entries = [b for b in entries if not is_storage_layer(b)]
    rep.floor("C15.a", "public entry points", len(entries), 200)
    sites_all = set()
    n_pairs = 0
    guards = []
    for b in prog.by_crate["rustic_core"]:
        for bb in range(len(b.blocks)):
            r = is_append_only_test(b, bb)
            if r and returns_err_only(b, r[0]):
                guards.append((b, bb, r))
    rep.floor("C15.a", "append-only guards (test whose true edge only returns Err)", len(guards), 1)
    key_sites = []
    for m in entries:
        R = allrm.summ.get(m.path, frozenset())
        U = {e[2] for e in ung.summ.get(m.path, frozenset())}
        for e in sorted(R, key=lambda x: x[2]):
            tpe = e[1]
            sites_all.add(e[2])
            if isinstance(tpe, str) and tpe not in PROTECTED and tpe != "*":
                if tpe == "Key":
                    key_sites.append((fn_key(m), e[2]))
                continue
            n_pairs += 1
            ok = e[2] not in U
            rep.check("C15.a", f"{fn_key(m)}/{e[2]}/{tpe if isinstance(tpe, str) else 'any'}", ok, where=e[3],
                      what=f"entry {fn_key(m)} reaches removal of {tpe if isinstance(tpe, str) else 'a caller-chosen file type'} at {e[2]} "
                           + ("behind an append-only guard on every call path" if ok else "on a call path WITHOUT an append-only guard that fails first"),
                      detail=None if ok else {"entry": m.path, "site": e[2], "file_type": str(tpe)})
    rep.count("C15.a: removal primitive sites reachable from entries", len(sites_all))
    rep.count("C15.a: entries excluded as storage layer", len(excluded))
    rep.count("C15.a: (entry, RM(Key)) pairs listed, outside the statement", len(key_sites))
    # floor: the removal sites confirmed by reading (delete_list closure, plus direct removes)
    rep.floor("C15.a", "(entry, removal site) pairs", n_pairs, 5)

    # ---- C15.b: the config file (the one non content-addressed file) is rewritten only behind the guard -----
    INIT_OK = {"repository::Repository::<S>::init": "creates a new repository: nothing stored yet",
               "repository::Repository::<S>::init_with_config": "creates a new repository: nothing stored yet",
               "repository::Repository::<S>::init_hot": "initialises an empty hot store from an existing cold repository"}
    wall_ = SiteEffects(prog, cg, kinds=("W",))
    wall_.compute()
    wung = SiteEffects(prog, cg, kinds=("W",), site_filter=ao_filter)
    wung.compute()
    ncfg = 0
    for m in entries:
        R = [e for e in wall_.summ.get(m.path, ()) if e[1] == "Config"]
        U = {e[2] for e in wung.summ.get(m.path, ()) if e[1] == "Config"}
        for e in sorted(R, key=lambda x: x[2]):
            ncfg += 1
            if fn_key(m) in INIT_OK:
                rep.check("C15.b", f"{fn_key(m)}/{e[2]}", True, where=e[3], what=f"{fn_key(m)} writes the config file: {INIT_OK[fn_key(m)]}", nontrivial=False)
                continue
            ok = e[2] not in U
            rep.check("C15.b", f"{fn_key(m)}/{e[2]}", ok, where=e[3],
                      what=f"entry {fn_key(m)} rewrites the stored config at {e[2]} " + ("only behind the append-only guard (escape: set_append_only = Some(false))" if ok else "WITHOUT passing the append-only guard"))
    rep.floor("C15.b", "(entry, W(Config)) pairs", ncfg, 3)

    # ---- C15.a2: nothing touches storage before the guard in its frame ----------------------------
    alleff = RepoEffects(prog, cg, kinds=("W", "RM", "CREATE"))
    alleff.compute()
    for (b, g, r) in guards:
        per_site = alleff.site_eff.get(b.path, {})
        bad = [bb for bb, es in per_site.items() if es and (bb == g or C.can_reach(b, bb, g))]
        rep.check("C15.a2", f"{fn_key(b)}", not bad, where=where(b, g),
                  what=f"append-only guard in {fn_key(b)} " + ("precedes every storage effect of its frame" if not bad else
                       f"can be preceded by a storage effect at {[where(b, x) for x in bad]}"))

    # ---- C15.c dry-run ------------------------------------------------------------------------------
    dreach = {}
    dargs = {}
    full = SiteEffects(prog, cg, kinds=("W", "RM", "CREATE", "STAGE"))
    full.compute()

    def dry_filter(body, bb, es):
        if body.path not in dreach:
            da = set()
            dreach[body.path] = pathsens.reachable_under_refined(body, dry_forced, eval_expr=flag_eval("dry_run", True), dead_args_out=da)
            dargs[body.path] = da
        if bb not in dreach[body.path]:
            return set()
        # a helper that receives a Vec which is provably empty in dry-run mode (filled only under `!dry_run`) by shared
        # reference: its loops over that parameter do not run - only the effects outside them count
        for (cb, ai) in dargs.get(body.path, ()):
            if cb != bb:
                continue
            t = body.term(bb)
            H = prog.bodies.get(callee(t)) if "callee" in t else None
            if H is None:
                continue
            dead = set()
            fz = pathsens.empty_param_forcing(H, ai + 1, dead)
            if fz is None:
                continue
            hr = pathsens.reachable_under(H, lambda b_, x_: fz.get(x_))
            kept = set()
            for hb, hes in full.site_eff.get(H.path, {}).items():
                if hb in hr and hb not in dead:
                    kept |= set(hes)
            keys_kept = {e[2] for e in kept}
            return {e for e in es if e[2] in keys_kept}
        return es

    def no_dryrun_backend(body, t, target):
        # effects below DryRunBackend's own methods are decided by C15.c2
        if not RepoEffects._descend(dry, body, t, target):
            return False
        return True

    nstage = len([b for b in prog.bodies.values() if RE_STAGE.search(b.path)])
    nflush = len([b for b in prog.bodies.values() if RE_FLUSH.search(b.path)])
    rep.floor("C15.c", "staging API functions (STAGE)", nstage, 9)
    rep.floor("C15.c", "staging API functions (FLUSH)", nflush, 11)
    dry = SiteEffects(prog, cg, kinds=("W", "RM", "CREATE", "STAGE"), site_filter=dry_filter)
    dry.compute()
    # functions that read a dry_run flag (test it) - enumerated from the facts
    readers = []
    for b in prog.by_crate["rustic_core"]:
        if any(dry_forced(b, bb) is not None for bb in range(len(b.blocks))):
            readers.append(b)
    rep.floor("C15.c", "functions testing a dry_run flag", len(readers), 4)
    for b in readers:
        if is_storage_layer(b):
            continue
        F = full.summ.get(b.path, frozenset())
        D = dry.summ.get(b.path, frozenset())
        root = prog.bodies.get(b.root) if b.is_closure() else b
        for e in sorted(F, key=lambda x: x[2]):
            ok = e[2] not in {d[2] for d in D}
            rep.check("C15.c", f"{fn_key(b)}/{e[2]}", ok, where=e[3],
                      what=f"{fn_key(b)} reads a dry_run flag; storage effect {e[0]}({e[1]}) at {e[2]} is "
                           + ("unreachable when dry_run flags are true" if ok else "REACHABLE in dry-run mode"))
    # ---- C15.c2: DryRunBackend guards every effectful method, and overrides all of them -----------------
    dr_impls = [i for i in prog.impls if (i["header"].get("self_adt") or "").endswith("dry_run::DryRunBackend")]
    rep.floor("C15.c2", "impls of DryRunBackend", len(dr_impls), 3)
    need = {"backend::WriteBackend": ["create", "write_bytes", "remove"],
            "backend::decrypt::DecryptWriteBackend": ["hash_write_full"]}
    for tr, methods in need.items():
        im = [i for i in dr_impls if (i["header"].get("trait") or "").endswith(tr)]
        rep.require("C15.c2", f"impl/{tr}", len(im) == 1, what=f"DryRunBackend implements {tr}")
        if len(im) != 1:
            continue
        have = {it["name"]: it["path"] for it in im[0]["items"]}
        for mth in methods:
            ok = mth in have
            rep.require("C15.c2", f"override/{tr}::{mth}", ok, what=f"DryRunBackend overrides {mth}")
            if not ok:
                continue
            b = prog.fn(have[mth])
            F = full.site_eff.get(b.path, {})
            rr = pathsens.reachable_under(b, dry_forced, eval_expr=flag_eval("dry_run", True))
            # every forwarding call (to the inner backend's same-named effectful method) is unreachable under dry_run
            bad = []
            nfw = 0
            for bb, t in b.calls():
                if "callee" in t and (is_method_of(t, RE_WRITE_BYTES) or is_method_of(t, RE_REMOVE) or is_method_of(t, RE_CREATE)
                                      or re.search(r"DecryptWriteBackend(>)?::hash_write_full", callee_decl(t))):
                    nfw += 1
                    if bb in rr:
                        bad.append(where(b, bb))
            rep.check("C15.c2", f"guard/{tr}::{mth}", not bad and nfw >= 1, where=b.loc(),
                      what=f"DryRunBackend::{mth}: forwarding call(s) to the wrapped backend ({nfw}) " + ("unreachable when self.dry_run" if not bad else f"reachable in dry-run at {bad}"))
    # provided methods of DecryptWriteBackend reach storage only through required/overridden methods
    dwb = [t for p, t in prog.traits.items() if p.endswith("decrypt::DecryptWriteBackend")]
    if len(dwb) != 1:
        raise AnchorError("trait DecryptWriteBackend not found")
    for it in dwb[0]["items"]:
        if it["kind"] == "Fn" and it["has_default"]:
            b = prog.bodies.get(it["path"])
            if not b:
                continue
            bodies = [b] + prog.closures_of(b)
            for bd in bodies:
                for bb, t in bd.calls():
                    if "callee" not in t:
                        continue
                    prim = is_method_of(t, RE_WRITE_BYTES) or is_method_of(t, RE_REMOVE) or is_method_of(t, RE_CREATE)
                    if prim:
                        g0 = (t.get("gargs") or [""])[0]
                        ok = g0 == "Self"
                        rep.check("C15.c2", f"provided/{it['name']}/{t['cname']}", ok, where=where(bd, bb),
                                  what=f"provided method {it['name']} reaches storage through Self::{t['cname']} (overridable by DryRunBackend)")
    # wiring: a struct field named dry_run is initialised from a dry_run-named source
    nw = 0
    for b in prog.by_crate["rustic_core"]:
        for bi, blk in enumerate(b.blocks):
            for s in blk["s"]:
                if s[0] == "=" and s[2][0] == "agg" and s[2][1][0] == "adt" and "dry_run" in s[2][1][3]:
                    idx = s[2][1][3].index("dry_run")
                    op = s[2][2][idx]
                    if (b.impl or {}).get("trait", "").endswith(("Default", "Clone", "Deserialize")) or "::_::" in b.path or "_serde" in b.path or "Deserialize" in b.path:
                        continue
                    # derive-generated constructors (clap's FromArgMatches / Args / Parser, conflate's Merge) build the struct from
                    # parsed arguments, not from another dry_run flag
                    if re.search(r" as (clap|clap_builder|conflate|merge)::", b.path) or (b.impl or {}).get("trait", "").startswith(("clap", "conflate")):
                        continue
                    e = flow.expr_of(b, op)
                    src = _src_name(b, e)
                    nw += 1
                    rep.check("C15.c", f"wiring/{fn_key(b)}/{s[2][1][1]}", src == "dry_run", where=span_str(s[3]),
                              what=f"{s[2][1][1]}.dry_run initialised in {fn_key(b)} from " + (f"`{src}`" if src else "a value that is not a dry_run flag"))
    rep.count("C15.c: dry_run field initialisations", nw)
    rep.observe(f"RM(Key) reachable from {len(key_sites)} (entry,site) pairs, e.g. {key_sites[:3]}: key files are outside the statement")
    rep.observe(f"storage-layer functions excluded from entry points: {sorted(set(fn_key(b) for b in excluded))[:12]} ...")


def _src_name(b, e):
    if e[0] == "path":
        root, fields = e[1], e[2]
        if fields:
            n = fields[-1]
            if n.isdigit() and b.is_closure():
                return _upvar_name(b, int(n))
            return n
        if root[0] in ("arg", "local"):
            nm = b.local_names().get(root[1], [])
            return nm[0] if nm else None
    return None
