"""C20 - Local storage backends are exact maps and publish files atomically.

C20.a publish sequence of LocalBackend::write_bytes: open(tmp) -> set_len -> io::copy -> sync_all (each `?`) inside the
  helper, then rename(tmp, final) `?`; the helper is given the temporary name (final name + a constant suffix), the final
  name flows only into rename's target (and the post-create command); the temporary file is removed on the error path.
C20.b temporary and foreign names are never listed: the suffix contains a non-hex character; both listing functions of
  the local backend (and of the OpenDAL backend) accept an entry only if it is a file and Id::parse_some accepts its name.
  (temp name recognised through `+ "suffix"` or format!; open through OpenOptions or File::create; the result of the helper
  consumed by match, `?` or `if let Err`.) Ok is returned only after the rename; the temp file's own name is the last path
  component + non-hex suffix; a reader hitting EOF early is an error.
C20.c ranged read: seek(Start(offset)) precedes read_exact into a buffer of `length` bytes; every step is `?`-propagated.
C20.e no file-system error of the local backend is dropped (exceptions: temp-file cleanup, warn-only hook commands).
"""
import re
from rules.common import *
from rules.order import must_precede, call_pred, sites, ok_cut

TECHNIQUE = ('static analysis over rustc MIR: must-pass-through publish sequence (open tmp, set_len, copy, sync_all, rename) with `?` edges, constant-string analysis of the temporary suffix against the id parser, listing filters of sibling backends, ranged-read shape, no dropped file-system Result')
LEVEL = "other"
EXPLANATION = (
    "Ordering (must-pass-through), provenance and error-propagation rules over the MIR of rustic_backend::local and the "
    "listing functions of the OpenDAL backend. Decides the publish protocol (complete + synced before rename, temp name "
    "never listable) and the shape of ranged reads - not map semantics over operation sequences.")
NOT_DECIDED = ["map semantics of read/write/list/remove over arbitrary operation sequences (runtime)",
               "atomicity of rename(2) and durability of the directory entry (file-system semantics, trusted)"]
EXTRA_CONFIGS = []

FS_CALL = re.compile(r"^std::fs::(rename|remove_file|remove_dir_all|create_dir_all|create_dir|set_permissions|hard_link|copy|write|read|File::(sync_all|sync_data|set_len|open|create)|OpenOptions::open)$"
                     r"|^std::io::copy$|std::io::Seek(>)?::seek$|std::io::Read(>)?::read_exact$|std::io::Write(>)?::write_all$")


def const_strings(consts):
    """string literals among the constants of a slice: `str` constants and the literal pieces of format_args! templates
    (byte-string templates: maximal runs of printable ASCII)"""
    out = []
    for c in consts:
        if not isinstance(c, dict):
            continue
        if "str" in c:
            out.append(c["str"])
        elif "bytes" in c:
            run_ = ""
            for b in list(c["bytes"]) + [0]:
                if 0x20 <= b <= 0x7e:
                    run_ += chr(b)
                else:
                    if run_:
                        out.append(run_)
                    run_ = ""
    return out


def run(ctx, rep):
    prog = ctx.prog
    wiring_rule(ctx, rep, "C20")
    for r, tx in (("C20.a", "publish sequence: complete and synced temp file, then rename"), ("C20.b", "temporary/foreign names are never listed"),
                  ("C20.c", "ranged read shape"), ("C20.e", "no file-system error dropped")):
        rep.rule(r, tx)
    LB = "<rustic_backend::local::LocalBackend as rustic_core::backend::"
    W = prog.fn(LB + "WriteBackend>::write_bytes")
    H = prog.find1(r"^<rustic_backend::local::LocalBackend as rustic_core::backend::WriteBackend>::write_bytes::write_local_file$")
    # ---- C20.a: inside the helper ----------------------------------------------------------------------
    OPEN = call_pred(r"^std::fs::OpenOptions::open$|^std::fs::File::(create|create_new)$")
    SETLEN = call_pred(r"^std::fs::File::set_len$")
    COPY = call_pred(r"^std::io::copy$")
    SYNC = call_pred(r"^std::fs::File::sync_all$")
    must_precede(ctx, rep, "C20.a", "open-setlen", H, OPEN, SETLEN, what_a="open(tmp)", what_b="set_len")
    must_precede(ctx, rep, "C20.a", "open-copy", H, OPEN, COPY, what_a="open(tmp)", what_b="io::copy")
    must_precede(ctx, rep, "C20.a", "copy-sync", H, COPY, SYNC, what_a="io::copy (all bytes written)", what_b="sync_all")
    # Ok is returned only after sync_all succeeded
    sy = sites(ctx, H, SYNC)
    if sy:
        cut = []
        for s in sy:
            cut += ok_cut(H, s)[1]
        okret = [bi for bi, blk in enumerate(H.blocks) for s in blk["s"] if s[0] == "=" and s[1] == [0] and s[2][0] == "agg" and s[2][1][0] == "adt" and s[2][1][2] == "Ok"]
        reach = H.reachable_from(0, cut_edges=cut)
        rep.check("C20.a", "helper-ok-after-sync", bool(okret) and not any(b in reach for b in okret), where=H.loc(), what="write_local_file returns Ok only after a successful sync_all")
    # ---- in write_bytes -----------------------------------------------------------------------------
    HELP = call_pred(r"write_bytes::write_local_file$")
    REN = call_pred(r"^std::fs::rename$")
    hs = sites(ctx, W, HELP)
    rs = sites(ctx, W, REN)
    rep.require("C20.a", "write_bytes/helper-called", len(hs) == 1, where=W.loc(), what="write_bytes writes through write_local_file")
    rep.require("C20.a", "write_bytes/rename", len(rs) == 1, where=W.loc(), what="write_bytes publishes with fs::rename")
    if len(hs) == 1 and len(rs) == 1:
        h, r = hs[0], rs[0]
        th, tr = W.term(h), W.term(r)
        # rename reachable only through the Ok arm of the helper's result
        res = th["dest"][0]
        ok_only = False
        sw = th["to"]
        tsw = W.term(sw)
        if tsw["k"] == "switch" and any(s[0] == "=" and s[2][0] == "discr" and s[2][1][0] == res for s in W.blocks[sw]["s"]):
            okt = [x for v, x in tsw["targets"] if v == "0"]
            if not okt and any(v == "1" for v, x in tsw["targets"]):
                okt = [tsw["otherwise"]]           # `if let Err(..) = helper(..) { .. }`: everything but 1 is Ok
            if okt:
                ok_only = r not in W.reachable_from(0, cut_edges=[(sw, okt[0])])
        else:
            kind, edges = ok_cut(W, h)
            ok_only = kind == "?" and r not in W.reachable_from(0, cut_edges=edges)
        rep.check("C20.a", "write_bytes/rename-after-complete-write", ok_only, where=where(W, r), what="fs::rename is reachable only after write_local_file returned Ok (file complete and synced)" if ok_only else "fs::rename can run although the temporary file was not completely written and synced")
        kind, _ = ok_cut(W, r)
        rep.check("C20.a", "write_bytes/rename-propagated", kind in ("?", "return"), where=where(W, r), what="the result of fs::rename is `?`-propagated")
        # names: helper gets tmp name = ... + const suffix ; rename(tmp, final)
        slh = flow.backward_slice(W, op_place(th["args"][0]))
        suffix = const_strings(slh["consts"])
        slr0 = flow.backward_slice(W, op_place(tr["args"][0]))
        slr1 = flow.backward_slice(W, op_place(tr["args"][1]))
        suf0 = const_strings(slr0["consts"])
        suf1 = const_strings(slr1["consts"])
        tmpname = bool(suffix) and any(c.endswith("LocalBackend::filename") for c in slh["calls"])
        rep.check("C20.a", "write_bytes/writes-to-temp-name", tmpname and suffix == suf0 and not suf1, where=where(W, h),
                  what=f"the data is written to <final name>+{suffix!r} and rename moves exactly that name to the final name" if tmpname and suffix == suf0 and not suf1 else
                       f"the helper writes to a name that is not the temporary sibling renamed afterwards (suffix consts: write {suffix}, rename from {suf0}, to {suf1})")
        # suffix contains a non-hex character (so Id::parse_some rejects it)
        rep.check("C20.b", "temp-suffix-not-hex", bool(suffix) and all(re.search(r"[^0-9a-fA-F]", s_) for s_ in suffix), where=where(W, h), what=f"the temporary suffix {suffix!r} contains a non-hex character: a 64-hex listing filter can never accept the temporary name")
        # the final name is not opened/written directly
        finals = flow.base_local(W, op_place(tr["args"][1]))
        direct = []
        for bb, t in W.calls():
            if "callee" in t and FS_CALL.search(callee(t)) and bb != r:
                for a in t["args"]:
                    if op_place(a) and flow.base_local(W, op_place(a)) == finals:
                        direct.append(callee(t))
        rep.check("C20.a", "write_bytes/final-name-only-renamed", not direct, where=W.loc(), what="the final path is only ever the target of rename" if not direct else f"the final path is also passed to {direct}")
        # cleanup on error
        rmv = [bb for bb, t in W.calls() if "callee" in t and callee(t) == "std::fs::remove_file"]
        okc = False
        if tsw["k"] == "switch":
            errt = [x for v, x in tsw["targets"] if v == "1"] or [tsw["otherwise"]]
            okc = any(x in W.reachable_from(errt[0]) for x in rmv)
        rep.check("C20.a", "write_bytes/temp-removed-on-error", okc, where=W.loc(), what="the temporary file is removed when writing it failed")
    if len(hs) == 1 and len(rs) == 1:
        # the temporary name is a sibling whose LAST path component is <final file name> + suffix
        hl = flow.base_local(W, op_place(W.term(hs[0])["args"][0]))
        joins = [d for d in W.defs().get(hl, []) if d[0] == "call" and "callee" in d[2] and re.search(r"std::path::Path::join$|PathBuf::join$", callee(d[2]))]
        okj = False
        if len(joins) == 1:
            jt = joins[0][2]
            sl = flow.backward_slice(W, op_place(jt["args"][1])) if op_place(jt["args"][1]) else {"consts": [], "calls": set()}
            sfx = const_strings(sl["consts"])
            okj = any(c.endswith("LocalBackend::filename") for c in sl["calls"]) and bool(sfx) and all(re.search(r"[^0-9a-fA-F]", x) for x in sfx)
        rep.check("C20.b", "temp-name-last-component", okj, where=where(W, hs[0]),
                  what="the temporary file's own name (last path component) is <final name> + a non-hex suffix: no listing can accept it, wherever the walk finds it" if okj else
                       "the temporary file's own name is not <final name> + non-hex suffix (e.g. it lives in a sub-directory under a valid id name): an interrupted write leaves a LISTED partial file")
        # every successful return of write_bytes has published the file
        cut = ok_cut(W, rs[0])[1]
        okret = [bi for bi, blk in enumerate(W.blocks) for s in blk["s"] if s[0] == "=" and s[1] == [0] and s[2][0] == "agg" and s[2][1][0] == "adt" and s[2][1][2] == "Ok"]
        reach = W.reachable_from(0, cut_edges=cut)
        rep.check("C20.a", "write_bytes/ok-only-after-rename", bool(okret) and not any(b in reach for b in okret), where=W.loc(),
                  what="write_bytes returns Ok only after the rename succeeded (no shortcut that skips writing)" if okret and not any(b in reach for b in okret) else
                       "write_bytes can return Ok WITHOUT writing and renaming (e.g. an 'already exists' shortcut): the stored bytes may differ from what was written")
    # ---- C20.d the reader feeding io::copy never reports end-of-data early -----------------------------------
    BR = prog.find1(r"^<rustic_core::backend::BytesListReader as std::io::Read>::read$")
    reader_no_gap_rule(ctx, rep, "C20.d")
    inner = [(bb, t) for bb, t in BR.calls() if "callee" in t and re.search(r"std::io::Read>::read$|std::io::Read::read$", callee(t) + " " + callee_decl(t)) and "BytesListReader" not in callee(t)]
    rep.require("C20.d", "inner-reads", len(inner) >= 1, where=BR.loc(), what=f"BytesListReader::read reads from the current chunk ({len(inner)} site(s))")
    for i, (bb, t) in enumerate(inner, 1):
        d = t["dest"][0]
        if t["dest"] == [0]:
            okz = False
        else:
            aliases, _, _ = flow.forward_aliases(BR, d)
            # edges that prove 'not Ok(0)': discriminant(result) == Err, or payload != 0
            cut = []
            for sw in range(len(BR.blocks)):
                tt = BR.term(sw)
                if tt["k"] != "switch":
                    continue
                e = flow.expr_of(BR, tt["discr"])
                if e[0] == "discr" and op_local(tt["discr"]) is not None:
                    # which local is discriminated?
                    for s_ in BR.blocks[sw]["s"]:
                        if s_[0] == "=" and s_[1] == [op_local(tt["discr"])] and s_[2][0] == "discr" and s_[2][1][0] in aliases:
                            okt = [x for v, x in tt["targets"] if v == "0"]
                            cut += [(sw, x) for x in BR.succ(sw) if not okt or x != okt[0]]
                p = op_place(tt["discr"])
                if p and p[0] in aliases and any(isinstance(el, list) and el[0] == "d" and el[1] == "Ok" for el in p[1:]):
                    zero = [x for v, x in tt["targets"] if v == "0"]
                    if zero:
                        cut += [(sw, x) for x in BR.succ(sw) if x != zero[0]]
                if e[0] == "proj" and e[1][0] == "call" and e[1][3] == bb and "Ok" in e[3]:
                    zero = [x for v, x in tt["targets"] if v == "0"]
                    if zero:
                        cut += [(sw, x) for x in BR.succ(sw) if x != zero[0]]
            assigns = [bi for bi, blk in enumerate(BR.blocks) for s_ in blk["s"] if s_[0] == "=" and s_[1] == [0] and s_[2][0] == "use" and op_local(s_[2][1]) in aliases]
            # path-sensitive (a `matches!(result, Ok(0))` parked in a bool local is followed): at the switches above only the
            # edge that stays consistent with `Ok(0)` is taken
            import pathsens
            cut_by_sw = {}
            for (sw_, x_) in cut:
                cut_by_sw.setdefault(sw_, set()).add(x_)

            def forced0(b_, sw_):
                if sw_ in cut_by_sw:
                    keep = [x for x in b_.succ(sw_) if x not in cut_by_sw[sw_]]
                    return keep[0] if len(keep) == 1 else None
                return None
            reach = set(pathsens.reachable_under(BR, forced0, start_bb=t["to"])) if t.get("to") is not None else set()
            if any(len([x for x in BR.succ(sw_) if x not in xs_]) != 1 for sw_, xs_ in cut_by_sw.items()):
                reach = BR.reachable_from(t["to"], cut_edges=cut) if t.get("to") is not None else set()
            okz = not any(a in reach for a in assigns)
        rep.check("C20.d", f"no-early-eof/{i}", okz, where=where(BR, bb),
                  what="a zero-length read of the current chunk is never returned while further chunks remain (empty chunks are skipped)" if okz else
                       "the result of reading a chunk is returned unchecked: an empty chunk makes the reader report end-of-data early, and the pre-sized file is published with zeros")
    # ---- C20.a (OpenDAL adapter): Ok only after the operator's write succeeded; the bytes written are the content handed in ----
    OW = prog.bodies.get("<rustic_backend::opendal::OpenDALBackend as rustic_core::backend::WriteBackend>::write_bytes")
    if OW is None:
        rep.note("OpenDAL backend not built in this configuration")
    else:
        ws = [(bb, t) for bb, t in OW.calls() if "callee" in t and re.search(r"opendal::(blocking::)?(Blocking)?Operator::write$|Operator::write_with$", callee(t))]
        rep.require("C20.a", "opendal/write-site", len(ws) == 1, where=OW.loc(), what="the OpenDAL adapter writes through one Operator::write call")
        if len(ws) == 1:
            wb, wt = ws[0]
            kind, edges = ok_cut(OW, wb)
            okret = [bi for bi, blk in enumerate(OW.blocks) for s_ in blk["s"] if s_[0] == "=" and s_[1] == [0] and s_[2][0] == "agg" and s_[2][1][0] == "adt" and s_[2][1][2] == "Ok"]
            reach = OW.reachable_from(0, cut_edges=edges)
            oko = kind == "?" and bool(okret) and not any(b_ in reach for b_ in okret)
            rep.check("C20.a", "opendal/ok-only-after-write", oko, where=where(OW, wb), what="OpenDAL write_bytes returns Ok only after Operator::write succeeded (no 'already there' shortcut that keeps old bytes)" if oko else
                      "OpenDAL write_bytes can return Ok WITHOUT writing (shortcut before Operator::write): a rewrite of an existing id with different bytes is silently dropped")
            sl = flow.backward_slice(OW, op_place(wt["args"][2])) if len(wt["args"]) > 2 and op_place(wt["args"][2]) else {"args": set()}
            rep.check("C20.a", "opendal/writes-the-content", 5 in sl["args"], where=where(OW, wb), what="the bytes handed to Operator::write derive from the `content` parameter")
    # ---- C20.b listing filters -----------------------------------------------------------------------
    # the filter itself: Id::parse_some / <Id as FromStr>::from_str decode the WHOLE name - a name that merely starts with 64 hex
    # digits (`<id>-tmp-`, `<id>.bak`, the leftover of an interrupted write) must not parse
    PS = prog.find1(r"^rustic_core::id::Id::parse_some$")
    FS = prog.find1(r"^<rustic_core::id::Id as std::str::FromStr>::from_str$")
    TRANSP = re.compile(r"Deref>::deref$|AsRef<.*>>::as_ref$|Borrow<.*>>::borrow$|String::as_str$|convert::identity$")

    def _verbatim_param(body, op, idx):
        e = flow.expr_of(body, op)
        d = 0
        while isinstance(e, tuple) and d < 6:
            if e[0] == "path" and isinstance(e[1], tuple) and e[1] == ("arg", idx) and not e[2] and not (len(e) > 3 and [x for x in e[3] if x]):
                return True
            if e[0] in ("ref", "deref") and len(e) > 1:
                e = e[1]
            elif e[0] == "call" and TRANSP.search(e[1]) and e[2]:
                e = e[2][0]
            else:
                return False
            d += 1
        return False
    pcalls = [(bb, t) for bb, t in PS.calls() if "callee" in t and re.search(r"str>::parse$|FromStr>::from_str$|Id::from_hex$|hex::decode_to_slice$", callee(t))]
    okp = len(pcalls) >= 1 and all(_verbatim_param(PS, t["args"][0], 1) for _, t in pcalls)
    rep.check("C20.b", "parse_some/whole-name", okp, where=PS.loc(), what="Id::parse_some parses the complete entry name (its parameter, unsliced)" if okp else
              "Id::parse_some parses only a part of the entry name: a name that starts with 64 hex digits (`<id>-tmp-`, `<id>.bak`) is listed as the id")
    dcalls = [(bb, t) for bb, t in FS.calls() if "callee" in t and re.search(r"hex::decode_to_slice$|FromHex>::from_hex$|hex::decode$", callee(t))]
    okd = len(dcalls) >= 1 and all(_verbatim_param(FS, t["args"][0], 1) for _, t in dcalls)
    rep.check("C20.b", "from_str/whole-string", okd, where=FS.loc(), what="<Id as FromStr>::from_str hex-decodes the complete string into the 32-byte id (decode_to_slice fails on any other length)" if okd else
              "<Id as FromStr>::from_str decodes only a part of its argument: longer names parse as ids")
    for be, paths in (("local", [LB + "ReadBackend>::list", LB + "ReadBackend>::list_with_size"]),
                      ("opendal", ["<rustic_backend::opendal::OpenDALBackend as rustic_core::backend::ReadBackend>::list", "<rustic_backend::opendal::OpenDALBackend as rustic_core::backend::ReadBackend>::list_with_size"])):
        for p in paths:
            F = prog.bodies.get(p)
            if F is None:
                if be == "opendal":
                    rep.note(f"{p} not built in this configuration")
                    continue
                raise AnchorError(f"{p} not found")
            fam = [F] + prog.closures_of(F)
            # named (nested) fns of the same backend module used as / called from the filter closure (`fn file_id(r, tpe)`)
            modp = re.sub(r"^<([\w:]+)::\w+ as .*$", r"\1", F.path)       # e.g. rustic_backend::local
            for f_ in list(fam):
                for _, t_ in f_.calls():
                    if "callee" not in t_:
                        continue
                    cands = [callee(t_)]
                    for a_ in t_.get("args", []):
                        if a_[0] == "k" and isinstance(a_[1], dict) and "fn" in a_[1]:
                            cands.append((a_[1]["fn"].get("resolved") or {}).get("path") or a_[1]["fn"]["callee"])
                    for c_ in cands:
                        hb_ = prog.bodies.get(c_)
                        if hb_ is None or hb_ in fam:
                            continue
                        if c_.startswith(F.path + "::") or (c_.startswith(modp + "::") and c_.count("::") == modp.count("::") + 1):
                            fam += [hb_] + prog.closures_of(hb_)
            parse = [(f, bb) for f in fam for bb, t in f.calls() if "callee" in t and callee(t).endswith("rustic_core::id::Id::parse_some")]
            isfile = [(f, bb) for f in fam for bb, t in f.calls() if "callee" in t and re.search(r"::is_file$", callee(t))]
            short = p.rsplit("::", 1)[-1]
            rep.check("C20.b", f"{be}/{short}/name-filter", len(parse) >= 1, where=F.loc(), what=f"{be} {short}: entries are accepted only through Id::parse_some (64 hex characters)")
            okf = False
            for (f, bb) in isfile:
                # the false edge of is_file() leads to returning None / skipping before parse_some
                t = f.term(bb)
                sw = t["to"]
                tt = f.term(sw)
                if tt["k"] == "switch":
                    e = flow.expr_of(f, tt["discr"])
                    neg = e[0] == "un" and e[1] == "Not"
                    zero = [x for v, x in tt["targets"] if v == "0"]
                    if zero:
                        nonfile_edge = tt["otherwise"] if neg else zero[0]
                        pb = [b2 for (f2, b2) in parse if f2 is f]
                        # within the same entry: a `continue` to the next directory entry is not a path to parse_some
                        if pb and all(x not in f.reachable_from(nonfile_edge, cut_edges=C.back_edges(f)) for x in pb):
                            okf = True
            rep.check("C20.b", f"{be}/{short}/file-filter", okf, where=F.loc(), what=f"{be} {short}: non-files are skipped before the name is parsed")
    # ---- C20.c --------------------------------------------------------------------------------------
    RP = prog.fn(LB + "ReadBackend>::read_partial")
    SEEK = call_pred(r"std::io::Seek>::seek$")
    READ = call_pred(r"std::io::Read(>)?::read_exact$")
    must_precede(ctx, rep, "C20.c", "seek-read", RP, SEEK, READ, what_a="seek(Start(offset))", what_b="read_exact")
    sk = sites(ctx, RP, SEEK)
    if sk:
        t = RP.term(sk[0])
        e = flow.expr_of(RP, t["args"][1])
        okk = e[0] == "agg" and e[1][2] == "Start" and 5 in {a for a in flow.backward_slice(RP, op_place(t["args"][1]))["args"]}
        rep.check("C20.c", "seek-from-start-offset", okk, where=where(RP, sk[0]), what="the seek position is SeekFrom::Start(offset)")
    rd = sites(ctx, RP, READ)
    if rd:
        t = RP.term(rd[0])
        sl = flow.backward_slice(RP, op_place(t["args"][1]))
        rep.check("C20.c", "buffer-length", 6 in sl["args"], where=where(RP, rd[0]), what="the buffer handed to read_exact is sized by the `length` parameter")
        kind, _ = ok_cut(RP, rd[0])
        rep.check("C20.c", "read-propagated", kind in ("?", "return"), where=where(RP, rd[0]), what="a short read is an error (`?` on read_exact)")
    # ---- C20.e error propagation in the local backend ---------------------------------------------------
    from rules.errprop import classify
    EXC = [(r"write_bytes$", r"^std::fs::remove_file$", "cleanup of the temporary file on the error path; the original error is returned")]
    n = 0
    ordn = {}
    for b in prog.by_crate["rustic_backend"]:
        if "rustic_backend::local::" not in b.path:
            continue
        for bb, t in b.calls():
            if "callee" in t and FS_CALL.search(callee(t)) and t.get("dest_ty", "").startswith("std::result::Result"):
                n += 1
                kind, via = classify(b, bb)
                c = callee(t)
                k = (b.path, c)
                ordn[k] = ordn.get(k, 0) + 1
                ok = kind in ("?", "return", "handed-on")
                why = None
                if not ok:
                    for frx, crx, reason in EXC:
                        if re.search(frx, b.path) and re.search(crx, c):
                            ok, why = True, reason
                rep.check("C20.e", f"{fn_key(b)}/{c}/{ordn[k]}", ok, where=where(b, bb), what=f"{fn_key(b)}: Result of {c} is {kind}" + (f" [exception: {why}]" if why else ""))
    rep.floor("C20.e", "file-system call sites in the local backend", n, 5)


def reader_no_gap_rule(ctx, rep, R):
    """BytesListReader::read (the reader that `hash_reader` and `io::copy` consume a pack's BytesList through) never returns
    between two chunks"""
    prog = ctx.prog
    BR = prog.find1(r"^<rustic_core::backend::BytesListReader as std::io::Read>::read$")
    # evaluated: with the current chunk exhausted (inner read = Ok(0)) while another chunk remains (remaining.next() = Some),
    # read() does not return at all in that round - it must go on with the next chunk. Any return (of the inner result or of a
    # rebuilt Ok(count)) would signal end-of-data in the middle of the list.
    import pathsens

    def _is_count(x):
        return isinstance(x, tuple) and x and x[0] == "proj" and "io::Read" in repr(x[1])[:600] and "BytesListReader" not in repr(x[1])[:600] and any(v in ("Ok", "Continue") for v in (x[3] if len(x) > 3 else []))

    def _fz(body, bb):
        t = body.term(bb)
        if t["k"] != "switch":
            return None
        e = flow.expr_of(body, t["discr"], bb)
        if e[0] == "path" and e[1][0] == "local" and not e[2]:
            for s_ in body.blocks[bb]["s"]:
                if s_[0] == "=" and s_[1] == [e[1][1]] and s_[2][0] == "discr":
                    e = ("discr", flow.place_expr(body, s_[2][1]), s_[2][2])
        if e[0] == "discr":
            txt = repr(e[1])
            ty = str(e[2]) if len(e) > 2 else ""
            if "Option<" in ty and "Iterator>::next" in txt:
                tg = [x for v, x in t["targets"] if v == "1"]
                return tg[0] if tg else t["otherwise"]
            if ("Result<usize" in ty or "ControlFlow<" in ty) and "io::Read" in txt and "BytesListReader" not in txt:
                tg = [x for v, x in t["targets"] if v == "0"]
                return tg[0] if tg else None
            return None
        if t["discr_ty"] == "usize" and _is_count(e):
            tg = [x for v, x in t["targets"] if v == "0"]
            return tg[0] if tg else t["otherwise"]
        return None
    ev_ = num_eval([(_is_count, 0), (lambda x: isinstance(x, tuple) and x and x[0] == "call" and x[1].endswith("::len"), 4096)])

    def _fz2(body, bb):
        r_ = _fz(body, bb)
        if r_ is not None:
            return r_
        t = body.term(bb)
        if t["k"] == "switch" and t["discr_ty"] == "bool":
            e = flow.expr_of(body, t["discr"], bb)
            neg = False
            while e[0] == "un" and e[1] == "Not":
                neg = not neg
                e = e[2]
            v = ev_(body, e)
            if isinstance(v, bool):
                zero = [x for vv, x in t["targets"] if vv == "0"]
                return (t["otherwise"] if (v != neg) else zero[0]) if zero else None
        return None
    r_mid = pathsens.reachable_under(BR, _fz2, eval_expr=lambda b_, e_: ev_(b_, e_))
    rets_mid = [bi for bi in r_mid if any(s_[0] == "=" and s_[1] == [0] for s_ in BR.blocks[bi]["s"]) or (BR.term(bi)["k"] == "call" and BR.term(bi).get("dest") == [0])]
    rep.check(R, "no-return-between-chunks", not rets_mid, where=BR.loc(), what="BytesListReader::read never returns in a round where the current chunk gave 0 bytes while another chunk remains" if not rets_mid else
              "BytesListReader::read can return (Ok(0)) although further chunks remain - when a chunk ends exactly at the caller's buffer boundary the stream looks finished: hashes cover a prefix, copies are truncated")
