"""Repository-specific tables shared by several properties: the storage-effect API of rustic_core
and helpers to recognise guards. Everything is keyed on resolved definitions, fields and constants."""
import re
import sys, os
sys.path.insert(0, os.path.join(os.path.dirname(os.path.dirname(os.path.abspath(__file__))), "engine"))

from facts import callee, callee_decl, op_place, op_local, span_str, AnchorError, place_fields, place_has_field, fmt_place, const_val, is_const
from callgraph import Effects, strip_crate
import flow
import cfg as C

# ---- the storage-effect API (confirmed by reading crates/core/src/backend.rs, backend/decrypt.rs) -----------
_WB = r"(?:^|[< ])(?:rustic_core::)?backend::WriteBackend(?:>)?::"
_RB = r"(?:^|[< ])(?:rustic_core::)?backend::ReadBackend(?:>)?::"
RE_WRITE_BYTES = re.compile(_WB + r"write_bytes$")
RE_REMOVE = re.compile(_WB + r"remove$")
RE_CREATE = re.compile(_WB + r"create$")
RE_READ_FULL = re.compile(_RB + r"read_full$")
RE_READ_PARTIAL = re.compile(_RB + r"read_partial$")
RE_LIST = re.compile(_RB + r"(list|list_with_size)$")
RE_WARMUP = re.compile(_RB + r"warm_up$")


def is_method_of(t, rx):
    """call terminator t invokes (an impl of) the trait method matched by rx"""
    if rx.search(strip_qual(callee_decl(t))):
        return True
    r = t.get("resolved")
    if r and rx.search(strip_qual(r["path"])):
        return True
    return False


def strip_qual(p):
    return p


FILETYPE_ADT = "backend::FileType"


class RepoEffects(Effects):
    """W/RM/R effects on repository storage with symbolic file types."""

    def __init__(self, prog, cg, site_filter=None, kinds=("W", "RM", "CREATE"), descend=None):
        self.kinds = set(kinds)
        super().__init__(prog, cg, self._prim, site_filter=site_filter, descend=descend or self._descend, type_const=self._type_const)

    # primitive sites: calls of WriteBackend::{write_bytes,remove,create} (trait or any impl)
    def _prim(self, body, bb, t):
        out = []
        if "callee" not in t:
            return out
        if "W" in self.kinds and is_method_of(t, RE_WRITE_BYTES):
            out.append(("W", self.tpe_of_operand(body, t["args"][1])))
        if "RM" in self.kinds and is_method_of(t, RE_REMOVE):
            out.append(("RM", self.tpe_of_operand(body, t["args"][1])))
        if "CREATE" in self.kinds and is_method_of(t, RE_CREATE):
            out.append(("CREATE", "-"))
        if "R" in self.kinds and (is_method_of(t, RE_READ_FULL) or is_method_of(t, RE_READ_PARTIAL)):
            out.append(("R", self.tpe_of_operand(body, t["args"][1])))
        if "LIST" in self.kinds and is_method_of(t, RE_LIST):
            out.append(("LIST", self.tpe_of_operand(body, t["args"][1])))
        return out

    def _descend(self, body, t, target):
        # do not descend below the backend interface: an impl of WriteBackend/ReadBackend methods is a primitive
        im = target.impl
        if im and im.get("trait", "").endswith(("backend::WriteBackend", "backend::ReadBackend")):
            return False
        return True

    def _type_const(self, tyname, cpath):
        # cpath like 'rustic_core::repofile::RepoId::TYPE' ; tyname like 'repofile::snapshotfile::SnapshotId'
        trait = cpath.rsplit("::", 1)[0]
        cname = cpath.rsplit("::", 1)[1]
        want = f"<rustic_core::{tyname} as {trait}>::{cname}"
        c = self.prog.consts.get(want)
        if c is None or c.get("val") is None:
            return None
        return self.prog.variant_by_discr(FILETYPE_ADT, c["val"])

    def tpe_of_operand(self, body, op):
        if op[0] == "k":
            c = op[1]
            if c.get("v") is not None and isinstance(c["v"], int) and c["ty"].endswith("FileType"):
                return self.prog.variant_by_discr(FILETYPE_ADT, c["v"])
            if "item" in c and c["item"].endswith("::TYPE"):
                ga = c.get("item_gargs") or []
                if ga:
                    return self.resolve_generic(body, ga[0], c["item"])
            return "*"
        e = flow.expr_of(body, op)
        return self._tpe_of_expr(body, e)

    def _tpe_of_expr(self, body, e):
        if e[0] == "const":
            if isinstance(e[1], int):
                return self.prog.variant_by_discr(FILETYPE_ADT, e[1])
            if isinstance(e[1], str) and e[1].endswith("::TYPE"):
                return "*"
            return "*"
        if e[0] == "path":
            root, fields = e[1], e[2]
            if root[0] == "arg" and not fields:
                if body.is_closure() and root[1] == 1:
                    return "*"
                return ("p", root[1])
            if root[0] == "arg" and body.is_closure() and root[1] == 1 and len(fields) == 1 and fields[0].isdigit():
                return ("up", int(fields[0]))
            return "*"
        if e[0] == "agg" and e[1][0] == "adt" and e[1][1].endswith("backend::FileType"):
            return e[1][2]
        if e[0] == "phi":
            vals = {self._tpe_of_expr(body, s) for s in e[2]}
            if len(vals) == 1:
                return vals.pop()
            return "*"
        return "*"


# ---- staging API of packer/indexer (confirmed by reading blob/packer.rs, index/indexer.rs) --------------------
# STAGE: hands data to a packer/indexer; it reaches storage at the latest at the matching finalize.
# FLUSH: writes only what was staged before (Packer::new spawns the pipeline that drains the channel).
RE_STAGE = re.compile(r"^rustic_core::(blob::packer::(Packer::<BE>::(add|add_raw)|RawPacker::<BE>::add_raw|BlobCopier::<BE>::(copy|copy_fast)|Actor::send)"
                      r"|index::indexer::Indexer::<BE>::(add|add_with|add_remove))$")
RE_FLUSH = re.compile(r"^rustic_core::(blob::packer::(Packer::<BE>::(new|finalize)|RawPacker::<BE>::(finalize|save|new)|BlobCopier::<BE>::(new|finalize)|Actor::(new|finalize))"
                      r"|index::indexer::Indexer::<BE>::(finalize|save))$")


class StagedEffects(RepoEffects):
    """like RepoEffects, but the packer/indexer API is a boundary: STAGE(kind) at add sites, nothing at flush sites"""

    def _prim(self, body, bb, t):
        out = super()._prim(body, bb, t)
        if "callee" in t and "STAGE" in self.kinds:
            c = callee(t)
            if RE_STAGE.search(c):
                out.append(("STAGE", "Index" if "indexer" in c else "Pack"))
        return out

    def _descend(self, body, t, target):
        if RE_STAGE.search(target.path) or RE_FLUSH.search(target.path):
            return False
        return RepoEffects._descend(self, body, t, target)


# ---- guards ---------------------------------------------------------------------------------

def _ao_path(x):
    """expression is a read of a field named append_only (ConfigFile.append_only reached through any access path)"""
    return x[0] in ("path", "proj") and bool(x[2]) and x[2][-1] == "append_only" and not (len(x) > 3 and x[3] and "Some" in x[3])


def _ao_payload(x):
    """expression is the payload of `Some` of such a field: (<..>.append_only as Some).0"""
    return x[0] in ("path", "proj") and len(x[2]) >= 2 and x[2][-2] == "append_only" and x[2][-1] == "0" and len(x) > 3 and "Some" in (x[3] or [])


def _opt_bool_const(x):
    """promoted / aggregate Option<bool> constant -> ('Some', b) | ('None',) | None"""
    v = x[2] if x[0] == "promoted" else (x if x[0] == "agg" else None)
    if x[0] == "promoted" and v and v[0] == "adt":
        if v[2] == "Some" and v[3] and v[3][0][0] == "const":
            return ("Some", v[3][0][1])
        if v[2] == "None":
            return ("None",)
    return None


AO_PREDICATES = {}   # fn path -> bool value it returns when append_only == Some(true) (filled by C15.compute_ao_helpers)


def eval_under_append_only(e):
    """value of expression e (a tree from flow.expr_of) when the append_only field it reads is Some(true); None if e is
    not a function of that field alone. Covers the idioms `x == Some(true)`, `x != ..`, `if let Some(true) = x`,
    `matches!(x, Some(true))`, `x.unwrap_or(c)`, `x.unwrap_or_default()`, `x.is_some()`, `x.is_none()`, `x == None`."""
    if e[0] == "un" and e[1] == "Not":
        v = eval_under_append_only(e[2])
        return None if v is None else (not v)
    if e[0] == "discr" and _ao_path(e[1]):
        return 1                      # discriminant of Some
    if _ao_payload(e):
        return True
    if e[0] == "call" and e[1] in AO_PREDICATES:
        return AO_PREDICATES[e[1]]
    if e[0] == "call":
        c, args = e[1], e[2]
        m = re.search(r"PartialEq(>)?::(eq|ne)$", c)
        if m and len(args) == 2:
            for a, b in ((args[0], args[1]), (args[1], args[0])):
                k = _opt_bool_const(b)
                if _ao_path(a) and k is not None:
                    r = (k == ("Some", True))
                    return r if m.group(2) == "eq" else (not r)
            return None
        if args and _ao_path(args[0]):
            if re.search(r"Option::<T>::unwrap_or$", c) or re.search(r"Option::<T>::unwrap_or_default$", c) or re.search(r"Option::<T>::is_some$", c):
                return True
            if re.search(r"Option::<T>::is_none$", c):
                return False
    return None


def append_only_successor(body, bb):
    """if block bb ends in a switch decided by the value of an append_only field, the successor taken when that field
    is Some(true); else None"""
    t = body.term(bb)
    if t["k"] != "switch":
        return None
    e = flow.expr_of(body, t["discr"], bb)
    if e[0] == "path" and e[1][0] == "local" and not e[2]:
        # discriminant local computed in this block: `_d = discriminant(place)`
        for s in body.blocks[bb]["s"]:
            if s[0] == "=" and s[1] == [e[1][1]] and s[2][0] == "discr":
                e = ("discr", flow.place_expr(body, s[2][1]))
    v = eval_under_append_only(e)
    if v is None:
        return None
    iv = int(v)
    for val, x in t["targets"]:
        if str(val) == str(iv):
            return x
    return t["otherwise"]


def is_append_only_test(body, bb):
    """block bb ends in a switch decided by an append_only field; returns (successor when it is Some(true), another
    successor) or None"""
    s = append_only_successor(body, bb)
    if s is None:
        return None
    others = [x for x in body.succ(bb) if x != s]
    return (s, others[0] if others else s)


def returns_err_only(body, start, limit=60):
    """every path from block `start` reaches `return` with _0 = Err(..) (or diverges) without calls that have
    storage effects; returns True if all paths assign Result::Err to _0 before returning"""
    # explore; path must contain an `_0 = Result::Err{..}` assignment and no other _0 assignment
    seen = set()
    work = [(start, False)]
    n = 0
    while work:
        bb, has_err = work.pop()
        n += 1
        if n > 4000:
            return False
        if (bb, has_err) in seen:
            continue
        seen.add((bb, has_err))
        b = body.blocks[bb]
        for s in b["s"]:
            if s[0] == "=" and s[1] == [0]:
                rv = s[2]
                if rv[0] == "agg" and rv[1][0] == "adt" and rv[1][1].endswith("result::Result") and rv[1][2] == "Err":
                    has_err = True
                else:
                    return False
        t = b["t"]
        if t["k"] == "return":
            if not has_err:
                return False
            continue
        if t["k"] == "call" and t["dest"] == [0] and flow.FROM_RESIDUAL.search(callee(t)):
            has_err = True
        for s in body.succ(bb):
            work.append((s, has_err))
    return True


def field_bool_test(body, bb, field, owner_suffix=None):
    """switch in bb tests a bool read of a field named `field` (copy of <path>.field); returns
    (true_target, false_target) or None. Handles `!x`."""
    t = body.term(bb)
    if t["k"] != "switch" or t["discr_ty"] != "bool":
        return None
    e = flow.expr_of(body, t["discr"])
    neg = False
    while e[0] == "un" and e[1] == "Not":
        neg = not neg
        e = e[2]
    if e[0] == "path" and e[2] and e[2][-1] == field:
        zero = None
        for v, x in t["targets"]:
            if v == "0":
                zero = x
        other = t["otherwise"]
        if zero is None:
            return None
        return (other, zero) if not neg else (zero, other)
    return None


def fn_key(body):
    """position-free name of a body for keys"""
    return strip_crate(body.path)


def where(body, bb=None):
    if bb is None:
        return body.loc()
    t = body.term(bb)
    sp = t.get("span")
    if sp:
        return span_str(sp)
    return body.loc()


def upvar_name(body, idx):
    """source name of closure capture idx; precise captures are named `a__b__field`"""
    for n, p in body.dbg:
        if isinstance(p, list) and p[0] == 1 and any(isinstance(e, list) and e[0] == "f" and e[1] == idx for e in p[1:]):
            return n
    return None


def cond_name(body, e):
    """the option/flag name a (possibly negated) bool expression reads: last field name, parameter/local debug name,
    or the last component of a captured variable's name. Returns (name, negated) or (None, False)"""
    neg = False
    while e[0] == "un" and e[1] == "Not":
        e = e[2]
        neg = not neg
    if e[0] == "phi" and isinstance(e[1], int):
        # a mutable bool local assigned on several paths (`let mut changed = false; .. changed = true; .. if changed`)
        ns = body.local_names().get(e[1], [])
        return (ns[0].split("__")[-1] if ns else None), neg
    if e[0] != "path":
        return None, neg
    root, fields = e[1], e[2]
    if fields:
        last = fields[-1]
        if not last.isdigit():
            return last, neg
        if body.is_closure() and root == ("arg", 1) and fields[0].isdigit():
            n = upvar_name(body, int(fields[0]))
            return (n.split("__")[-1] if n else None), neg
        return None, neg
    if root[0] in ("arg", "local"):
        ns = body.local_names().get(root[1], [])
        return (ns[0].split("__")[-1] if ns else None), neg
    return None, neg


def flag_eval(flag, val):
    """expression evaluator for pathsens.reachable_under: the value of a bool expression that is (the negation of) a
    read of the flag named `flag`, under the assumption flag == val; None for anything else"""
    def ev(body, e):
        nm, neg = cond_name(body, e)
        if nm != flag:
            return None
        return val != neg
    return ev


def force_flag(flag, val):
    """forced-successor function for pathsens: switches on the bool flag named `flag` take the edge for `val`"""
    def fz(body, sw):
        tt = body.term(sw)
        if tt["k"] != "switch" or tt["discr_ty"] != "bool":
            return None
        nm, neg = cond_name(body, flow.expr_of(body, tt["discr"]))
        if nm != flag:
            return None
        zero = [x for v, x in tt["targets"] if v == "0"]
        if not zero:
            return None
        want_true = (val != neg)
        return tt["otherwise"] if want_true else zero[0]
    return fz


def only_via(body, target_bb, pred, val, from_bb=0, within=None):
    """every path from from_bb to target_bb takes, at some switch whose condition expression satisfies pred, the edge on
    which that condition has the value `val` (bool: truth value through `!`; str: the switch value, e.g. "0").
    Decided by cutting those edges: the target must become unreachable. `within`: only switches in these blocks."""
    cut = []
    for sw in (within if within is not None else range(len(body.blocks))):
        t = body.term(sw)
        if t["k"] != "switch":
            continue
        x = flow.expr_of(body, t["discr"], sw)
        if x[0] == "path" and x[1][0] == "local" and not x[2]:
            for s_ in body.blocks[sw]["s"]:
                if s_[0] == "=" and s_[1] == [x[1][1]] and s_[2][0] == "discr":
                    x = ("discr", flow.place_expr(body, s_[2][1]))
        neg = False
        while x[0] == "un" and x[1] == "Not":
            x = x[2]
            neg = not neg
        if not pred(x):
            continue
        if isinstance(val, bool):
            zero = [y for v, y in t["targets"] if v == "0"]
            if not zero:
                continue
            want_true = (val != neg)
            cut.append((sw, t["otherwise"] if want_true else zero[0]))
        else:
            tg = [y for v, y in t["targets"] if v == val]
            cut.append((sw, tg[0] if tg else t["otherwise"]))
    return bool(cut) and target_bb not in body.reachable_from(from_bb, cut_edges=cut)


def swapped_args(prog, body, bb, t):
    """generic argument-wiring lint for one call: arguments that are reads of fields / named locals whose name equals
    the name of ANOTHER parameter of the callee while their own position's parameter name is also among the argument
    names (two same-typed arguments crossed). Returns list of (position, argument name, parameter name)."""
    if "callee" not in t:
        return []
    tb = prog.bodies.get(callee(t))
    if tb is None:
        return []
    pn = {}
    for i in range(1, tb.argc + 1):
        ns = tb.local_names().get(i, [])
        if ns:
            pn[i] = ns[0]
    names = {}
    for i, a in enumerate(t["args"], 1):
        e = flow.expr_of(body, a, bb)
        nm, neg = cond_name(body, e)
        if nm and not neg:
            names[i] = nm
    out = []
    for i, an in names.items():
        if i in pn and pn[i] != an and an in pn.values():
            j = [k for k, v in pn.items() if v == an][0]
            if names.get(j) == pn[i] and tb.locals[i] == tb.locals[j]:
                out.append((i, an, pn[i]))
    return out


WIRING_MODULES = {
    "C01": r"::backend::(ignore|node|local_destination|stdin|childstdout)|::vfs",
    "C02": r"::commands::(prune|forget)::",
    "C04": r"::crypto::|::backend::decrypt::|::repofile::keyfile::|::commands::key::",
    "C05": r"::commands::check::",
    "C06": r"::chunker::",
    "C08": r"::blob::packer::|::repofile::packfile::|::index::indexer::",
    "C09": r"::commands::forget::|::repofile::snapshotfile::",
    "C11": r"::archiver::|::commands::backup::",
    "C12": r"::commands::(copy|merge|rewrite|repair)|::blob::tree::(modify|rewrite)|::blob::tree::merge",
    "C14": r"::commands::restore::|::backend::local_destination::",
    "C16": r"::backend::hotcold::|::commands::repair::hotcold::|::backend::warm_up::",
    "C17": r"::index::",
    "C18": r"::commands::(config|init)::|::repofile::configfile::",
    "C19": r"::backend::cache::",
    "C20": r"^rustic_backend::",
}


def wiring_rule(ctx, rep, prop):
    """R-WIRING: no call INTO the modules behind this property passes two same-typed arguments crossed (a field or
    variable named like parameter j in position i and vice versa) - e.g. (ignore_inode, ignore_ctime) swapped."""
    prog = ctx.prog
    rx = re.compile(WIRING_MODULES[prop])
    rule = f"{prop}.w"
    rep.rule(rule, "arguments are passed to the parameters of the same name (no crossed same-typed arguments)")
    n = 0
    for b in prog.by_crate["rustic_core"] + prog.by_crate.get("rustic_backend", []):
        for bb, t in b.calls():
            if "callee" not in t or callee(t) not in prog.bodies or not rx.search(callee(t)):
                continue
            n += 1
            sw = swapped_args(prog, b, bb, t)
            if sw:
                rep.check(rule, f"{fn_key(b)}/{strip_crate(callee(t))}", False, where=where(b, bb),
                          what=f"{fn_key(b)}: arguments crossed in the call of {strip_crate(callee(t))}: " + "; ".join(f"`{a}` is passed for parameter `{p_}`" for i, a, p_ in sw))
    rep.check(rule, "call-sites-examined", n > 0, where="", what=f"{n} call sites into the property's modules examined for crossed arguments", nontrivial=False)


def range_bounds(r):
    """(lo, hi, inclusive) of a range expression with constant bounds: a promoted / aggregate Range*, RangeInclusive::new(a, b)"""
    def ints(xs):
        return len(xs) == 2 and all(x[0] == "const" and isinstance(x[1], int) and not isinstance(x[1], bool) for x in xs)
    if not isinstance(r, tuple) or not r:
        return None
    if r[0] == "promoted" and isinstance(r[2], tuple) and r[2][0] == "adt" and "Range" in r[2][1] and ints(r[2][3]):
        return r[2][3][0][1], r[2][3][1][1], "Inclusive" in r[2][1]
    if r[0] == "agg" and ints(r[2]) and "Range" in repr(r[1]):
        return r[2][0][1], r[2][1][1], "Inclusive" in repr(r[1])
    if r[0] == "call" and r[1].endswith("RangeInclusive::<Idx>::new") and ints(r[2]):
        return r[2][0][1], r[2][1][1], True
    return None


def num_eval(assign):
    """evaluator for pathsens: comparisons between the integer variables named by `assign` ([(is_var(expr) -> bool, value)]),
    integer constants, `Range/RangeInclusive::contains(&var)` with constant bounds and the bounds (`start()`/`end()`) of such
    ranges are computed; anything else is open"""
    def val_of(x):
        if x[0] == "const" and isinstance(x[1], int) and not isinstance(x[1], bool):
            return x[1]
        if x[0] == "cast" and len(x) > 2:
            return val_of(x[2]) if isinstance(x[2], tuple) else None
        if x[0] == "call" and re.search(r"RangeInclusive::<Idx>::(start|end)$", x[1]) and x[2]:
            rb = range_bounds(x[2][0])
            if rb is not None:
                return rb[0] if x[1].endswith("start") else rb[1]
        for is_var, v in assign:
            if is_var(x):
                return v
        return None

    def ev(body, e):
        if not isinstance(e, tuple) or not e:
            return None
        if e[0] == "call" and re.search(r"ops::Range(Inclusive)?::<Idx>::contains$|RangeInclusive<.*>::contains$|Range<.*>::contains$", e[1]) and len(e[2]) == 2:
            v = val_of(e[2][1])
            rb = range_bounds(e[2][0])
            if v is None or rb is None:
                return None
            lo, hi, incl = rb
            incl = incl or "Inclusive" in e[1]
            return (lo <= v <= hi) if incl else (lo <= v < hi)
        if e[0] == "bin" and e[1] in ("Gt", "Ge", "Lt", "Le", "Eq", "Ne"):
            a, c = val_of(e[2]), val_of(e[3])
            if a is None or c is None:
                return None
            # at least one side must be a variable (constant folding of unrelated tests is not our business)
            if e[2][0] == "const" and e[3][0] == "const":
                return None
            return {"Gt": a > c, "Ge": a >= c, "Lt": a < c, "Le": a <= c, "Eq": a == c, "Ne": a != c}[e[1]]
        return None
    return ev


def reachable_eval(prog, body, ev, depth=2, actual=None, caller=None):
    """blocks of `body` reachable when every bool condition that ev(body, expr) decides is fixed, bool locals are tracked
    (pathsens), and a `?` on the Result of a crate-local helper is decided by evaluating the helper the same way with the
    call's arguments substituted (Ok only -> continue edge, Err only -> break edge). `actual`/`caller`: when evaluating a
    helper, its parameter paths are rewritten to the caller's argument expressions before ev sees them."""
    import pathsens
    top = caller or body

    def ev2(b, e):
        neg = False
        while isinstance(e, tuple) and e and e[0] == "un" and e[1] == "Not":
            neg = not neg
            e = e[2]
        if actual is not None:
            e = flow.subst_args(e, actual)
        v = ev(top, e)
        return (v != neg) if isinstance(v, bool) else None

    def forced(b, bb):
        t = b.term(bb)
        if t["k"] != "switch":
            return None
        e = flow.expr_of(b, t["discr"], bb)
        if t["discr_ty"] == "bool":
            v = ev2(b, e)
            if v is None:
                return None
            zero = [x for vv, x in t["targets"] if vv == "0"]
            return (t["otherwise"] if v else zero[0]) if zero else None
        if depth > 0 and e[0] == "discr" and isinstance(e[1], tuple) and e[1][0] == "call" and e[1][1].endswith("ops::Try>::branch") and e[1][2] \
                and isinstance(e[1][2][0], tuple) and e[1][2][0][0] == "call":
            h = e[1][2][0]
            H = prog.bodies.get(h[1])
            if H is None or not h[1].startswith("rustic_core::") or not (H.locals and H.locals[0].startswith("std::result::Result")):
                return None
            args = [flow.subst_args(a, actual) if actual is not None else a for a in h[2]]
            out = result_outcomes(prog, H, ev, depth - 1, args, top)
            if out == {"Ok"}:
                tg = [x for vv, x in t["targets"] if vv == "0"]
                return tg[0] if tg else None
            if out == {"Err"}:
                tg = [x for vv, x in t["targets"] if vv == "1"]
                return tg[0] if tg else t["otherwise"]
        return None
    return pathsens.reachable_under(body, forced, eval_expr=ev2)


def result_outcomes(prog, H, ev, depth, actual, caller):
    """{'Ok','Err'} subsets: how the Result-returning helper H can end when its conditions are decided by ev"""
    reach = reachable_eval(prog, H, ev, depth, actual, caller)
    out = set()
    for bb in reach:
        blk = H.blocks[bb]
        for s_ in blk["s"]:
            if s_[0] == "=" and s_[1] == [0]:
                rv = s_[2]
                if rv[0] == "agg" and rv[1][0] == "adt" and rv[1][1] == "std::result::Result":
                    out.add(rv[1][2])
                else:
                    out |= {"Ok", "Err"}
        t = blk["t"]
        if t["k"] == "call" and t.get("dest") == [0]:
            if "callee" in t and re.search(r"FromResidual<.*>>::from_residual$", callee(t)):
                out.add("Err")
            else:
                out |= {"Ok", "Err"}
    return out


def reachable_with_value(body, is_var, value, ty_hint=None, prog=None):
    """blocks reachable from the entry when every comparison `v OP const` / `const OP v` / constant-range `contains(&v)` whose
    variable operand satisfies is_var(expr) is decided for v = value (other branches stay open); used to evaluate a guard for
    sample values instead of matching its spelling (`p > 100` vs `p >= 101` vs `(1..100).contains(&p)`)."""
    return reachable_eval(prog, body, num_eval([(is_var, value)]), depth=2 if prog is not None else 0)


def simplify_proj(e):
    """`(a, b).0` -> a: projections of a tuple aggregate built in the same body (``if let (Some(x), Some(y)) = (p, q)``)"""
    while isinstance(e, tuple) and e and e[0] == "proj" and isinstance(e[1], tuple) and e[1][0] == "agg" and e[1][1] and e[1][1][0] == "tuple" \
            and e[2] and str(e[2][0]).isdigit() and int(e[2][0]) < len(e[1][2]):
        e = e[1][2][int(e[2][0])]
    return e


def expr_roots(body, e):
    """the access-path roots an expression reads: (('arg', i), capture index for closure environments)"""
    out = set()

    def walk(x):
        if isinstance(x, tuple):
            if x and x[0] == "path" and isinstance(x[1], tuple):
                first = x[2][0] if (x[2] and body.is_closure() and x[1] == ("arg", 1)) else None
                out.add((x[1], first))
                return
            for y in x:
                walk(y)
        elif isinstance(x, list):
            for y in x:
                walk(y)
    walk(e)
    return out


def bool_result_under(body, ev, force_extra=None):
    """the values the bool result `_0` of `body` can take when every condition / assigned expression that `ev(body, expr)`
    decides (-> True/False, None = open) is fixed: a subset of {True, False, 'open'}. `force_extra(body, bb)` may force
    further (non-bool) switches. Used to evaluate a predicate under an assumption ("the sizes differ") instead of
    matching the spelling of its conjunction."""
    import pathsens

    def ev2(b, e):
        neg = False
        while isinstance(e, tuple) and e and e[0] == "un" and e[1] == "Not":
            neg = not neg
            e = e[2]
        v = ev(b, e)
        if isinstance(v, bool):
            return v != neg
        return None

    def forced(b, bb):
        if force_extra is not None:
            f = force_extra(b, bb)
            if f is not None:
                return f
        t = b.term(bb)
        if t["k"] != "switch" or t["discr_ty"] != "bool":
            return None
        v = ev2(b, flow.expr_of(b, t["discr"], bb))
        if v is None:
            return None
        zero = [x for vv, x in t["targets"] if vv == "0"]
        if not zero:
            return None
        return t["otherwise"] if v else zero[0]
    reach = pathsens.reachable_under(body, forced, eval_expr=ev2)
    vals = set()
    for bb in reach:
        blk = body.blocks[bb]
        for s in blk["s"]:
            if s[0] == "=" and s[1] == [0]:
                rv = s[2]
                if rv[0] == "use" and rv[1][0] == "k" and isinstance(rv[1][1].get("v"), bool):
                    vals.add(rv[1][1]["v"])
                    continue
                try:
                    v = ev2(body, flow._rv_expr(body, rv, bb, 0, set()))
                except Exception:
                    v = None
                vals.add(v if isinstance(v, bool) else "open")
        t = blk["t"]
        if t["k"] == "call" and t.get("dest") == [0]:
            v = None
            if "callee" in t:
                try:
                    v = ev2(body, ("call", callee(t), [flow.expr_of(body, a, bb) for a in t["args"]], bb))
                except Exception:
                    v = None
            vals.add(v if isinstance(v, bool) else "open")
    return vals


def field_cmp_eval(field, equal):
    """evaluator: a comparison (`==`/`!=`, PartialEq::eq/ne) of `field` read from two DIFFERENT roots has the value it
    has when the two fields are equal / differ"""
    tag = f"'{field}'"

    def ev(body, e):
        if not isinstance(e, tuple) or not e:
            return None
        if e[0] == "bin" and e[1] in ("Eq", "Ne"):
            a, b, is_eq = e[2], e[3], e[1] == "Eq"
        elif e[0] == "call" and re.search(r"PartialEq(<.*>)?(>)?::(eq|ne)$", e[1]) and len(e[2]) == 2:
            a, b, is_eq = e[2][0], e[2][1], e[1].endswith("::eq")
        else:
            return None
        a, b = simplify_proj(a), simplify_proj(b)
        if tag not in repr(a) or tag not in repr(b):
            return None
        ra, rb = expr_roots(body, a), expr_roots(body, b)
        if ra and rb and ra == rb:
            return None
        return is_eq == equal
    return ev
