"""C17 - The in-memory index answers exactly what the index files say.

C17.a sorted-by-the-searched-key: every binary search on the index vectors uses the key projection `id`; the only
  constructors of a searchable TypeIndex sort by that same projection before constructing it (into_index) or keep
  vectors as they are / empty (drop_data); the by-pack ordering exists only inside PackIndexes, which is never searched.
C17.b type partition: entries are inserted into and looked up from the bucket of the same BlobType; get_id returns the
  pack from the same bucket.
C17.c only unmarked packs feed an index (shared with C10.a).
C17.d totals: total_size grows by the pack size once per extended pack.
C17.g checked / repaired index: PackChecker::check_pack strikes every listed pack (marked for deletion or not) off the set of
  existing-but-unindexed packs, in every loop iteration - otherwise marked packs are re-read and indexed as live.
C17.f an unreadable index file fails the construction of the index (no partial index): items of stream_all are
  propagated (R-ERRITER item rule, shared with C05.f).
C17.e reduced modes: Ids answers has() but never get_id(); None answers neither.
Witness (thorough tier): Repository<IndexedIdsStatus>::get_index_entry does not type-check.
C17.h every entry is filed under the blob's OWN type (D23, known finding): the EnumMap bucket selected right in front of the push
  of an entry is indexed by the blob's `tpe`, not by the pack-level IndexPack::blob_type() - index files may list mixed packs.
"""
import re
from rules.common import *

TECHNIQUE = ('static analysis over rustc MIR: per-mode evaluation (forcing the EntriesVariants discriminant) of get_id/has, sort-before-search and bucket-by-type provenance, every-iteration accumulation rules, read-error propagation; type-level witness crate (compile_fail doctests with compiling twins) in the thorough tier')
LEVEL = "other"
EXPLANATION = (
    "Structure rules over index/binarysorted.rs and the call sites of IndexCollector::extend: key projection of sort and "
    "search closures, dominance of the sort over the construction of a searchable index, the BlobType bucket used for "
    "insertion and lookup, and which index-file list feeds each collector. Decides that binary search is applied to "
    "vectors sorted by the searched key and partitioned by type, fed from unmarked packs - not the answers for arbitrary "
    "index sets.")
NOT_DECIDED = ["answers for arbitrary sets of index files (runtime)", "choice among duplicate listings of one blob"]


def key_field_of_closure(c):
    """field name returned by a key-projection closure `|e| e.f`"""
    for blk in c.blocks:
        for s in blk["s"]:
            if s[0] == "=" and s[1] == [0] and s[2][0] == "use" and op_place(s[2][1]):
                fs = place_fields(op_place(s[2][1]))
                if len(fs) == 1:
                    return fs[0]
    return None


def cmp_key_of_closure(c, two_elements):
    """field compared by a comparator closure: `|a, b| a.f.cmp(&b.f)` (two_elements) or `|e| e.f.cmp(probe)`; ascending
    order only (first element on the left). None if the closure has another shape."""
    e = flow.place_expr(c, [0])
    if e[0] != "call" or not re.search(r"cmp::Ord(>)?::cmp$", e[1]) or len(e[2]) != 2:
        return None
    a, b = e[2]

    def fld(x, argn):
        if x[0] == "path" and x[1] == ("arg", argn) and len(x[2]) == 1:
            return x[2][0]
        return None
    fa = fld(a, 2)
    if fa is None:
        return None
    if two_elements:
        return fa if fld(b, 3) == fa else None
    # the probe must not depend on the element
    return fa if "('arg', 2)" not in repr(b) else None


def closure_arg(prog, body, t, idx):
    """closure body passed as argument idx of call t"""
    op = t["args"][idx]
    if op[0] == "k" and isinstance(op[1], dict) and "fn" in op[1]:
        # a named fn passed instead of a closure (`binary_search_by_key(id, sorted_entry_id)`)
        f = op[1]["fn"]
        return prog.bodies.get((f.get("resolved") or {}).get("path") or f["callee"])
    l = op_local(op)
    for d in body.defs().get(l, []):
        if d[0] == "stmt" and d[4][0] == "agg" and d[4][1][0] == "closure":
            return prog.bodies.get(d[4][1][1])
    return None


def extend_sites(prog):
    """all call sites of <IndexCollector as Extend<IndexPack>>::extend with the field names in the slice of the argument"""
    out = []
    for b in prog.by_crate["rustic_core"]:
        for bb, t in b.calls():
            if "callee" in t and re.search(r"^<rustic_core::index::binarysorted::IndexCollector as std::iter::Extend<rustic_core::repofile::indexfile::IndexPack>>::extend$", callee(t)):
                sl = flow.backward_slice(b, op_place(t["args"][1])) if op_place(t["args"][1]) else {"fields": set(), "calls": set()}
                out.append((b, bb, t, sl))
    return out


def check_extend_sites(ctx, rep, rule):
    prog = ctx.prog
    sites = extend_sites(prog)
    rep.floor(rule, "IndexCollector::extend call sites", len(sites), 3)
    ordn = {}
    for (b, bb, t, sl) in sites:
        k = fn_key(b)
        ordn[k] = ordn.get(k, 0) + 1
        marked = "packs_to_delete" in sl["fields"] or any(c.endswith("IndexFile::all_packs") for c in sl["calls"])
        unmarked = "packs" in sl["fields"]
        via_calls = sorted(strip_crate(c) for c in sl["calls"] if "rustic_core" in c)
        if marked:
            # frozen exception: the prune planner's OnlyTrees collector (used-blob search must not abort on marked
            # tree packs; that index is never used to decide that a blob is already stored)
            PLANNER = "commands::prune::PrunePlan::from_prune_options"
            exc = k == PLANNER
            if not exc and k.startswith("commands::prune::") and not b.is_closure():
                # a private helper of the prune module that only the planner calls (`fn read_index_files(be, p)`)
                callers = {fn_key(b2) for b2 in prog.by_crate["rustic_core"] for _, t2 in b2.calls() if "callee" in t2 and callee(t2) == b.path}
                exc = bool(callers) and all(c == PLANNER or c.startswith(PLANNER + "::{closure") for c in callers)
            only_trees = False
            if exc:
                for bb2, t2 in b.calls():
                    if "callee" in t2 and callee(t2).endswith("IndexCollector::new"):
                        e = flow.expr_of(b, t2["args"][0])
                        only_trees = e[0] == "agg" and e[1][2] == "OnlyTrees"
            rep.check(rule, f"extend/{k}/{ordn[k]}", exc and only_trees, where=where(b, bb),
                      what=f"{k}: packs marked for deletion feed only the prune planner's OnlyTrees collector (documented exception)" if exc and only_trees else
                           f"{k}: packs MARKED FOR DELETION (packs_to_delete) are fed into an index used for lookups: blobs in them would be treated as present")
        else:
            src = "IndexFile.packs" if unmarked else f"({', '.join(via_calls[:3])})"
            rep.check(rule, f"extend/{k}/{ordn[k]}", True, where=where(b, bb), what=f"{k}: index fed from {src} (unmarked packs)", nontrivial=unmarked)


def run(ctx, rep):
    prog = ctx.prog
    wiring_rule(ctx, rep, "C17")
    for r, tx in (("C17.a", "binary search only on vectors sorted by the searched key"), ("C17.b", "BlobType bucket agreement"),
                  ("C17.c", "only unmarked packs feed an index"), ("C17.d", "total_size accounting"), ("C17.e", "reduced index modes"),
                  ("C17.f", "an unreadable index file fails index construction")):
        rep.rule(r, tx)
    BS = "rustic_core::index::binarysorted::"
    GET = prog.fn(f"<{BS}Index as rustic_core::index::ReadIndex>::get_id")
    HAS = prog.fn(f"<{BS}Index as rustic_core::index::ReadIndex>::has")
    # ---- C17.a ------------------------------------------------------------------------------------
    searches = []
    for b in prog.by_crate["rustic_core"]:
        if "index::binarysorted" not in b.path:
            continue
        for bb, t in b.calls():
            if "callee" in t and re.search(r"core::slice::<impl \[T\]>::binary_search(_by_key|_by)?$", callee(t)):
                searches.append((b, bb, t))
    rep.floor("C17.a", "binary search sites", len(searches), 2)
    search_keys = set()
    for (b, bb, t) in searches:
        elem = (t.get("gargs") or [""])[0]
        if callee(t).endswith("binary_search_by_key"):
            c = closure_arg(prog, b, t, 2)
            kf = key_field_of_closure(c) if c else None
            search_keys.add((elem.split("::")[-1], kf))
            rep.check("C17.a", f"search-key/{fn_key(b)}", kf == "id", where=where(b, bb), what=f"{fn_key(b)}: binary search over {elem.split('::')[-1]} by key `{kf}`")
        elif callee(t).endswith("binary_search"):
            search_keys.add((elem.split("::")[-1], None))
            rep.check("C17.a", f"search-key/{fn_key(b)}", elem.endswith("BlobId"), where=where(b, bb), what=f"{fn_key(b)}: binary search over plain {elem.split('::')[-1]} values")
        else:
            c = closure_arg(prog, b, t, 1)
            kf = cmp_key_of_closure(c, False) if c else None
            search_keys.add((elem.split("::")[-1], kf))
            rep.check("C17.a", f"search-key/{fn_key(b)}", kf == "id", where=where(b, bb), what=f"{fn_key(b)}: binary_search_by comparing the element's `{kf}` with the probe" if kf else f"{fn_key(b)}: binary_search_by with a comparator that is not `element.key.cmp(probe)` (cannot be matched to the sort key)")
    # constructions of TypeIndex
    cons = []
    for b in prog.by_crate["rustic_core"]:
        for bi, blk in enumerate(b.blocks):
            for s in blk["s"]:
                if s[0] == "=" and s[2][0] == "agg" and s[2][1][0] == "adt" and s[2][1][1].endswith("binarysorted::TypeIndex"):
                    cons.append((b, bi, s))
    rep.floor("C17.a", "TypeIndex constructions", len(cons), 1)
    for (b, bi, s) in cons:
        k = fn_key(b)
        idx = s[2][1][3].index("entries")
        e = flow.expr_of(b, s[2][2][idx])
        if e[0] == "agg" and e[1][2] == "None":
            rep.check("C17.a", f"construct/{k}", True, where=span_str(s[3]), what=f"{k}: constructs an empty (EntriesVariants::None) type index", nontrivial=False)
            continue
        # otherwise: sorted before: sort calls in this body dominate the construction, with key `id` / plain sort
        sorts = [(bb, t) for bb, t in b.calls() if "callee" in t and re.search(r"par_sort_unstable(_by_key|_by)?$|sort_unstable(_by_key|_by)?$|::sort(_by_key|_by)?$", callee_decl(t))]
        oks = []
        for bb, t in sorts:
            cd = callee_decl(t)
            if cd.endswith("_by_key"):
                c = closure_arg(prog, b, t, 1)
                oks.append(key_field_of_closure(c) == "id" if c else False)
            elif cd.endswith("_by"):
                c = closure_arg(prog, b, t, 1)
                oks.append(cmp_key_of_closure(c, True) == "id" if c else False)
            else:
                oks.append(True)
        # every path to the construction passes a sort or the None arm: the sorts are the arms of a match on entries
        ok = len(sorts) >= 2 and all(oks) and all(C.can_reach(b, bb, bi) or bb == bi for bb, _ in sorts)
        # no path from entry to construction avoiding all sorts unless through the `None` arm (discriminant 0)
        cut = [(bb, t["to"]) for bb, t in sorts if t.get("to") is not None]
        reach = b.reachable_from(0, cut_edges=cut)
        bypass = bi in reach
        none_only = True
        if bypass:
            # the bypass must be the EntriesVariants::None arm: find the switch on discriminant of entries
            none_only = False
            for sw in range(len(b.blocks)):
                t = b.term(sw)
                if t["k"] == "switch" and "EntriesVariants" in t.get("discr_ty", "") or (t["k"] == "switch" and any(s2[0] == "=" and s2[2][0] == "discr" and "EntriesVariants" in s2[2][2] for s2 in b.blocks[sw]["s"])):
                    others = [(sw, x) for v, x in t["targets"] if v != "0"] + ([(sw, t["otherwise"])] if True else [])
                    zero = [x for v, x in t["targets"] if v == "0"]
                    cut2 = cut + [(sw, x) for v, x in t["targets"] if v == "0"]
                    if bi not in b.reachable_from(0, cut_edges=cut2):
                        none_only = True
        rep.check("C17.a", f"construct/{k}", ok and none_only, where=span_str(s[3]),
                  what=f"{k}: the entry vectors are sorted by `id` (FullEntries) / by value (Ids) on every path before the searchable index is built" if ok and none_only else
                       f"{k}: a searchable index can be built from vectors that are NOT sorted by the searched key (sorts: {[callee_decl(t).rsplit('::',1)[-1] for _, t in sorts]}, key ok: {oks})")
    # PackIndexes.c is read only inside PackIndexes' Iterator impl and Index::into_iter
    bad = []
    for b in prog.by_crate["rustic_core"]:
        for blk in b.blocks:
            for s in blk["s"]:
                if s[0] == "=":
                    pls = []
                    rv = s[2]
                    if rv[0] in ("ref", "refmut", "discr"):
                        pls.append(rv[1])
                    elif rv[0] == "use" and op_place(rv[1]):
                        pls.append(op_place(rv[1]))
                    for pl in pls:
                        if place_has_field(pl, "c", "binarysorted::PackIndexes") and not re.search(r"PackIndexes as std::iter::Iterator>::next|binarysorted::Index as std::iter::IntoIterator>::into_iter|PackIndexes as std::fmt::Debug", b.path):
                            bad.append(fn_key(b))
    rep.check("C17.a", "by-pack-order-never-searched", not bad, where="crates/core/src/index/binarysorted.rs", what="the pack-ordered copy (PackIndexes.c) is only iterated, never searched" if not bad else f"PackIndexes.c (sorted by pack, not by id) is accessed from {sorted(set(bad))}")
    # ---- C17.b ------------------------------------------------------------------------------------
    EXT = prog.fn(f"<{BS}IndexCollector as std::iter::Extend<rustic_core::repofile::indexfile::IndexPack>>::extend")
    idxs = [(bb, t) for bb, t in EXT.calls() if "callee" in t and re.search(r"EnumMap<K, V>>::index(_mut)?$", callee(t))]
    bts = [bb for bb, t in EXT.calls() if "callee" in t and callee(t).endswith("indexfile::IndexPack::blob_type")]
    okb = bool(idxs) and len(bts) == 1
    for bb, t in idxs:
        org = flow.origins(EXT, op_place(t["args"][1])) if op_place(t["args"][1]) else []
        if not (org and all(o.kind == "call" and o.data[1].endswith("indexfile::IndexPack::blob_type") for o in org)):
            okb = False
    rep.check("C17.b", "insert-bucket", okb, where=EXT.loc(), what=f"extend() files every pack and entry under the bucket p.blob_type() ({len(idxs)} bucket accesses)")
    for F in (GET, HAS):
        fam = [F] + prog.closures_of(F)
        okf = True
        n = 0
        for f in fam:
            for bb, t in f.calls():
                if "callee" in t and re.search(r"EnumMap<K, V>>::index$", callee(t)):
                    n += 1
                    e = flow.expr_of(f, t["args"][1])
                    good = (e[0] == "path" and e[1] == ("arg", 2) and not e[2]) or (f.is_closure() and e[0] == "path" and e[1] == ("arg", 1) and len(e[2]) == 1)
                    if not good:
                        okf = False
        rep.check("C17.b", f"lookup-bucket/{fn_key(F).split('::')[-1]}", okf and n >= 1, where=F.loc(), what=f"{fn_key(F).split('::')[-1]}: every bucket access uses the requested blob_type ({n} accesses)")
    # ---- C17.c ------------------------------------------------------------------------------------
    check_extend_sites(ctx, rep, "C17.c")
    # ---- C17.d ------------------------------------------------------------------------------------
    adds = []
    for bi, blk in enumerate(EXT.blocks):
        for s in blk["s"]:
            if s[0] == "=" and s[2][0] == "bin" and s[2][1] in ("AddWithOverflow", "Add") and "u64" in s[2][4]:
                sl = flow.backward_slice(EXT, op_place(s[2][3])) if op_place(s[2][3]) else {"calls": set()}
                sl0 = flow.backward_slice(EXT, op_place(s[2][2])) if op_place(s[2][2]) else {"fields": set()}
                if "total_size" in sl0.get("fields", set()):
                    adds.append((bi, any(c.endswith("IndexPack::pack_size") for c in sl["calls"])))
    # once per pack: the addition is in the outer loop only (not inside the blob loop)
    loops = [(h, C.loop_blocks(EXT, h, l)) for (l, h) in C.back_edges(EXT)]
    depth = [sum(1 for h, bl in loops if bi in bl) for bi, _ in adds]
    rep.check("C17.d", "total-size", len(adds) == 1 and adds[0][1] and depth == [1], where=EXT.loc(), what="total_size += pack_size() exactly once per extended pack (outer loop)")
    # ... and on EVERY iteration: no path round the outer loop avoids the addition (a `continue` before it would
    # leave some listed packs out of the total)
    if len(adds) == 1:
        ab = adds[0][0]
        outer = [(h, l, bl) for (l, h) in C.back_edges(EXT) for bl in [C.loop_blocks(EXT, h, l)] if ab in bl]
        heads = {h for (h, l, bl) in outer}
        skip = [where(EXT, l) for (l, h) in C.back_edges(EXT) if h in heads and ab != h and l != ab and C.reachable_between(EXT, [h], l, cut_blocks=[ab])]
        rep.check("C17.d", "total-size-every-pack", bool(outer) and not skip, where=EXT.loc(),
                  what="no iteration of the extend loop skips the total_size addition: every listed pack is counted" if not skip else
                       "some path round the extend loop skips `total_size += pack_size()`: packs taking that path are missing from the size totals")
        # the pack is also registered in its type's bucket on every iteration where that is possible (pack counts)
    # the pack index stored in an entry is the position its pack gets in `packs`: len() is read BEFORE the push
    lens = [(bb, t) for bb, t in EXT.calls() if "callee" in t and callee(t).endswith("Vec::<T, A>::len") and op_place(t["args"][0]) and "packs" in (flow.place_path(EXT, op_place(t["args"][0])) or (None, []))[1]]
    pss = [(bb, t) for bb, t in EXT.calls() if "callee" in t and callee(t).endswith("Vec::<T, A>::push") and op_place(t["args"][0]) and "packs" in (flow.place_path(EXT, op_place(t["args"][0])) or (None, []))[1]]
    backs_ = C.back_edges(EXT)
    oki = len(lens) == 1 and len(pss) == 1 and pss[0][0] in EXT.reachable_from(lens[0][0], cut_edges=backs_) and lens[0][0] not in EXT.reachable_from(pss[0][0], cut_edges=backs_)
    rep.check("C17.b", "pack-index-before-push", oki, where=EXT.loc(), what="an entry's pack_idx is packs.len() taken before the pack is pushed (it is the pack's own position)" if oki else
              "pack_idx is not the position of the entry's pack (len() read after the push / not at all): lookups return another pack")
    # ... and those positions survive into the searchable index: the `packs` vector of every constructed TypeIndex is the
    # collected one, element for element (projection allowed; no element dropped, merged or moved - pack_idx would point elsewhere)
    KEEP = re.compile(r"IntoIterator(>)?::into_iter$|Iterator>::(map|collect|cloned|copied|by_ref)$|Iterator::(map|collect|cloned|copied|by_ref)$|FromIterator<.*>>::from_iter$|"
                      r"Vec::<T(, A)?>::(new|with_capacity|into_iter)$|Clone>::clone$|Default>::default$|mem::take$|Deref(Mut)?>::deref(_mut)?$|Vec::<T, A>::(iter|len)$|slice::<impl \[T\]>::(iter|to_vec)$")
    n_pk = 0
    for (b, bi, s_) in cons:
        if "packs" not in s_[2][1][3]:
            continue
        op = s_[2][2][s_[2][1][3].index("packs")]
        pl = op_place(op)
        if pl is None:
            continue
        sl = flow.backward_slice(b, pl)
        calls_ = sorted(set(sl["calls"]))
        if not calls_:
            continue   # an empty / default vector
        n_pk += 1
        moved = [c for c in calls_ if not KEEP.search(c) and re.search(r"Iterator|Itertools|::(sort|dedup|retain|reverse|swap|remove|insert|truncate|drain|split_off|rotate)", c)]
        rep.check("C17.b", f"packs-keep-positions/{fn_key(b)}", not moved, where=where(b, bi),
                  what=f"{fn_key(b)}: the packs vector of the built TypeIndex is the collected one, element for element" if not moved else
                       f"{fn_key(b)}: the packs vector is filtered / de-duplicated / reordered ({[c.rsplit('::', 2)[-2] + '::' + c.rsplit('::', 1)[-1] for c in moved]}) after the entries recorded their pack_idx: entries of later packs point at another pack")
    rep.floor("C17.b", "TypeIndex constructions with a collected packs vector", n_pk, 1)
    # C17.h every entry is filed under ITS OWN blob type: the bucket selected for the push of an entry (SortedEntry / BlobId)
    # derives from the blob's `tpe` field, not from a pack-level type (the type of the pack's first blob) - index files may
    # list packs that mix tree and data blobs (old restic versions wrote them; fixture repo-mixed.tar.gz)
    rep.rule("C17.h", "an index entry is filed under the blob's own type, also for packs mixing both types")
    ent_push = [(bb, t) for bb, t in EXT.calls() if "callee" in t and callee(t).endswith("Vec::<T, A>::push") and re.search(r"SortedEntry|blob::BlobId", " ".join(str(x) for x in [t.get("generics", ""), callee_decl(t), t.get("callee_full", "")]) + " " + json_of(t))]
    if not ent_push:
        # the per-blob pushes live in a helper (refactored form): C17.h gives no verdict rather than a wrong one
        rep.note("C17.h: the entry pushes are not in IndexCollector::extend itself (moved into a helper); bucket selection not decided in this form")
    imuts = [(cb, ct) for cb, ct in EXT.calls() if "callee" in ct and re.search(r"IndexMut<K> for enum_map::EnumMap<K, V>>::index_mut$|Index<K> for enum_map::EnumMap<K, V>>::index$", callee(ct))]
    back_ = C.back_edges(EXT)
    for (bb, t) in ent_push:
        n_ = "full-entries" if "SortedEntry" in json_of(t) else "ids-only"
        # the EnumMap indexing that selects the bucket of this push: the closest one in front of it
        others = {cb for cb, _ in imuts}
        sel = [(cb, ct) for cb, ct in imuts if bb in EXT.reachable_from(cb, cut_blocks=others - {cb}, cut_edges=back_)]
        by_blob = by_pack = False
        for cb, ct in sel:
            e_ = flow.expr_of(EXT, ct["args"][1], cb)
            flds_, cls_ = flow.expr_mentions(e_)
            by_blob = by_blob or "tpe" in flds_
            by_pack = by_pack or any(c.endswith("IndexPack::blob_type") for c in cls_)
        okb = bool(sel) and by_blob and not by_pack
        rep.check("C17.h", f"extend/entry-bucket-by-blob-type/{n_}", okb, where=where(EXT, bb),
                  what="the bucket an entry is pushed into is selected by the blob's own type" if okb else
                       "the bucket an entry is pushed into is selected by IndexPack::blob_type() - the type of the pack's FIRST blob - and the blob's own `tpe` is ignored: a tree blob listed in a pack that starts with a data blob is filed under Data, so get_id(Tree, id) / has_tree(id) miss it although an index file lists it")
    # total_size(type) answers from the bucket of the requested type only
    TS = prog.bodies.get(f"<{BS}Index as rustic_core::index::ReadIndex>::total_size")
    if TS is not None:
        reads = [s_ for blk in TS.blocks for s_ in blk["s"] if s_[0] == "=" and s_[2][0] == "use" and op_place(s_[2][1]) and "total_size" in place_fields(op_place(s_[2][1]))]
        idx = [(bb, t) for bb, t in TS.calls() if "callee" in t and re.search(r"ops::Index<.*>>::index$|Index<BlobType>", callee(t))]
        okt = len(reads) == 1 and len(idx) == 1 and 2 in flow.backward_slice(TS, op_place(idx[0][1]["args"][1]))["args"] and not any(s_[2][0] == "bin" for blk in TS.blocks for s_ in blk["s"] if s_[0] == "=")
        rep.check("C17.d", "total-size-per-type", okt, where=TS.loc(), what="total_size(type) returns the total of exactly the requested type's bucket" if okt else
                  "total_size(type) does not return exactly the requested type's bucket total (mixes types or ignores its argument)")
    # ---- C17.g: the checked / repaired index never takes a LISTED pack for an unlisted one ----------------------------
    rep.rule("C17.g", "every pack listed in an index file (marked for deletion or not) is struck off the 'existing but unindexed' candidates")
    PC = prog.find1(r"^rustic_core::commands::repair::index::PackChecker::check_pack$")
    rms = [bb for bb, t in PC.calls() if "callee" in t and re.search(r"(BTreeMap|HashMap)<.*>::remove$|::remove$", callee(t)) and t["args"] and op_place(t["args"][0]) and "packs" in flow.backward_slice(PC, op_place(t["args"][0]))["fields"]
           and "packs_to_read" not in flow.backward_slice(PC, op_place(t["args"][0]))["fields"]]
    byh = {}
    for (l_, h_) in C.back_edges(PC):
        byh.setdefault(h_, set()).update(C.loop_blocks(PC, h_, l_))
    lp = sorted([(len(bl), h_, bl) for h_, bl in byh.items() if rms and all(r_ in bl for r_ in rms)])
    okg_ = False
    if rms and lp:
        _, h0, bl0 = lp[0]
        latches = [l_ for (l_, h_) in C.back_edges(PC) if h_ == h0]
        # from the loop header, with the remove call(s) cut, no latch is reachable: every iteration strikes its pack off
        okg_ = not any(l_ in PC.reachable_from(h0, cut_blocks=rms) for l_ in latches if l_ not in rms)
    rep.check("C17.g", "listed-pack-never-unindexed", okg_, where=PC.loc(), what="PackChecker::check_pack removes every listed pack (marked or not) from the set of existing packs that still need indexing" if okg_ else
              "some listed packs are not struck off the 'existing but not indexed' set (e.g. packs marked for deletion): their headers are re-read and they re-enter the index as live packs - lookups find blobs that exist only in marked packs")
    # ---- C17.f ------------------------------------------------------------------------------------
    from rules import errprop
    errprop.run_iter(ctx, rep, "C17.f")
    # ---- C17.e ------------------------------------------------------------------------------------
    # decided per mode: every switch on the discriminant of the EntriesVariants value is forced to the arm of one variant
    # (single match, successive `if let`s and let-else are all the same to this), then the reachable searches are compared
    import pathsens

    def under_mode(B, variant):
        dv = str(_discr(prog, "index::binarysorted::EntriesVariants", variant))

        def fz(body, bb):
            t = body.term(bb)
            if t["k"] == "switch" and any(s2[0] == "=" and s2[2][0] == "discr" and "EntriesVariants" in s2[2][2] and s2[1] == [op_local(t["discr"])] for s2 in body.blocks[bb]["s"]):
                tg = [x for v, x in t["targets"] if v == dv]
                return tg[0] if tg else t["otherwise"]
            return None
        return set(pathsens.reachable_under(B, fz))
    def mode_body(F):
        """the body that dispatches on the index mode: F itself, or a helper of the index module that F calls on every path
        (`fn contains_sorted(&self, id)` holding the match) - with its binary-search sites"""
        own = [bb for (b, bb, _) in searches if b.path == F.path]
        if own:
            return F, own
        for cb, ct in F.calls():
            if "callee" in ct and callee(ct).startswith("rustic_core::index::binarysorted::") and callee(ct) in prog.bodies:
                H = prog.bodies[callee(ct)]
                hs_ = [bb for (b, bb, _) in searches if b.path == H.path]
                if hs_ and all(C.dominates(F, cb, r_) for r_ in F.returns()):
                    return H, hs_
        return F, []
    GB, gs = mode_body(GET)
    okg = bool(gs) and any(x in under_mode(GB, "FullEntries") for x in gs) and not any(x in under_mode(GB, "Ids") for x in gs) and not any(x in under_mode(GB, "None") for x in gs)
    rep.check("C17.e", "get_id-only-full", okg, where=GET.loc(), what="get_id answers only from FullEntries (Ids / None give no location)")
    HB, hs = mode_body(HAS)
    okh = bool(hs) and any(x in under_mode(HB, "FullEntries") for x in hs) and any(x in under_mode(HB, "Ids") for x in hs) and not any(x in under_mode(HB, "None") for x in hs)
    rep.check("C17.e", "has-modes", okh, where=HAS.loc(), what="has() searches Ids and FullEntries and answers false for None")
    if ctx.tier == "thorough" and ctx.config == "default":
        run_witness(ctx, rep)


def _discr(prog, adt, name):
    for v in prog.adt(adt)["variants"]:
        if v["name"] == name:
            return v["discr"]
    raise AnchorError(f"{adt}::{name} not found")


def run_witness(ctx, rep):
    """thorough tier: compile-fail doctests (with compiling twins) of /verif/witness against /repo's current sources"""
    import subprocess, shutil, os
    here = os.path.dirname(os.path.dirname(os.path.abspath(__file__)))
    w = os.path.join(here, "witness")
    shutil.copy(os.path.join(ctx.repo, "Cargo.lock"), os.path.join(w, "Cargo.lock"))
    env = dict(os.environ)
    env.update({"CARGO_NET_OFFLINE": "true", "CARGO_TARGET_DIR": os.path.join(here, ".cache", "witness-target")})
    r = subprocess.run(["cargo", "+nightly", "test", "--doc", "--offline"], cwd=w, env=env, stdout=subprocess.PIPE, stderr=subprocess.STDOUT, text=True)
    out = r.stdout
    tests = re.findall(r"^test src/lib.rs - (\w+) \(line \d+\)( - compile fail)? \.\.\. (\w+)", out, re.M)
    rep.rule("C17.w", "type-level witness: location queries do not type-check on reduced index modes (compile_fail doctests with compiling twins)")
    if not tests:
        raise AnchorError("witness doctests did not run:\n" + out[-1500:])
    for name, cf, res in tests:
        rep.check("C17.w", f"witness/{name}", res == "ok", where="witness/src/lib.rs", what=f"doctest {name}{' (must fail to compile with E0599)' if cf else ' (compiling twin)'}: {res}")
    twin_ok = "FAILED" not in out and r.returncode == 0
    rep.check("C17.w", "witness/all", twin_ok, where="witness/src/lib.rs", what="all witnesses and their compiling twins behave as expected")


def json_of(t):
    import json as _j
    try:
        return _j.dumps(t)
    except Exception:
        return str(t)
