"""C18 - Accepted configurations work; refused or unnamed settings change nothing.

C18.b a change alters only the settings it names: in ConfigOptions::apply every store to a field F of the config is
  control-dependent on `self.set_F` being Some.
C18.c refusals: the store of the version is control-dependent on the allowed-range test and on the no-downgrade
  comparison; compression on the v1 test and the level-range test; the two percents on their bound tests.
C18.d a refused change leaves the stored configuration untouched: apply_config applies to a clone, and set_config /
  save_config are reachable only through the Ok edge of apply; init applies the options before creating anything.
C18.e validators are exhaustive over chunkers: every Chunker variant that ChunkIter::from_config can construct has a
  validation of the size parameters it consumes in ConfigOptions::apply, control-dependent on that variant only
  (not on which options were named).
C18.a R-ARITH (rules/arith.py): option-derived arithmetic cannot trap.
"""
import re
from rules.common import *
from rules.order import must_precede, call_pred, sites

LEVEL = "other"
EXPLANATION = (
    "Control-dependence and provenance rules over the MIR of ConfigOptions::apply, apply_config and init: which option "
    "guards each store into the configuration, which refusal tests dominate the stores they protect, that validation "
    "happens on a clone and before any storage effect, and that size validation exists for every chunker variant. "
    "R-ARITH adds an interval analysis of the arithmetic reachable from option values. Decides these structural clauses, "
    "not 'backup/check/restore succeed on every accepted configuration'.")
NOT_DECIDED = ["that backup, check and restore succeed end to end on every accepted configuration (runtime)"]
TECHNIQUE = "static analysis: control dependence + value provenance over rustc MIR; interval analysis of option-derived arithmetic"


def cd_conditions(body, bb, depth=0):
    """[(expr, switch value taken, switch block)] for all switches bb is transitively control-dependent on.
    A switch on a bool that merges constant assignments (`matches!`, `&&`, `||` lowering) additionally contributes the
    conditions under which the constant matching the taken edge was assigned."""
    out = []
    for (sw, succ) in C.transitive_control_deps(body, bb):
        t = body.term(sw)
        if t["k"] != "switch":
            continue
        val = None
        for v, x in t["targets"]:
            if x == succ:
                val = v
        if val is None and succ == t["otherwise"]:
            val = "otherwise"
        out.append((flow.expr_of(body, t["discr"]), val, sw))
        if t["discr_ty"] == "bool" and depth < 4:
            l = op_local(t["discr"])
            took_true = (val != "0")
            # look through `!x` and plain copies
            for _ in range(6):
                ds = [d for d in body.defs().get(l, []) if d[0] in ("stmt", "call")]
                if len(ds) == 1 and ds[0][0] == "stmt" and ds[0][4][0] == "un" and ds[0][4][1] == "Not" and op_local(ds[0][4][2]) is not None:
                    l = op_local(ds[0][4][2])
                    took_true = not took_true
                elif len(ds) == 1 and ds[0][0] == "stmt" and len(ds[0][3]) == 1 and ds[0][4][0] == "use" and op_place(ds[0][4][1]) is not None and len(op_place(ds[0][4][1])) == 1 and body.locals[op_place(ds[0][4][1])[0]] == "bool":
                    l = op_place(ds[0][4][1])[0]
                else:
                    break
            defs = [d for d in body.defs().get(l, []) if d[0] in ("stmt", "call") and (d[0] == "call" or len(d[3]) == 1)]
            is_const = lambda d: d[0] == "stmt" and d[4][0] == "use" and d[4][1][0] == "k" and isinstance(d[4][1][1].get("v"), bool)
            if len(defs) >= 2 and any(is_const(d) for d in defs):
                # a merge local: `a && b`, `a || b`, matches!(..) - the taken value was assigned either as that constant
                # (under the conditions controlling the assignment) or as the value of the last operand
                for d in defs:
                    if is_const(d):
                        if d[4][1][1]["v"] == took_true:
                            out.extend(cd_conditions(body, d[1], depth + 1))
                    else:
                        if d[0] == "call":
                            e = ("call", callee(d[2]) if "callee" in d[2] else "?", [flow.expr_of(body, a) for a in d[2]["args"]], d[1])
                        else:
                            e = flow._rv_expr(body, d[4], d[1], 0, set())
                        out.append((e, "1" if took_true else "0", d[1]))
                        out.extend(cd_conditions(body, d[1], depth + 1))
    return out


def option_some_field(cond):
    """cond = (expr, val, sw): is it `discriminant(<path>.F) == Some`? returns F"""
    e, val, _ = cond
    if e[0] == "discr" and val in ("1",):
        x = e[1]
        if x[0] in ("path", "proj") and x[2]:
            return x[2][-1]
    # `if self.set_F.is_some()` (true edge) / `if !self.set_F.is_none()`
    neg = False
    while e[0] == "un" and e[1] == "Not":
        neg = not neg
        e = e[2]
    if e[0] == "call" and re.search(r"Option::<T>::is_(some|none)$", e[1]) and e[2] and e[2][0][0] in ("path", "proj") and e[2][0][2]:
        truth = (val != "0") != neg
        if truth == e[1].endswith("is_some"):
            return e[2][0][2][-1]
    return None


def keeps_current_when_unset(A, s, fname):
    """the stored value is `self.set_F.or(config.F)` (or or_else / a copy of it): unchanged when the option is None"""
    rv = s[2]
    if rv[0] != "use":
        return False
    e = flow.expr_of(A, rv[1])
    if e[0] == "call" and re.search(r"Option::<T>::(or|or_else|xor)$", e[1]) and len(e[2]) == 2 and e[1].endswith("::or"):
        a, b = e[2]
        return a[0] in ("path", "proj") and a[2] and a[2][-1] == f"set_{fname}" and b[0] in ("path", "proj") and b[2] and b[2][-1] == fname and b[1] == ("arg", 2)
    return False


def run(ctx, rep):
    prog = ctx.prog
    wiring_rule(ctx, rep, "C18")
    A = prog.find1(r"^rustic_core::commands::config::ConfigOptions::apply$")
    rep.rule("C18.b", "every store to config.F in ConfigOptions::apply is control-dependent on self.set_F being Some")
    rep.rule("C18.c", "refusal tests dominate the stores they protect")
    rep.rule("C18.d", "validation on a clone and before any storage effect")
    rep.rule("C18.e", "size validation exists for every chunker variant, independent of which options were named")
    # ---- C18.b -----------------------------------------------------------------------------------
    stores = []
    for bi, blk in enumerate(A.blocks):
        for s in blk["s"]:
            if s[0] == "=" and s[1][0] == 2 and len(s[1]) >= 3 and s[1][1] == "*":
                f = s[1][2]
                if isinstance(f, list) and f[0] == "f" and (f[4] or "").endswith("configfile::ConfigFile"):
                    stores.append((bi, f[2], s))
    rep.floor("C18.b", "stores into the configuration", len(stores), 10)
    cfields = [f[0] for f in prog.adt("repofile::configfile::ConfigFile")["variants"][0]["fields"]]
    ofields = [f[0] for f in prog.adt("commands::config::ConfigOptions")["variants"][0]["fields"]]
    for (bi, fname, s) in stores:
        conds = cd_conditions(A, bi)
        somes = {option_some_field(c) for c in conds} - {None}
        ok = f"set_{fname}" in somes or keeps_current_when_unset(A, s, fname)
        rep.check("C18.b", f"store/{fname}", ok, where=span_str(s[3]),
                  what=f"config.{fname} is changed only if self.set_{fname} is Some" if ok else
                       f"config.{fname} is overwritten although the change did not name it (store not guarded by self.set_{fname}; guards seen: {sorted(somes)})")
    # every option has a store
    for of in ofields:
        if of.startswith("set_"):
            tgt = of[4:]
            rep.check("C18.b", f"option/{of}", any(f == tgt for _, f, _ in stores), where=A.loc(), what=f"option {of} is applied to config.{tgt}")
    # ---- C18.c ------------------------------------------------------------------------------------
    def store_conds(fname):
        st = [x for x in stores if x[1] == fname]
        if len(st) != 1:
            raise AnchorError(f"expected one store to config.{fname}, found {len(st)}")
        return st[0], cd_conditions(A, st[0][0])

    def has_call(conds, rx, val):
        for (e, v, sw) in conds:
            x = e
            neg = False
            while x[0] == "un" and x[1] == "Not":
                x = x[2]
                neg = not neg
            if x[0] == "call" and re.search(rx, x[1]):
                want_true = val
                took_true = (v != "0")
                if neg:
                    took_true = not took_true
                if took_true == want_true:
                    return True
        return False

    def has_cmp(conds, ops, names_a, names_b, val):
        """a comparison `a OP b` (MIR BinaryOp) with operands mentioning the given names, taken with truth `val`"""
        for (e, v, sw) in conds:
            x = e
            neg = False
            while x[0] == "un" and x[1] == "Not":
                x = x[2]
                neg = not neg
            if x[0] == "bin" and x[1] in ops:
                sa, sb = expr_names(A, x[2]), expr_names(A, x[3])
                if (names_a & sa) and (names_b & sb):
                    took_true = (v != "0")
                    if neg:
                        took_true = not took_true
                    if took_true == val:
                        return x[1]
        return None

    def only_via(store_bb, pred, val):
        """every path from the entry to store_bb takes, at some switch whose condition satisfies pred, the edge on which
        the condition has truth value `val` (cutting those edges makes the store unreachable). A guard that merely
        exists on SOME path to the store - `cond && other` - does not qualify."""
        cut = []
        for sw in range(len(A.blocks)):
            t = A.term(sw)
            if t["k"] != "switch":
                continue
            x = flow.expr_of(A, t["discr"])
            neg = False
            while x[0] == "un" and x[1] == "Not":
                x = x[2]
                neg = not neg
            if not pred(x):
                continue
            zero = [y for v, y in t["targets"] if v == "0"]
            if not zero:
                continue
            want_true = (val != neg)
            cut.append((sw, t["otherwise"] if want_true else zero[0]))
        return bool(cut) and store_bb not in A.reachable_from(0, cut_edges=cut)

    def is_cmp(ops, names_a, names_b):
        return lambda x: x[0] == "bin" and x[1] in ops and bool(names_a & expr_names(A, x[2])) and bool(names_b & expr_names(A, x[3]))

    def is_call(rx):
        return lambda x: x[0] == "call" and bool(re.search(rx, x[1]))

    (st, conds) = store_conds("version")
    # decided for sample values of (requested version, current version), through helper functions: the store is reached
    # exactly for 1 <= new <= 2 and new >= current (whatever the spelling / placement of the tests)
    is_new = lambda x: "'set_version'" in repr(x)
    is_cur = lambda x: isinstance(x, tuple) and x and x[0] in ("path", "proj") and "'version'" in repr(x) and "'set_version'" not in repr(x) and "('arg', 2)" in repr(x)
    gotv = {}
    for n_ in (0, 1, 2, 3):
        for c_ in (1, 2):
            gotv[(n_, c_)] = st[0] in reachable_eval(prog, A, num_eval([(is_new, n_), (is_cur, c_)]), depth=2)
    okdown = all(gotv[(n_, c_)] == (n_ >= c_) for n_ in (1, 2) for c_ in (1, 2))
    okrange = all(not gotv[(n_, c_)] for n_ in (0, 3) for c_ in (1, 2)) and any(gotv[(n_, c_)] for n_ in (1, 2) for c_ in (1, 2))
    rep.check("C18.c", "version/no-downgrade/every-path", okdown, where=span_str(st[2][3]),
              what="config.version is stored exactly when the requested version is not below the current one (evaluated for sample versions)" if okdown else
                   f"config.version is stored for (requested, current) in {sorted(k for k, v in gotv.items() if v)}: a downgrade is accepted or an upgrade refused")
    rep.check("C18.c", "version/range/every-path", okrange, where=span_str(st[2][3]),
              what="config.version is never stored for versions outside 1..=2 (evaluated for sample versions)" if okrange else
                   f"config.version is stored for (requested, current) in {sorted(k for k, v in gotv.items() if v)}: an unsupported version is accepted")
    (st2, _) = store_conds("compression")
    rep.check("C18.c", "compression/level-range/every-path", only_via(st2[0], is_call(r"::contains$"), True), where=span_str(st2[2][3]),
              what="every path that stores config.compression has seen zstd's level range contain it")
    (st3, _) = store_conds("min_packsize_tolerate_percent")
    # decided for sample values (the spelling `> 100` / `>= 101` does not matter): stored exactly for percent <= 100
    SAMP = [0, 1, 50, 99, 100, 101, 150, 4000]
    isv = lambda fld: (lambda x: fld in repr(x))
    got = {v: st3[0] in reachable_with_value(A, isv("set_min_packsize_tolerate_percent"), v, prog=prog) for v in SAMP}
    okmin = all(got[v] == (v <= 100) for v in SAMP)
    rep.check("C18.c", "min-percent/every-path", okmin, where=span_str(st3[2][3]),
              what="min_packsize_tolerate_percent is stored exactly for values <= 100 (evaluated for sample values)" if okmin else
                   f"min_packsize_tolerate_percent is stored for {[v for v in SAMP if got[v]]} (must be exactly the values <= 100)")
    (st4, _) = store_conds("max_packsize_tolerate_percent")
    got4 = {v: st4[0] in reachable_with_value(A, isv("set_max_packsize_tolerate_percent"), v, prog=prog) for v in SAMP}
    okmax = all(got4[v] == (not (0 < v < 100)) for v in SAMP)
    rep.check("C18.c", "max-percent/every-path", okmax, where=span_str(st4[2][3]),
              what="max_packsize_tolerate_percent is stored exactly for 0 (no limit) and values >= 100 (evaluated for sample values)" if okmax else
                   f"max_packsize_tolerate_percent is stored for {[v for v in SAMP if got4[v]]} (must be exactly 0 and the values >= 100)")
    (st, conds) = store_conds("compression")
    rep.check("C18.c", "compression/level-range", has_call(conds, r"::contains$", True), where=span_str(st[2][3]), what="config.compression is stored only if zstd's level range contains it")
    rep.check("C18.c", "compression/v1", any(ex[0] == "bin" and ex[1] in ("Eq", "Ne") and "version" in expr_names(A, ex) for ex, _, _ in conds), where=span_str(st[2][3]),
              what="config.compression is stored only after the v1-repository test")
    # ---- C18.d ------------------------------------------------------------------------------------
    AC = prog.find1(r"^rustic_core::commands::config::apply_config$")
    APPLY = call_pred(r"^rustic_core::commands::config::ConfigOptions::apply$")
    ap = sites(ctx, AC, APPLY)
    rep.require("C18.d", "apply_config/apply-called", len(ap) == 1, where=AC.loc(), what="apply_config calls ConfigOptions::apply once")
    if len(ap) == 1:
        t = AC.term(ap[0])
        org = flow.origins(AC, op_place(t["args"][1]), through=re.compile(r"Deref>::deref$|DerefMut>::deref_mut$"))
        from_clone = bool(org) and all(o.kind == "call" and re.search(r"Clone>::clone$", o.data[1]) for o in org)
        # and the clone's source is repo.config()
        rep.check("C18.d", "apply_config/on-clone", from_clone, where=where(AC, ap[0]),
                  what="options are applied to a clone of the repository's configuration" if from_clone else
                       f"options are applied to a value that is not a fresh clone ({org}): a refused change would leave partial updates behind")
        must_precede(ctx, rep, "C18.d", "apply-then-set", AC, APPLY, call_pred(r"repository::Repository::<S>::set_config$"), what_a="ConfigOptions::apply (validation)", what_b="Repository::set_config")
        must_precede(ctx, rep, "C18.d", "apply-then-save", AC, APPLY, call_pred(r"^rustic_core::commands::config::save_config$"), what_a="ConfigOptions::apply (validation)", what_b="save_config")
        # no other way to mutate the repository's config from apply_config: arg1 (&mut repo) reaches only set_config/save_config/readers
        muts = []
        for bb, tt in AC.calls():
            if "callee" in tt and tt["args"]:
                a0 = tt["args"][0]
                pp = flow.place_path(AC, op_place(a0)) if op_place(a0) else None
                ty = AC.locals[op_local(a0)] if op_local(a0) is not None else ""
                if pp and pp[0] == ("arg", 1) and ty.startswith("&mut") and not re.search(r"::set_config$", callee(tt)):
                    muts.append(callee(tt))
        rep.check("C18.d", "apply_config/no-other-mutation", not muts, where=AC.loc(), what="apply_config mutates the repository handle only through set_config" if not muts else f"apply_config hands `&mut repo` to {muts} before/without validation")
    I = prog.find1(r"^rustic_core::commands::init::init$")
    must_precede(ctx, rep, "C18.d", "init", I, APPLY, call_pred(r"^rustic_core::commands::init::init_with_config$"), what_a="ConfigOptions::apply (validation)", what_b="init_with_config (creates the repository)")
    # ---- C18.e ------------------------------------------------------------------------------------
    variants = prog.variants("repofile::configfile::Chunker")
    FC = prog.find1(r"^rustic_core::chunker::ChunkIter::<R>::from_config$")
    # which variants from_config can construct: switch on discriminant of config.chunker()
    built = set()
    for bi in range(len(FC.blocks)):
        t = FC.term(bi)
        if t["k"] == "switch":
            e = flow.expr_of(FC, t["discr"])
            if e[0] == "discr" and e[1][0] == "call" and e[1][1].endswith("ConfigFile::chunker"):
                for v, x in t["targets"]:
                    built.add(prog.variant_by_discr("repofile::configfile::Chunker", v))
    rep.floor("C18.e", "chunker variants constructed by from_config", len(built), 1)
    # the switch on the effective chunker in apply (if any)
    chsw = []
    for bi in range(len(A.blocks)):
        t = A.term(bi)
        if t["k"] == "switch":
            e = flow.expr_of(A, t["discr"])
            if e[0] == "discr" and e[1][0] == "call" and e[1][1].endswith("ConfigFile::chunker"):
                chsw.append(bi)
    okret = [bi for bi, blk in enumerate(A.blocks) for s_ in blk["s"] if s_[0] == "=" and s_[1] == [0] and s_[2][0] == "agg" and s_[2][1][0] == "adt" and s_[2][1][2] == "Ok"]
    rep.floor("C18.e", "Ok returns of apply", len(okret), 1)
    val_calls = [bi for bi in range(len(A.blocks)) if A.term(bi)["k"] == "call" and "callee" in A.term(bi)
                 and re.search(r"check_\w+_params$|::check_\w+$|validate", callee(A.term(bi))) and A.term(bi)["dest_ty"].startswith("std::result::Result")]
    from rules.order import ok_cut
    for v in sorted(built):
        dv = str(_discr(prog, v))
        cut = []
        for sw in chsw:
            cut += restrict_to_variant(A, sw, dv)
        for vc in val_calls:
            kind, edges = ok_cut(A, vc)
            if kind in ("?", "return"):
                cut += edges
        reach = A.reachable_from(0, cut_edges=cut)
        ok = not any(r in reach for r in okret)
        rep.check("C18.e", f"validated/{v}", ok, where=A.loc(),
                  what=(f"ConfigOptions::apply: with effective chunker {v} every path to Ok passes a successful size validation (whatever options were named)" if ok else
                        f"ConfigOptions::apply can return Ok with effective chunker {v} WITHOUT validating the size parameters it will consume (validation calls seen: {[where(A, x) for x in val_calls]})"))
    from rules import arith
    arith.run_c18(ctx, rep)


def restrict_to_variant(body, sw, dv):
    """edges to cut so that only paths on which the enum switched on at `sw` has discriminant `dv` remain; follows the
    `matches!` lowering (const bool assigned per arm, then a switch on that bool)"""
    t = body.term(sw)
    mine = None
    for v, x in t["targets"]:
        if v == dv:
            mine = x
    if mine is None:
        mine = t["otherwise"]
    cut = [(sw, x) for x in body.succ(sw) if x != mine]
    # jump threading of the bool merge
    blk = body.blocks[mine]
    consts = [s for s in blk["s"] if s[0] == "=" and len(s[1]) == 1 and s[2][0] == "use" and s[2][1][0] == "k" and isinstance(s[2][1][1].get("v"), bool)]
    if consts and blk["t"]["k"] == "goto":
        L, c = consts[-1][1][0], consts[-1][2][1][1]["v"]
        j = blk["t"]["to"]
        tj = body.term(j)
        if tj["k"] == "switch" and op_local(tj["discr"]) == L:
            zero = [x for v, x in tj["targets"] if v == "0"]
            if zero:
                cut.append((j, tj["otherwise"]) if c is False else (j, zero[0]))
    return cut


def _discr(prog, name):
    for v in prog.adt("repofile::configfile::Chunker")["variants"]:
        if v["name"] == name:
            return v["discr"]


def expr_names(body, e, depth=0):
    """field names, debug names of locals and integer constants appearing in an expression tree"""
    out = set()
    if depth > 30:
        return out
    k = e[0]
    if k == "path":
        out |= set(e[2])
        root = e[1]
        if root[0] in ("arg", "local"):
            out |= set(body.local_names().get(root[1], []))
    elif k == "proj":
        out |= set(e[2]) | set(e[3])
        out |= expr_names(body, e[1], depth + 1)
    elif k == "call":
        for a in e[2]:
            out |= expr_names(body, a, depth + 1)
    elif k == "bin":
        out |= expr_names(body, e[2], depth + 1) | expr_names(body, e[3], depth + 1)
    elif k in ("un",):
        out |= expr_names(body, e[2], depth + 1)
    elif k == "discr":
        out |= expr_names(body, e[1], depth + 1)
    elif k == "const":
        if isinstance(e[1], int) and not isinstance(e[1], bool):
            out.add(e[1])
    elif k == "phi":
        out |= set(body.local_names().get(e[1], []))
        for s in e[2]:
            out |= expr_names(body, s, depth + 1)
    elif k == "agg":
        for s in e[2]:
            out |= expr_names(body, s, depth + 1)
    return out
