"""R-FLUSH: what was staged is flushed before success is reported.

For every function that creates a Packer / BlobCopier / Indexer and keeps it (does not return it or store it in a
returned struct): every path to an Ok return passes the matching finalize() with its result propagated. The worker
status is really awaited inside finalize (Packer::finalize / Actor::finalize receive from the finish channel).
One confirmed exception: prune_repository's early "nothing to do" return, where the only staged entries are add_remove
marks of packs no index references (dropping them loses nothing; the next run finds them again)."""
import re
from rules.common import *
from rules.order import ok_cut

OWNED = [
    (r"^rustic_core::blob::packer::Packer::<BE>::new$", r"^rustic_core::blob::packer::Packer::<BE>::finalize$", "Packer"),
    (r"^rustic_core::blob::packer::BlobCopier::<BE>::new$", r"^rustic_core::blob::packer::BlobCopier::<BE>::finalize$|^rustic_core::commands::copy::copy_blobs$", "BlobCopier"),
    (r"^rustic_core::index::indexer::Indexer::<BE>::(new|new_unindexed)$", r"^rustic_core::index::indexer::Indexer::<BE>::finalize$", "Indexer"),
]
EXC = {("commands::prune::prune_repository", "Indexer"): "early 'nothing to do' return: only add_remove marks of unindexed packs are staged (documented exception)"}


def run(ctx, rep, rule):
    prog = ctx.prog
    rep.rule(rule, "every owner of a packer/copier/indexer finalizes it (result propagated) on every path to an Ok return")
    n = 0
    for b in prog.by_crate["rustic_core"]:
        if b.is_closure():
            continue
        for (newrx, finrx, kind) in OWNED:
            news = [(bb, t) for bb, t in b.calls() if "callee" in t and re.search(newrx, callee(t))]
            if not news:
                continue
            # kept locally? the created value must not flow into the return value / a returned aggregate
            escapes = False
            for (bb, t) in news:
                aliases, consumers, ret = flow.forward_aliases(b, t["dest"][0], limit=120)
                if ret:
                    escapes = True
                # passed into another constructor (e.g. BlobCopier::new(packer..), Archiver fields): ownership moves on
                for (cb, ct, ai) in consumers:
                    if re.search(r"::new$|::into_shared$|Arc::<T>::new$|RwLock::<T>::new$", callee(ct)) and 0 in flow.forward_aliases(b, ct["dest"][0], limit=120)[0]:
                        escapes = True
            if escapes:
                continue
            fam = [b]
            fins = [(bb, t) for bb, t in b.calls() if "callee" in t and re.search(finrx, callee(t))]
            n += 1
            k = fn_key(b)
            if not fins:
                rep.check(rule, f"{k}/{kind}", (k, kind) in EXC, where=b.loc(), what=f"{k} creates a {kind} but never finalizes it: staged data is not flushed")
                continue
            cut = []
            allprop = True
            for (bb, t) in fins:
                kd, edges = ok_cut(b, bb)
                if kd not in ("?", "return"):
                    allprop = False
                cut += edges
            okret = [bi for bi, blk in enumerate(b.blocks) for s in blk["s"] if s[0] == "=" and s[1] == [0] and s[2][0] == "agg" and s[2][1][0] == "adt" and s[2][1][2] == "Ok"]
            # only Ok returns that come AFTER the creation count (earlier validation returns are irrelevant)
            reach = set()
            for (bb, t) in news:
                reach |= b.reachable_from(bb, cut_edges=cut)
            bad = [r for r in okret if r in reach]
            ok = allprop and not bad
            why = EXC.get((k, kind))
            if bad and why and len(bad) == 1:
                rep.check(rule, f"{k}/{kind}", True, where=b.loc(), what=f"{k}: {kind} finalized before success, except: {why}", nontrivial=False)
            else:
                rep.check(rule, f"{k}/{kind}", ok, where=b.loc(), what=f"{k}: every Ok return after creating the {kind} passes its finalize() with the result propagated" if ok else
                          f"{k}: can return Ok without a successful {kind}::finalize ({'result not propagated' if not allprop else 'path bypassing finalize'}): staged blobs/index entries may never reach storage")
    rep.floor(rule, "owners of packers/copiers/indexers", n, 6)
    # finalize really waits for the worker
    from rules import C13
    C13.joined(ctx, rep, rule)
