"""C02 - Forget and prune never lose data still referenced by a snapshot.

C02.a blob identity is typed where 'used' is decided (R-TYPEDID on PrunePlan.used_ids).
C02.b the used-blob walk is total and aborts on error: find_used_blobs inserts file contents and subtrees, and the tree
  streamer's results are `?`-propagated.
C02.c decisions that lead to removal require 'no used blob': every set_todo(MarkDelete | Delete | KeepMarked*) is
  control-dependent on used_blobs == 0; Delete additionally on the delete mark and on `now - keep_delete >= pack.time`;
  marked packs with used blobs are recovered.
C02.d plan / executor agreement per PackToDo variant (frozen table): what prune_repository does with a pack of each
  decision (index section, time stamp, removal) and which decisions release a pack's blobs from the used set in
  check_existing_packs; the planner's steps run in the order count -> check -> decide -> check_existing -> filter.
C02.e R-ORDER 13/14 (shared with C03).
C02.f used-blob bookkeeping: check_existing_packs strikes blobs off the still-needed set exactly for packs that stay
  available unmarked (to_do = Keep / Recover), decided per PackToDo variant.
"""
import re
from rules.common import *
from rules.order import must_precede, call_pred, sites, ok_cut
from rules.C18 import cd_conditions, expr_names

TECHNIQUE = ('static analysis over rustc MIR: exact truth table of the prune decision / executor arms by finite-domain interpretation, typed-identity rule on the used-blob set, every-path (must-pass) guards, durable-before-remove ordering on the resolved call graph, strict-reader call-graph reachability')
LEVEL = "other"
EXPLANATION = (
    "Table-agreement and guard rules over commands/prune.rs: for every PackToDo decision the calls reachable in the "
    "matching arm of the executor and of check_existing_packs are compared with a frozen table (confirmed by reading) of "
    "what that decision must and must not do; every decision that can lead to removal is control-dependent on "
    "'no used blob'. Together with the typed-id and ordering rules these are necessary conditions for 'prune never "
    "loses referenced data' - restorability after arbitrary histories itself is a runtime statement.")
NOT_DECIDED = ["restorability of every remaining snapshot after arbitrary histories (runtime)", "duplicate accounting in PackInfo::from_pack (counts are runtime values)"]


def switch_on_todo(body):
    """blocks switching on discriminant(<..>.to_do [PackToDo])"""
    out = []
    for bi in range(len(body.blocks)):
        t = body.term(bi)
        if t["k"] == "switch":
            e = flow.expr_of(body, t["discr"])
            if e[0] == "discr" and "PackToDo" in e[2] and e[1][0] in ("path", "proj") and e[1][2] and e[1][2][-1] == "to_do":
                out.append(bi)
    return out


def arm_blocks(prog, body, sw, variant, adt="commands::prune::PackToDo"):
    t = body.term(sw)
    dv = None
    for v in prog.adt(adt)["variants"]:
        if v["name"] == variant:
            dv = str(v["discr"])
    tgt = None
    for v, x in t["targets"]:
        if v == dv:
            tgt = x
    if tgt is None:
        tgt = t["otherwise"]
    blocks = region_of(body, sw, tgt)
    return blocks, tgt


def region_of(body, sw, tgt, cut_edges=()):
    """blocks executed for one arm of the switch at `sw`: reachable from the arm's target without passing the switch
    again, restricted to the innermost loop containing the switch (arms of a per-item loop)"""
    blocks = body.reachable_from(tgt, cut_blocks=[sw], cut_edges=cut_edges)
    blocks.discard(sw)
    loops = [C.loop_blocks(body, h, l) for (l, h) in C.back_edges(body)]
    inner = [bl for bl in loops if sw in bl]
    if inner:
        inner.sort(key=len)
        blocks &= inner[0]
    return blocks


def calls_in(body, blocks):
    out = {}
    for bb in blocks:
        t = body.term(bb)
        if t["k"] == "call" and "callee" in t:
            out.setdefault(callee(t), []).append(bb)
    return out


def run(ctx, rep):
    prog = ctx.prog
    rep.rule("C02.f", "used-blob bookkeeping: blobs are struck off the still-needed set only for packs that stay available")
    used_bookkeeping_rule(ctx, rep, "C02.f")
    # C02.g = C10.f: deletion marks are persisted (an index file holding only packs_to_delete entries is still written): the
    # keep-delete window and the recovery of marked packs whose blobs are needed again rest on those entries
    rep.rule("C02.g", "deletion marks are persisted: Indexer::save writes the file unless both pack lists are empty (= C10.f)")
    from rules import C10
    C10.marks_persisted_rule(ctx, rep, "C02.g")
    wiring_rule(ctx, rep, "C02")
    for r, tx in (("C02.a", "typed blob identity in the used set"), ("C02.b", "used-blob walk is total and aborts on error"),
                  ("C02.c", "removal decisions require 'no used blob'"), ("C02.d", "plan/executor agreement per decision"), ("C02.e", "index removal before pack removal")):
        rep.rule(r, tx)
    from rules import typedid
    typedid.run(ctx, rep, "C02.a", owners=["commands::prune::PrunePlan.used_ids"])
    # ---- C02.b -------------------------------------------------------------------------------------
    FU = prog.find1(r"^rustic_core::commands::prune::find_used_blobs$")
    nxt = [bb for bb, t in FU.calls() if "callee" in t and re.search(r"TreeStreamerOnce<.*> as std::iter::Iterator>::next$|TreeStreamerOnce.*::next$", callee(t))]
    rep.require("C02.b", "streamer", len(nxt) >= 1, where=FU.loc(), what="find_used_blobs walks the trees with TreeStreamerOnce")
    # the item Result is `?`-propagated: a Try::branch whose operand derives from next()/transpose
    tb = [bb for bb, t in FU.calls() if "callee" in t and flow.TRY_BRANCH.search(callee(t))]
    okp = False
    for b_ in tb:
        sl = flow.backward_slice(FU, op_place(FU.term(b_)["args"][0]))
        if any(n in sl["call_sites"] for n in nxt):
            okp = True
    rep.check("C02.b", "walk-errors-propagated", okp, where=FU.loc(), what="an unreadable tree aborts the used-blob search (the streamer's item is `?`-propagated): its blobs can never be classified as unused")
    ins = []
    for bb, t in FU.calls():
        if "callee" in t and re.search(r"::(extend|insert)$", callee_decl(t)) and t["args"]:
            sl = flow.backward_slice(FU, op_place(t["args"][1])) if len(t["args"]) > 1 and op_place(t["args"][1]) else {"fields": set()}
            ins.append(sl["fields"])
    rep.check("C02.b", "file-contents-used", any("content" in f for f in ins), where=FU.loc(), what="every content blob of a file node is inserted into the used set")
    rep.check("C02.b", "subtrees-used", any("subtree" in f for f in ins), where=FU.loc(), what="every subtree of a directory node is inserted into the used set")
    # snapshot roots: the list of root trees handed to the streamer also seeds the returned used set
    tsn = [(bb, t) for bb, t in FU.calls() if "callee" in t and re.search(r"tree::TreeStreamerOnce(::<.*>|<.*>)?::new$", callee(t))]
    okr = False
    if len(tsn) == 1:
        roots = {flow.base_local(FU, op_place(a)) for a in tsn[0][1]["args"] if op_place(a) and "TreeId" in FU.locals[op_local(a)]}
        okr = bool(roots & flow.backward_slice(FU, [0])["locals"])
    rep.check("C02.b", "roots-used", okr, where=FU.loc(), what="the snapshots' root trees are part of the used set and seed the walk")
    from rules import errprop
    errprop.run_strict_readers(ctx, rep, "C02.b", r"^rustic_core::commands::prune::(find_used_blobs|PrunePlan::from_prune_options)$|^rustic_core::repository::Repository::<S>::prune_plan$", "prune's used-blob walk")
    # ---- C02.c -------------------------------------------------------------------------------------
    DP = prog.find1(r"^rustic_core::commands::prune::PrunePlan::decide_packs$")
    st = [(bb, t) for bb, t in DP.calls() if "callee" in t and callee(t).endswith("prune::PrunePack::set_todo")]
    rep.floor("C02.c", "set_todo sites in decide_packs", len(st), 3)
    ordn = {}
    def todo_alternatives(bb, t):
        """[(variant, [blocks whose control conditions apply])]: the decision is either a literal variant or a local
        that is assigned literal variants on different branches (`let todo = if c { A } else { B }`)"""
        e = flow.expr_of(DP, t["args"][1])

        def var_of(x):
            if x[0] == "agg":
                return x[1][2]
            if x[0] == "const" and isinstance(x[1], int):
                return prog.variant_by_discr("commands::prune::PackToDo", x[1])
            return None
        v = var_of(e)
        if v is not None:
            return [(v, [bb])]
        out = []
        if e[0] == "phi":
            for d in DP.defs().get(e[1], []):
                if d[0] == "stmt":
                    x = flow._rv_expr(DP, d[4], d[1], 0, set())
                    out.append((var_of(x) or "?", [bb, d[1]]))
        return out or [("?", [bb])]

    expanded = []
    for (bb, t) in st:
        for var, blks in todo_alternatives(bb, t):
            expanded.append((bb, t, var, blks))
    for (bb, t, var, blks) in expanded:
        conds = []
        for b_ in blks:
            conds += cd_conditions(DP, b_)
        used0 = any(ex[0] in ("path", "proj") and ex[2] and ex[2][-1] == "used_blobs" and v == "0" for ex, v, sw in conds)
        usedn = any(ex[0] in ("path", "proj") and ex[2] and ex[2][-1] == "used_blobs" and v != "0" for ex, v, sw in conds)
        marked = any(ex[0] in ("path", "proj") and ex[2] and ex[2][-1] == "delete_mark" and v != "0" for ex, v, sw in conds)
        unmarked = any(ex[0] in ("path", "proj") and ex[2] and ex[2][-1] == "delete_mark" and v == "0" for ex, v, sw in conds)
        ordn[var] = ordn.get(var, 0) + 1
        k = f"decide/{var}/{ordn[var]}"
        if var in ("MarkDelete", "Delete", "KeepMarked", "KeepMarkedAndCorrect"):
            # must-pass form: EVERY path to this decision has seen used_blobs == 0 (a weakened `== 0 || ..` does not pass)
            is_used = lambda x: x[0] in ("path", "proj") and bool(x[2]) and x[2][-1] == "used_blobs"
            tgt_blocks = [b_ for b_ in blks if b_ != bb] or [bb]
            ev = all(only_via(DP, b_, is_used, "0") for b_ in tgt_blocks)
            rep.check("C02.c", k + "/every-path", ev, where=where(DP, bb), what=f"{var}: every path to this decision has matched used_blobs == 0" if ev else
                      f"{var} can be reached on a path that never established used_blobs == 0")
        if var in ("MarkDelete",):
            rep.check("C02.c", k, used0 and unmarked, where=where(DP, bb), what="a pack is marked for deletion only if it is unmarked and contains no used blob" if used0 and unmarked else "a pack can be MARKED FOR DELETION although it contains used blobs")
        elif var in ("Delete", "KeepMarked", "KeepMarkedAndCorrect"):
            rep.check("C02.c", k, used0 and marked, where=where(DP, bb), what=f"{var}: only for marked packs without used blobs" if used0 and marked else f"{var} can be decided for a pack that still contains used blobs / is not marked")
            if var == "Delete":
                ge = None
                for ex, v, sw in conds:
                    if ex[0] == "call" and re.search(r"PartialOrd::(ge|le|gt|lt)$|PartialOrd(<.*>)?>::(ge|le|gt|lt)$", ex[1]):
                        nm = [expr_names(DP, a) for a in ex[2]]
                        txt = [repr(a) for a in ex[2]]
                        ge = (ex[1].rsplit("::", 1)[-1], v != "0", txt)
                okt = False
                if ge:
                    op, taken, txt = ge
                    lhs_now = "saturating_sub" in txt[0] and ("keep_delete" in txt[0] or "('arg', 3)" in txt[0])
                    rhs_time = "time" in txt[1] or "Some" in txt[1]
                    okt = (op == "ge" and taken and lhs_now) or (op == "le" and taken and "saturating_sub" in txt[1])
                rep.check("C02.c", "decide/Delete/keep-delete-window", okt, where=where(DP, bb),
                          what="a marked pack is deleted only if now - keep_delete >= the time it was marked" if okt else f"the keep-delete window test guarding Delete is missing or reversed ({ge[:2] if ge else None})")
        elif var == "Recover":
            rep.check("C02.c", k, usedn and marked, where=where(DP, bb), what="a marked pack that contains used blobs is recovered")
        elif var in ("Keep",):
            rep.check("C02.c", k, True, where=where(DP, bb), what="Keep", nontrivial=False)
    for need in ("MarkDelete", "Delete", "KeepMarked", "Recover", "Keep"):
        rep.require("C02.c", f"decides/{need}", ordn.get(need, 0) >= 1, where=DP.loc(), what=f"decide_packs can decide {need}")
    # ---- C02.d -------------------------------------------------------------------------------------
    PR = prog.find1(r"^rustic_core::commands::prune::prune_repository$")
    sws = switch_on_todo(PR)
    rep.require("C02.d", "executor/switch", len(sws) >= 1, where=PR.loc(), what="prune_repository dispatches on pack.to_do")
    ADD = "rustic_core::index::indexer::Indexer::<BE>::add"
    ADDRM = "rustic_core::index::indexer::Indexer::<BE>::add_remove"
    KEEPT = "rustic_core::commands::prune::PrunePack::into_index_pack"
    NOWT = "rustic_core::commands::prune::PrunePack::into_index_pack_with_time"
    # the closure that queues a pack for removal: pushes pack.id to data_packs_remove / tree_packs_remove
    cands = list(prog.closures_of(PR, recursive=False))
    # ... or a helper function / method of the prune module called from prune_repository (e.g. `PacksToRemove::push`)
    for _, t_ in PR.calls():
        if "callee" in t_ and callee(t_).startswith("rustic_core::commands::prune::") and callee(t_) in prog.bodies and prog.bodies[callee(t_)] not in cands:
            cands.append(prog.bodies[callee(t_)])
    delc = [c for c in cands if sum(1 for _, t in c.calls() if "callee" in t and callee(t).endswith("Vec::<T, A>::push")) == 2 and any(cc.get("discr_ty", "").endswith("isize") for cc in [c.term(i) for i in range(len(c.blocks))] if cc["k"] == "switch")]
    rep.require("C02.d", "executor/delete-closure", len(delc) == 1, where=PR.loc(), what="prune_repository has one closure / helper queueing packs for removal (data/tree lists by blob type)")
    if len(sws) >= 1 and len(delc) == 1:
        # the dispatch may be one `match pack.to_do` with nested `if opts.instant_delete`, or a match on the pair
        # (to_do, instant_delete) that rustc lowers to a tree of switches: the arm for (variant, instant) is the set of
        # blocks reached inside one loop iteration when every switch on pack.to_do takes the variant's edge and every test
        # of instant_delete takes the edge for `instant`
        doms = [x for x in sws if all(C.dominates(PR, x, y) for y in sws)]
        sw = doms[0] if doms else sws[0]
        DEL = delc[0].path
        RETAIN = re.compile(r"Vec::<T, A>::retain$")
        # natural loops merged per header (a `continue` adds a second back edge to the same header)
        byh_ = {}
        for (l, h) in C.back_edges(PR):
            byh_.setdefault(h, set()).update(C.loop_blocks(PR, h, l))
        inner_ = sorted([(len(bl), h, bl) for h, bl in byh_.items() if all(x in bl for x in sws)])
        LOOP = inner_[0][2] if inner_ else set(range(len(PR.blocks)))
        LOOP_H = inner_[0][1] if inner_ else None
        BACKS = set(C.back_edges(PR))

        import pathsens

        def arm_region(variant, instant):
            """blocks of the per-pack loop reachable when EVERY switch on pack.to_do (the match, `matches!` tests hoisted in front
            of it, ...) takes the variant's edge and every test of instant_delete the edge for `instant`; bool locals built from
            such tests are followed (pathsens)"""
            dv = None
            for v in prog.adt("commands::prune::PackToDo")["variants"]:
                if v["name"] == variant:
                    dv = str(v["discr"])

            def forced(body, bb):
                if bb in sws:
                    t_ = PR.term(bb)
                    tg = [x for v, x in t_["targets"] if v == dv]
                    return tg[0] if tg else t_["otherwise"]
                if instant is not None:
                    r = field_bool_test(PR, bb, "instant_delete")
                    if r:
                        return r[0] if instant else r[1]
                return None
            ev = flag_eval("instant_delete", instant) if instant is not None else None
            reach = set(pathsens.reachable_under(PR, forced, eval_expr=ev))
            return reach & set(LOOP), reach
        def arm(variant, instant):
            return calls_in(PR, arm_region(variant, instant)[0])

        TABLE = {
            # variant: (mode, required, forbidden, meaning)
            "Keep": [(None, [ADD], [ADDRM, DEL], "stays in the index (packs section)")],
            "Recover": [(None, [ADD], [ADDRM, DEL], "goes back to the packs section of the index")],
            "Repack": [(False, [ADDRM, NOWT], [DEL, ADD], "old pack is listed as to-delete with time = now"), (True, [DEL], [ADD, ADDRM], "old pack is queued for removal"),
                       (False, ["retain"], [], "only blobs still in the used set are repacked"), (True, ["retain"], [], "only blobs still in the used set are repacked")],
            "MarkDelete": [(False, [ADDRM, NOWT], [DEL, ADD, KEEPT], "listed as to-delete with time = now (the keep-delete window starts at marking)"), (True, [DEL], [ADD, ADDRM], "queued for removal")],
            "KeepMarked": [(False, [ADDRM, KEEPT], [DEL, ADD, NOWT], "stays listed as to-delete with its ORIGINAL mark time"), (True, [DEL], [ADD, ADDRM], "queued for removal")],
            "KeepMarkedAndCorrect": [(False, [ADDRM, KEEPT], [DEL, ADD, NOWT], "stays listed as to-delete; a missing time is healed"), (True, [DEL], [ADD, ADDRM], "queued for removal")],
            "Delete": [(None, [DEL], [ADD, ADDRM], "queued for removal")],
        }
        for var, rows in TABLE.items():
            for i, (mode, req, forb, meaning) in enumerate(rows, 1):
                for m in ([False, True] if mode is None else [mode]):
                    cs = arm(var, m)
                    names = set(cs)
                    def has(x):
                        if x == "retain":
                            return any(RETAIN.search(n) for n in names)
                        return x in names
                    missing = [x.rsplit("::", 1)[-1] for x in req if not has(x)]
                    extra = [x.rsplit("::", 1)[-1] if x != DEL else "delete_pack" for x in forb if has(x)]
                    rep.check("C02.d", f"executor/{var}/{'instant' if m else 'deferred'}/{i}", not missing and not extra, where=where(PR, sw),
                              what=f"prune_repository, {var} ({'instant-delete' if m else 'no instant-delete'}): {meaning}" if not missing and not extra else
                                   f"prune_repository, {var} ({'instant-delete' if m else 'no instant-delete'}) should be '{meaning}' but " + (f"lacks {missing} " if missing else "") + (f"does {extra}" if extra else ""))
        # Undecided is an error: with every pack undecided the loop body ends in an Err return - no index/removal effect, and the
        # loop never goes round
        reg, full_ = arm_region("Undecided", None)
        latches = {l_ for (l_, h_) in BACKS if h_ == LOOP_H}
        # (a block that returns is not part of the natural loop: look for the Err return among everything reachable from the loop)
        from_loop_ = PR.reachable_from(list(reg)) & full_ if reg else set()
        errs_ = any(s_[0] == "=" and s_[1] == [0] and s_[2][0] == "agg" and s_[2][1][0] == "adt" and s_[2][1][2] == "Err" for bb_ in from_loop_ for s_ in PR.blocks[bb_]["s"])
        eff_ = [n for n in calls_in(PR, reg) if n in (ADD, ADDRM, DEL)]
        oku = errs_ and not eff_ and not (latches & reg)
        rep.check("C02.d", "executor/Undecided", oku, where=where(PR, sw), what="an undecided pack aborts prune with an error")
    # check_existing_packs: which decisions release a pack's blobs from the used set
    CE = prog.find1(r"^rustic_core::commands::prune::PrunePlan::check_existing_packs$")
    # decided per PackToDo variant by forcing every switch on pack.to_do (one match, nested matches! tests, if-chains alike)
    table_ = used_bookkeeping_table(prog, CE)
    rep.require("C02.d", "check_existing/switch", table_ is not None, where=CE.loc(), what="check_existing_packs strikes blobs off used_ids depending on pack.to_do")
    if table_ is not None:
        for var in prog.variants("commands::prune::PackToDo"):
            if var == "Undecided":
                continue
            rel = table_[var]
            want = var in ("Keep", "Recover")
            rep.check("C02.d", f"check_existing/{var}", rel == want, where=CE.loc(),
                      what=(f"{var}: the pack's blobs are {'released from' if rel else 'kept in'} the used set (" + ("they stay available in this pack)" if want else "only blobs still in the used set are repacked / nothing may release them)")) if rel == want else
                           (f"{var}: the pack's blobs are REMOVED from the used set although the pack does not stay in the index: a used blob whose only live copy is repacked later is dropped" if rel else
                            f"{var}: the pack's blobs stay in the used set although the pack is kept: repacking duplicates them"))
    # planner step order
    FP = prog.find1(r"^rustic_core::commands::prune::PrunePlan::from_prune_options$")
    steps = ["count_used_blobs", "check", "decide_packs", "decide_repack", "check_existing_packs", "filter_index_files"]
    for a, b in zip(steps, steps[1:]):
        must_precede(ctx, rep, "C02.d", f"plan-order/{a}-{b}", FP, call_pred(rf"prune::PrunePlan::{a}$"), call_pred(rf"prune::PrunePlan::{b}$"), what_a=a, what_b=b)
    index_rewrite_rule(ctx, rep, "C02.d")
    # ---- C02.e -------------------------------------------------------------------------------------
    from rules import C03
    from rules.C10 import borrow
    n = borrow(rep, ctx, C03, lambda o: o.rule == "R-ORDER" and re.search(r"/R-ORDER/(13|13b|14)/", o.key), "C02.e")
    rep.floor("C02.e", "borrowed obligations", n, 4)


def index_rewrite_rule(ctx, rep, R):
    """which index files prune rewrites (PrunePlan::filter_index_files): an index file must be processed whenever one of
    its packs gets a decision that changes its index entry. Exact, by concrete interpretation of the predicate closure
    over PackToDo x instant_delete: only Keep (and KeepMarked without instant delete) leave an entry as it is; Recover,
    KeepMarkedAndCorrect, Repack, MarkDelete, Delete change it. (Omitting Recover makes prune answer 'nothing to do'
    while packs that a concurrent backup re-used stay marked for deletion.)"""
    import findom
    prog = ctx.prog
    F = prog.find1(r"^rustic_core::commands::prune::PrunePlan::filter_index_files$")
    fam = [F] + prog.closures_of(F)
    variants = [v for v in prog.variants("commands::prune::PackToDo")]
    WANT = {v: (True, True) for v in variants}
    WANT["Keep"] = (False, False)
    WANT["KeepMarked"] = (False, True)
    found = []
    for c in fam:
        if not c.is_closure() or c.locals[0] != "bool" or c.argc < 2 or "PrunePack" not in c.locals[2]:
            continue
        table = {}
        exact = True
        for var in variants:
            row = []
            for inst in (False, True):
                it = findom.Interp(prog, c, {1: ("tuple", [inst]), 2: {"to_do": findom.Enum("rustic_core::commands::prune::PackToDo", var)}})
                it.run()
                v = it.return_value()
                if not isinstance(v, bool):
                    exact = False
                row.append(v)
            table[var] = tuple(row)
        # how is the predicate consumed?
        cons = None
        for g in fam:
            for bb, t in g.calls():
                if "callee" in t and re.search(r"Iterator::(any|all)$", callee_decl(t)) and any(c.path in repr(flow.expr_of(g, a, bb)) for a in t["args"][1:]):
                    cons = callee_decl(t).rsplit("::", 1)[-1]
        found.append((c, table, exact, cons))
    if not found:
        # the per-pack test written inline (a loop with a flag instead of `any(closure)`): the retain closure itself is
        # evaluated - index not modified, large enough, every pack of it with the given decision - and its result must be
        # "keep for processing" exactly where the table says so
        from rules.C11 import _upvar_name
        adt = prog.adt("commands::prune::PackToDo")
        dv_of = {v["name"]: str(v["discr"]) for v in adt["variants"]}
        for c in fam:
            if not c.is_closure() or c.locals[0] != "bool" or "modified" not in repr([flow.expr_of(c, c.term(bi)["discr"], bi) for bi in range(len(c.blocks)) if c.term(bi)["k"] == "switch"]):
                continue
            table, exact = {}, True
            for var in variants:
                row = []
                for inst in (False, True):
                    def ev(b_, e_, var=var, inst=inst):
                        if e_[0] in ("path", "proj") and "modified" in [str(x) for x in e_[2]]:
                            return False
                        if e_[0] == "path" and e_[1] == ("arg", 1) and e_[2] and str(e_[2][0]).isdigit() and b_.is_closure():
                            return inst if _upvar_name(b_, int(e_[2][0])) == "instant_delete" else None
                        if e_[0] == "call" and re.search(r"PartialEq(<.*>)?>?::(eq|ne)$", e_[1]) and len(e_[2]) == 2:
                            w = None
                            for a_, o_ in ((e_[2][0], e_[2][1]), (e_[2][1], e_[2][0])):
                                m_ = re.search(r"\('adt', '[\w:]*PackToDo', '(\w+)'", repr(o_))
                                if m_ and "'to_do'" in repr(a_) and "'to_do'" not in repr(o_):
                                    w = m_.group(1)
                            if w is not None:
                                return (var == w) == e_[1].endswith("eq")
                        if e_[0] == "bin" and e_[1] in ("Lt", "Le", "Gt", "Ge") and len(e_) >= 4:
                            # the index file is large enough (its length exceeds any constant it is compared with)
                            is_len = lambda x_: x_[0] == "call" and re.search(r"::len$", x_[1]) is not None
                            if is_len(e_[2]) and e_[3][0] == "const":
                                return e_[1] in ("Gt", "Ge")
                            if is_len(e_[3]) and e_[2][0] == "const":
                                return e_[1] in ("Lt", "Le")
                        return None

                    def fz(body, bb, var=var):
                        t = body.term(bb)
                        if t["k"] != "switch":
                            return None
                        src = [s_ for s_ in body.blocks[bb]["s"] if s_[0] == "=" and s_[1] == [op_local(t["discr"])] and s_[2][0] == "discr" and "PackToDo" in str(s_[2][2])]
                        if not src:
                            return None
                        tg = [x for vv, x in t["targets"] if vv == dv_of[var]]
                        return tg[0] if tg else t["otherwise"]
                    vals = bool_result_under(c, ev, force_extra=fz)
                    row.append(vals)
                table[var] = tuple(row)
            bad = {k: tuple(sorted(map(str, x)) for x in table[k]) for k in table
                   if any((True not in table[k][i]) if WANT[k][i] else (table[k][i] != {False}) for i in (0, 1))}
            rep.require(R, "filter_index_files/predicate", True, where=F.loc(), what="filter_index_files decides per pack whether the index file has to be rewritten (inline form)")
            rep.check(R, "filter_index_files/rewrite-table", not bad, where=c.loc(),
                      what="an index file is rewritten iff one of its packs gets a decision other than Keep (or KeepMarked without instant delete)" if not bad else
                           f"the decisions that force an index file to be rewritten differ from the executor's needs (possible results of the retain predicate as (no-instant, instant)): {bad}")
            return
    rep.require(R, "filter_index_files/predicate", len(found) >= 1, where=F.loc(), what="filter_index_files decides per pack whether the index file has to be rewritten")
    for (c, table, exact, cons) in found:
        if not exact:
            rep.check(R, "filter_index_files/rewrite-table", False, where=c.loc(), what=f"the per-pack predicate could not be evaluated exactly over PackToDo x instant_delete: {table}")
            continue
        neg = {k: tuple(not x for x in v) for k, v in WANT.items()}
        ok = (table == WANT and cons in ("any", None)) or (table == neg and cons == "all")
        diff = {k: (table[k], WANT[k] if cons != "all" else neg[k]) for k in table if table[k] != (WANT[k] if cons != "all" else neg[k])}
        rep.check(R, "filter_index_files/rewrite-table", ok, where=c.loc(),
                  what="an index file is rewritten iff one of its packs gets a decision other than Keep (or KeepMarked without instant delete)" if ok else
                       f"the decisions that force an index file to be rewritten differ from the executor's needs (predicate vs required, as (no-instant, instant)): {diff}")


def used_bookkeeping_table(prog, F):
    """{PackToDo variant: is a `used_ids.remove` call reachable when every switch on pack.to_do takes that variant's edge};
    None if check_existing_packs has no such call in its own body"""
    import pathsens
    fam = [F] + prog.closures_of(F)
    rms = [(f, bb) for f in fam for bb, t in f.calls() if "callee" in t and re.search(r"(BTreeMap|BTreeSet|HashMap|HashSet)<.*>::remove$|::remove$", callee(t)) and t["args"] and op_place(t["args"][0])
           and "used_ids" in flow.backward_slice(f, op_place(t["args"][0]))["fields"]]
    if not rms or not all(f is F for f, _ in rms):
        return None
    adt = prog.adt("commands::prune::PackToDo")
    table = {}
    for v in adt["variants"]:
        dv = str(v["discr"])

        def fz(body, bb, dv=dv):
            t = body.term(bb)
            if t["k"] != "switch":
                return None
            src = [s_ for s_ in body.blocks[bb]["s"] if s_[0] == "=" and s_[1] == [op_local(t["discr"])] and s_[2][0] == "discr" and "PackToDo" in str(s_[2][2])]
            if not src:
                return None
            tg = [x for vv, x in t["targets"] if vv == dv]
            return tg[0] if tg else t["otherwise"]
        reach = pathsens.reachable_under(F, fz)
        table[v["name"]] = any(bb in reach for _, bb in rms)
    return table


def used_bookkeeping_rule(ctx, rep, R):
    """PrunePlan::check_existing_packs strikes a blob off `used_ids` (the blobs that still need a home; whatever is left is
    copied by the repack step or reported) exactly for packs that stay available unmarked: to_do = Keep or Recover.
    Evaluated per PackToDo variant by forcing every switch on `pack.to_do`: the `used_ids.remove` call is reachable for
    Keep and Recover only. Striking them off for packs that stay marked (KeepMarked*) or go away (Delete, MarkDelete, Repack)
    drops the last usable copy of a blob."""
    prog = ctx.prog
    F = prog.find1(r"^rustic_core::commands::prune::PrunePlan::check_existing_packs$")
    table = used_bookkeeping_table(prog, F)
    rep.require(R, "used-ids/remove-site", table is not None, where=F.loc(), what="check_existing_packs strikes blobs off used_ids in its own body")
    if table is None:
        return
    adt = prog.adt("commands::prune::PackToDo")
    want = {v["name"]: v["name"] in ("Keep", "Recover") for v in adt["variants"]}
    ok = table == want
    rep.check(R, "used-ids/struck-off-only-for-kept-packs", ok, where=F.loc(),
              what="blobs are struck off the still-needed set exactly for packs that stay available (Keep, Recover)" if ok else
                   f"blobs are struck off the still-needed set for {sorted(k for k, v in table.items() if v)} (must be exactly Keep and Recover): a used blob whose other copy sits in such a pack is not repacked and ends up in no index")
