"""C04 - Stored data is authenticated ciphertext; tampering is always detected.

C04.a encrypted-type table: for every impl of RepoFile the value of ENCRYPTED; exactly KeyFile is unencrypted.
C04.b who-may-write-raw: the content of every non-forwarding WriteBackend::write_bytes call derives from
  CryptoKey::encrypt_data (directly or via encrypt_file/process_data), with a frozen list of exceptions;
  blobs reach a pack only through process_data or a same-repository fast copy.
C04.c fresh nonce: the nonce of encrypt_in_place_detached is a local filled by rand's fill_bytes and is what is
  prepended to the output.
C04.d authenticate-then-release: decrypt_data returns only the AEAD's decrypt result; every decrypt path of
  DecryptBackend goes through it; decompression and the length check come after it.
C04.e id verification on read (substitution): read paths compare hash(bytes) with the requested id.
C04.f key handling: only a MAC failure (C001) moves on to the next key; delete_key refuses the key in use.
C04.h unlocking is a function of (key file, password) only: rustic_core keeps no process-wide or thread-local state (once
  cells, thread_local!, statics with interior mutability) that is fed from function arguments (= C13.g): a cache of derived
  keys by salt would unlock with any password after the first success.
"""
import re
from rules.common import *

TECHNIQUE = ("static analysis over rustc MIR: backward data provenance of every byte buffer handed to write_bytes (must derive from AEAD output), evaluated RepoFile::ENCRYPTED constants, nonce freshness through helpers, authenticate-before-release ordering, read-error propagation evaluated under 'result is Err', process-wide / thread-local state rule")
LEVEL = "other"
EXPLANATION = (
    "Provenance (backward data dependence over MIR) of the bytes handed to the storage layer, evaluated constants of the "
    "RepoFile impls, and must-call / ordering rules in the encrypt and decrypt paths. Decides that only AEAD output "
    "(or files documented as unencrypted / byte copies of stored files) can reach write_bytes and that plaintext is "
    "released only after the AEAD accepted it - not cryptographic strength, and not detection of arbitrary bit flips.")
NOT_DECIDED = ["no plaintext appears in storage / every bit flip is detected as statements about bytes (runtime + cryptographic assumption)",
               "strength of AES-256-CTR + Poly1305-AES and scrypt (trusted crates)"]
TRUSTED = ["aes256ctr_poly1305aes::Aead implementation authenticates before returning plaintext", "rand::rng() is a CSPRNG"]

ENC = re.compile(r"CryptoKey(>)?::encrypt_data$|DecryptBackend::<C>::(encrypt_file|encrypt_data)$|DecryptWriteBackend(>)?::process_data$")


def run(ctx, rep):
    prog = ctx.prog
    wiring_rule(ctx, rep, "C04")
    for r, tx in (("C04.a", "exactly KeyFile is stored unencrypted"), ("C04.b", "write_bytes content derives from encrypt_data (frozen exceptions)"),
                  ("C04.c", "fresh random nonce per message"), ("C04.d", "plaintext is released only after AEAD verification"),
                  ("C04.e", "ids are verified on read"), ("C04.f", "key handling")):
        rep.rule(r, tx)
    # ---- C04.a ------------------------------------------------------------------------------------
    impls = prog.impls_of_trait("repofile::RepoFile")
    rep.floor("C04.a", "impls of RepoFile", len(impls), 3)
    default = None
    for p, cb in prog.const_bodies.items():
        if p.endswith("repofile::RepoFile::ENCRYPTED"):
            for blk in cb.blocks:
                for s in blk["s"]:
                    if s[0] == "=" and s[1] == [0] and s[2][0] == "use" and s[2][1][0] == "k":
                        default = s[2][1][1].get("v")
    if default is None:
        raise AnchorError("default value of RepoFile::ENCRYPTED not found")
    for im in impls:
        ty = im["header"]["self"]
        over = [it for it in im["items"] if it["name"] == "ENCRYPTED"]
        val = default
        if over:
            c = prog.consts.get(over[0]["path"])
            if c is None or c.get("val") is None:
                raise AnchorError(f"cannot evaluate {over[0]['path']}")
            val = c["val"]
        short = ty.split("::")[-1]
        expect = short != "KeyFile"
        rep.check("C04.a", f"encrypted/{short}", val == expect, where=span_str(im["span"]),
                  what=f"{short}: ENCRYPTED = {val}" + ("" if val == expect else (" - this file type would be stored in PLAINTEXT" if not val else " - key files must be readable without the master key")))
    # ---- C04.b ------------------------------------------------------------------------------------
    fwd, nonfwd = [], []
    for b in prog.by_crate["rustic_core"]:
        for bb, t in b.calls():
            if "callee" in t and is_method_of(t, RE_WRITE_BYTES):
                p = op_place(t["args"][4]) if len(t["args"]) > 4 else None
                pp = flow.place_path(b, p) if p else None
                is_impl = (b.impl or {}).get("trait", "").endswith("backend::WriteBackend")
                if is_impl and pp and pp[0][0] == "arg" and not pp[1]:
                    fwd.append((b, bb))
                else:
                    nonfwd.append((b, bb, t))
    rep.count("C04.b: forwarding write_bytes sites (wrappers passing their own content parameter)", len(fwd))
    rep.floor("C04.b", "non-forwarding write_bytes sites", len(nonfwd), 5)
    EXC = {
        "commands::key::add_key_to_repo": "KeyFile is the documented unencrypted type; its `data` field is itself encrypt_data output",
        "commands::repair::hotcold::copy::{closure#0}": "byte copy of files already stored (cold <-> hot)",
        "blob::packer::FileWriterHandle::<BE>::process": "pack bytes: assembled by BasicPacker from process_data output, encrypted header and length (rule pack-path below)",
        "commands::init::init_key": "KeyFile",
    }
    for (b, bb, t) in nonfwd:
        k = fn_key(b)
        sl = flow.backward_slice(b, op_place(t["args"][4])) if op_place(t["args"][4]) else {"calls": set()}
        # must-derive: EVERY origin of the bytes is the result of an encrypting call (a conditional `if fast { raw } else
        # { encrypt(raw) }` has a second origin and does not pass)
        orig = flow.origins(b, op_place(t["args"][4])) if op_place(t["args"][4]) else []
        enc = bool(orig) and all(o.kind == "call" and ENC.search(o.data[1]) for o in orig)
        why = None
        if not enc:
            # save_file: the branch must be the `!F::ENCRYPTED` one
            if k == "backend::decrypt::DecryptWriteBackend::save_file":
                conds = [flow.expr_of(b, b.term(sw)["discr"]) for (sw, succ) in C.transitive_control_deps(b, bb)]
                vals = [succ for (sw, succ) in C.transitive_control_deps(b, bb)]
                okc = False
                for (sw, succ) in C.transitive_control_deps(b, bb):
                    e = flow.expr_of(b, b.term(sw)["discr"])
                    if e[0] == "const" and isinstance(e[1], str) and e[1].endswith("RepoFile::ENCRYPTED"):
                        zero = [x for v, x in b.term(sw)["targets"] if v == "0"]
                        okc = bool(zero) and succ == zero[0]
                if okc:
                    why = "unencrypted write only on the `!F::ENCRYPTED` branch (KeyFile, rule C04.a)"
            elif k in EXC:
                why = EXC[k]
        rep.check("C04.b", f"write/{k}", enc or why is not None, where=where(b, bb),
                  what=f"{k}: content written derives from encrypt_data" if enc else (f"{k}: {why}" if why else f"{k}: content handed to write_bytes does NOT derive from encrypt_data (calls in its slice: {sorted(strip_crate(c) for c in sl['calls'])[:8]})"))
    # pack path: who feeds RawPacker::add_raw
    feeders = []
    for b in prog.by_crate["rustic_core"]:
        for bb, t in b.calls():
            if "callee" in t and re.search(r"^rustic_core::blob::packer::RawPacker::<BE>::add_raw$", callee(t)):
                feeders.append((b, bb, t))
    rep.floor("C04.b", "RawPacker::add_raw call sites", len(feeders), 1)
    for (b, bb, t) in feeders:
        k = fn_key(b)
        sl = flow.backward_slice(b, op_place(t["args"][1])) if op_place(t["args"][1]) else {"calls": set(), "args": set()}
        root = prog.bodies.get(b.root) if b.is_closure() else b
        fam = [root] + prog.closures_of(root)
        has_pd = any(re.search(r"DecryptWriteBackend(>)?::process_data$", callee(tt)) for f in fam for _, tt in f.calls() if "callee" in tt)
        if k.startswith("blob::packer::Packer::<BE>::new"):
            ok = has_pd
            what = "Packer pipeline: the stage before RawPacker::add_raw is process_data (compress + encrypt)"
        elif k == "blob::packer::Packer::<BE>::add_raw":
            # raw add: only BlobCopier::copy_fast may call it (same-repository copy of already encrypted blobs)
            callers = [(c, cb) for c in prog.by_crate["rustic_core"] for cb, ct in c.calls() if "callee" in ct and callee(ct) == "rustic_core::blob::packer::Packer::<BE>::add_raw"]
            ok = all(fn_key(c) == "blob::packer::BlobCopier::<BE>::copy_fast" for c, _ in callers) and len(callers) >= 1
            what = f"Packer::add_raw (stores bytes as they are) is called only by BlobCopier::copy_fast ({[fn_key(c) for c, _ in callers]})"
        else:
            ok = False
            what = f"unexpected feeder of RawPacker::add_raw: {k}"
        rep.check("C04.b", f"pack-path/{k}", ok, where=where(b, bb), what=what)
    # copy_fast only where source and destination repository are the same value
    cf = [(c, cb, ct) for c in prog.by_crate["rustic_core"] for cb, ct in c.calls() if "callee" in ct and callee(ct).endswith("blob::packer::BlobCopier::<BE>::copy_fast")]
    rep.floor("C04.b", "copy_fast call sites", len(cf), 1)
    for (c, cb, ct) in cf:
        root = prog.bodies.get(c.root) if c.is_closure() else c
        news = [(bb2, t2) for bb2, t2 in root.calls() if "callee" in t2 and callee(t2).endswith("blob::packer::BlobCopier::<BE>::new")]
        same = bool(news)
        for bb2, t2 in news:
            o1 = flow.origins(root, op_place(t2["args"][0])) if op_place(t2["args"][0]) else []
            o2 = flow.origins(root, op_place(t2["args"][1])) if op_place(t2["args"][1]) else []
            s1 = {(o.kind, str(o.data[1]) if o.kind == "call" else str(o.data)) for o in o1}
            s2 = {(o.kind, str(o.data[1]) if o.kind == "call" else str(o.data)) for o in o2}
            if not s1 or s1 != s2:
                same = False
        rep.check("C04.b", f"copy_fast/{fn_key(c)}", same, where=where(c, cb),
                  what=f"{fn_key(c)}: copy_fast (no re-encryption) is used only with source and destination being the same repository backend" if same else
                       f"{fn_key(c)}: copy_fast copies ciphertext between DIFFERENT repositories/keys")
    # ---- C04.c ------------------------------------------------------------------------------------
    E = prog.find1(r"^<rustic_core::crypto::aespoly1305::Key as rustic_core::crypto::CryptoKey>::encrypt_data$")
    enc_calls = [(bb, t) for bb, t in E.calls() if "callee" in t and re.search(r"AeadInPlace(>)?::encrypt_in_place_detached$", callee(t) + "|" + callee_decl(t))]
    enc_calls = [(bb, t) for bb, t in E.calls() if "callee" in t and (callee(t).endswith("encrypt_in_place_detached") or callee_decl(t).endswith("encrypt_in_place_detached"))]
    rep.require("C04.c", "encrypt-call", len(enc_calls) == 1, where=E.loc(), what="encrypt_data calls encrypt_in_place_detached once")
    if len(enc_calls) == 1:
        bb, t = enc_calls[0]
        nonce_local = flow.base_local(E, op_place(t["args"][1])) if op_place(t["args"][1]) else None
        if nonce_local is not None and (nonce_local <= E.argc or nonce_local == 0):
            nonce_local = None
        rep.check("C04.c", "nonce-is-local", nonce_local is not None, where=where(E, bb), what="the nonce is a local of encrypt_data (not a field, static or parameter)")
        if nonce_local is not None:
            def filled_from_rng(B, place, use_bb, depth=0):
                """the buffer behind `place` is filled by rand::rng().fill_bytes at sites that dominate use_bb - in B itself, or in
                a crate-local helper that returns the freshly filled value (`fn random_nonce() -> Nonce`)"""
                base = flow.base_local(B, place)
                nsl = flow.backward_slice(B, place)["locals"] | ({base} if base is not None else set())
                fills = []
                for b2, t2 in B.calls():
                    if "callee" in t2 and (re.search(r"::fill_bytes$", callee(t2)) or callee_decl(t2).endswith("fill_bytes")):
                        for a in t2["args"][1:]:
                            bl = flow.base_local(B, op_place(a)) if op_place(a) else None
                            # the buffer that is filled is the nonce itself or the array the nonce is built from
                            if bl is not None and bl in nsl and bl > B.argc:
                                src = flow.origins(B, op_place(t2["args"][0])) if op_place(t2["args"][0]) else []
                                rng = any(o.kind == "call" and re.search(r"^rand::(rng|thread_rng)$|rand::rngs::", o.data[1]) for o in src)
                                fills.append((b2, rng))
                if fills:
                    return all(C.dominates(B, f, use_bb) for f, _ in fills) and all(r for _, r in fills)
                if depth >= 2:
                    return False
                orig = flow.origins(B, place)
                hs = [o for o in orig if o.kind == "call" and o.data[1].startswith("rustic_core::") and o.data[1] in prog.bodies]
                if not orig or len(hs) != len(orig):
                    return False
                for o in hs:
                    H = prog.bodies[o.data[1]]
                    rets = H.returns()
                    if not rets or not all(filled_from_rng(H, [0], r_, depth + 1) for r_ in rets):
                        return False
                return True
            okf = filled_from_rng(E, op_place(t["args"][1]), bb)
            rep.check("C04.c", "nonce-filled-from-rng", okf, where=where(E, bb), what="the nonce is filled by rand::rng().fill_bytes on every path before it is used" if okf else "the nonce is NOT freshly filled from rand::rng() before encryption (nonce reuse)")
            # the same nonce is what is prepended (first extend_from_slice)
            ext = [(b2, t2) for b2, t2 in E.calls() if "callee" in t2 and callee(t2).endswith("extend_from_slice")]
            firstn = False
            if ext:
                b2, t2 = ext[0]
                sl = flow.backward_slice(E, op_place(t2["args"][1])) if op_place(t2["args"][1]) else {"locals": set()}
                firstn = nonce_local in sl["locals"] and all(C.dominates(E, b2, x) for x, _ in ext)
            rep.check("C04.c", "nonce-prepended", firstn, where=E.loc(), what="the nonce used for encryption is the first thing appended to the output")
    # ---- C04.d ------------------------------------------------------------------------------------
    D = prog.find1(r"^<rustic_core::crypto::aespoly1305::Key as rustic_core::crypto::CryptoKey>::decrypt_data$")
    dec = [(bb, t) for bb, t in D.calls() if "callee" in t and re.search(r"Aead(>)?::decrypt$", callee(t)) or ("callee" in t and callee_decl(t).endswith("aead::Aead::decrypt"))]
    rep.require("C04.d", "aead-decrypt", len(dec) == 1, where=D.loc(), what="decrypt_data calls the AEAD's decrypt once")
    if len(dec) == 1:
        # every Ok that reaches the return derives from that call: _0 is defined only by (map_err of) it or by Err aggregates
        okd = True
        for d in D.defs().get(0, []):
            if d[0] == "call":
                sl = flow.backward_slice(D, [0])
                okd = okd and any(c.endswith("Aead::decrypt") or re.search(r"Aead(>)?::decrypt$", c) for c in sl["calls"])
            elif d[0] == "stmt":
                rv = d[4]
                if rv[0] == "agg" and rv[1][0] == "adt" and rv[1][2] == "Ok" and len(rv[2]) == 1 and op_place(rv[2][0]) is not None:
                    # `match cipher.decrypt(..) { Ok(p) => Ok(p), Err(e) => Err(..) }`: the payload's only origin is the AEAD call
                    orig = flow.origins(D, op_place(rv[2][0]))
                    if not orig or not all(o.kind == "call" and (o.data[1].endswith("Aead::decrypt") or re.search(r"Aead(>)?::decrypt$", o.data[1])) for o in orig):
                        okd = False
                elif not (rv[0] == "agg" and rv[1][0] == "adt" and rv[1][2] == "Err"):
                    okd = False
        rep.check("C04.d", "only-aead-output", okd, where=D.loc(), what="decrypt_data returns Ok only with the output of the AEAD's decrypt (authentication happens inside it)")
    DB = "rustic_core::backend::decrypt::DecryptBackend::<C>::"
    DF = prog.fn(DB + "decrypt_file")
    dcalls = [bb for bb, t in DF.calls() if "callee" in t and re.search(r"DecryptReadBackend(>)?::decrypt$", callee(t) + " " + callee_decl(t))]
    later = [bb for bb, t in DF.calls() if "callee" in t and re.search(r"decode_all$|::first$", callee(t))]
    from rules.order import ok_cut
    okf = len(dcalls) == 1 and ok_cut(DF, dcalls[0])[0] == "?" and all(x not in DF.reachable_from(0, cut_edges=ok_cut(DF, dcalls[0])[1]) for x in later) and bool(later)
    rep.check("C04.d", "decrypt_file/decrypt-first", okf, where=DF.loc(), what="decrypt_file inspects / decompresses the bytes only after a successful decrypt")
    RPF = prog.find1(r"^rustic_core::backend::decrypt::DecryptReadBackend::read_encrypted_from_partial$")
    dcalls = [bb for bb, t in RPF.calls() if "callee" in t and re.search(r"DecryptReadBackend(>)?::decrypt$", callee(t) + " " + callee_decl(t))]
    later = [bb for bb, t in RPF.calls() if "callee" in t and re.search(r"decode_all$", callee(t))]
    okp = len(dcalls) == 1 and ok_cut(RPF, dcalls[0])[0] == "?" and bool(later) and all(x not in RPF.reachable_from(0, cut_edges=ok_cut(RPF, dcalls[0])[1]) for x in later)
    rep.check("C04.d", "read_encrypted_from_partial/decrypt-first", okp, where=RPF.loc(), what="blob reads decompress only after a successful decrypt")
    # the decompressed length is compared with the recorded uncompressed length
    cmp_len = False
    for bi, blk in enumerate(RPF.blocks):
        for s in blk["s"]:
            if s[0] == "=" and s[2][0] == "bin" and s[2][1] in ("Ne", "Eq"):
                names = set()
                for o in (s[2][2], s[2][3]):
                    if op_place(o):
                        sl = flow.backward_slice(RPF, op_place(o))
                        names |= {c.rsplit("::", 1)[-1] for c in sl["calls"]} | sl["fields"] | {f"arg{a}" for a in sl["args"]}
                if "len" in names and ("arg3" in names or "get" in names):
                    cmp_len = True
    rep.check("C04.d", "read_encrypted_from_partial/length-check", cmp_len, where=RPF.loc(), what="the decompressed length is compared with the recorded uncompressed length")
    REF = prog.fn("<rustic_core::backend::decrypt::DecryptBackend<C> as rustic_core::backend::decrypt::DecryptReadBackend>::read_encrypted_full")
    rf = [bb for bb, t in REF.calls() if "callee" in t and is_method_of(t, RE_READ_FULL)]
    dfc = [bb for bb, t in REF.calls() if "callee" in t and callee(t) == DB + "decrypt_file"]
    rep.check("C04.d", "read_encrypted_full/decrypts", len(rf) == 1 and len(dfc) == 1 and C.dominates(REF, rf[0], dfc[0]) and 0 in flow.forward_aliases(REF, REF.term(dfc[0])["dest"][0], through=re.compile(r"Result::<T, E>::(map|map_err)$"))[0],
              where=REF.loc(), what="read_encrypted_full returns the result of decrypt_file applied to the bytes read")
    # ---- C04.e ------------------------------------------------------------------------------------
    hash_cmp = any("callee" in t and re.search(r"crypto::hasher::hash$", callee(t)) for bb, t in REF.calls())
    rep.check("C04.e", "read_encrypted_full/id-verified", hash_cmp, where=REF.loc(),
              what="read_encrypted_full compares hash(bytes read) with the requested id" if hash_cmp else
                   "read_encrypted_full returns the decrypted content of whatever bytes the backend delivered for the id: a stored file SUBSTITUTED by another valid file of the repository is accepted (no hash(bytes) == id check)")
    hash_cmp2 = any("callee" in t and re.search(r"crypto::hasher::hash$", callee(t)) for bb, t in RPF.calls())
    rep.check("C04.e", "read_encrypted_from_partial/id-verified", hash_cmp2, where=RPF.loc(),
              what="blob reads compare hash(plaintext) with the blob id" if hash_cmp2 else
                   "blob reads do not compare hash(plaintext) with the blob id: a blob replaced by another valid blob of equal length is returned without error")
    from rules import errprop
    errprop.run_iter(ctx, rep, "C04.g")
    # C04.h: unlocking is a function of (key file, password): no process-wide / thread-local cache fed from arguments
    from rules import C13
    C13.global_state_rule(ctx, rep, "C04.h")
    # key material and passwords
    KD = [b for b in prog.by_crate["rustic_core"] for bb, t in b.calls() if "callee" in t and callee(t) == "<rustic_core::crypto::aespoly1305::Key as std::default::Default>::default"]
    bad = sorted({fn_key(b) for b in KD if not (b.impl or {}).get("trait", "").endswith("default::Default") or "MasterKey" in b.path or "KeyFile" in b.path})
    rep.check("C04.f", "no-default-key-as-secret", not bad, where="crates/core/src/crypto/aespoly1305.rs", what="the all-zero Key::default() is never used where a key is generated" if not bad else f"Key::default() (all zero bytes) is used as key material in {bad}: every generated key is the same known key")
    KN = prog.find1(r"^rustic_core::crypto::aespoly1305::Key::new$")
    fills = [bb for bb, t in KN.calls() if "callee" in t and callee_decl(t).endswith("fill_bytes")]
    rng = [bb for bb, t in KN.calls() if "callee" in t and re.search(r"^rand::(rng|thread_rng)$", callee(t))]
    rep.check("C04.f", "key-new-random", len(fills) == 1 and len(rng) == 1 and flow.base_local(KN, op_place(KN.term(fills[0])["args"][1])) in flow.backward_slice(KN, [0])["locals"], where=KN.loc(), what="Key::new fills the returned key from rand::rng()")
    mk = prog.find(r"^<rustic_core::repofile::keyfile::MasterKey as std::default::Default>::default$|^rustic_core::repofile::keyfile::MasterKey::new$")
    gen = [b for b in mk if any("callee" in t and callee(t) == KN.path for _, t in b.calls()) or any("callee" in t and re.search(r"MasterKey as std::default::Default>::default$", callee(t)) for _, t in b.calls())]
    rep.check("C04.f", "masterkey-generated-randomly", len(mk) >= 1 and len(gen) == len(mk), where=mk[0].loc() if mk else "", what="MasterKey::new/default generate the key with Key::new (random)")
    # passwords are used verbatim: no normalising string transformation in the credential readers
    norm = []
    for b in prog.by_crate["rustic_core"]:
        if "repository::credentials" not in b.path:
            continue
        for bb, t in b.calls():
            if "callee" in t and re.search(r"^core::str::<impl str>::(trim|trim_end|trim_start|trim_matches|trim_end_matches|to_lowercase|to_uppercase|to_ascii_lowercase)$|^std::string::String::(to_lowercase)$", callee(t)):
                norm.append(f"{fn_key(b)}: {callee(t).rsplit('::', 1)[-1]} @{where(b, bb)}")
    rep.check("C04.f", "password-verbatim", not norm, where="crates/core/src/repository/credentials.rs", what="credential readers strip at most one line ending; no trimming/normalising of the password" if not norm else f"the password is normalised before use ({norm}): different passwords open the same repository")
    # ---- C04.f ------------------------------------------------------------------------------------
    # the key-derivation input is the password as given, identically when a key is created and when it is checked
    # scrypt may be applied in the two entry points themselves or in a helper of the module they share; every link between
    # the entry point's password parameter and scrypt's input is checked to be verbatim
    ADAPT = r"convert::AsRef<.*>>::as_ref$|AsRef::as_ref$|ops::Deref>::deref$|::as_bytes$|::as_slice$|borrow::Borrow"

    def verbatim(b, bb, op):
        """(extra calls, parameter indices) of the expression handed on at this link"""
        e = flow.expr_of(b, op, bb)
        _, cs = flow.expr_mentions(e)
        extra = sorted(c for c in cs if not re.search(ADAPT, c))
        return extra, sorted({int(x) for x in re.findall(r"\('arg', (\d+)\)", repr(e))})

    def kdf_chain(b, depth=0):
        """[(body, block, operand)] links from b's parameter to scrypt's first argument, or None"""
        for bb, t in b.calls():
            if "callee" in t and re.search(r"^scrypt::scrypt$", callee(t)):
                return [(b, bb, t["args"][0])]
        if depth >= 2:
            return None
        for bb, t in b.calls():
            h = prog.bodies.get(callee(t)) if "callee" in t else None
            if h is None or "repofile::keyfile" not in h.path or h is b:
                continue
            sub = kdf_chain(h, depth + 1)
            if sub:
                ex, ai = verbatim(sub[0][0], sub[0][1], sub[0][2])
                if len(ai) == 1 and ai[0] - 1 < len(t["args"]):
                    return [(b, bb, t["args"][ai[0] - 1])] + sub
        return None
    entries = prog.find(r"^rustic_core::repofile::keyfile::KeyFile::(generate|kdf_key)$")
    chains = [(b, kdf_chain(b)) for b in entries]
    kdf_sites = [(b, ch) for b, ch in chains if ch]
    rep.require("C04.f", "kdf-sites", len(kdf_sites) >= 2, where="crates/core/src/repofile/keyfile.rs", what=f"scrypt is applied when a key is generated and when a password is checked ({len(kdf_sites)} of KeyFile::generate / KeyFile::kdf_key reach it)")
    shapes = []
    for (b, ch) in kdf_sites:
        extra, ok = [], True
        for (lb, lbb, lop) in ch:
            ex, ai = verbatim(lb, lbb, lop)
            extra += ex
            ok = ok and not ex and len(ai) == 1
        shapes.append(tuple(extra))
        rep.check("C04.f", f"kdf-input-is-password/{fn_key(b)}", ok, where=where(ch[-1][0], ch[-1][1]), what=f"{fn_key(b)}: scrypt is applied to the password exactly as passed in" if ok else
                  f"{fn_key(b)}: the password is transformed before key derivation ({[strip_crate(x) for x in extra]}): creating a key and checking a password no longer agree for some passwords")
    FK = prog.find1(r"^rustic_core::repofile::keyfile::find_key_in_backend$")
    codes = []
    for bb, t in FK.calls():
        if "callee" in t and callee(t).endswith("RusticError::is_code"):
            e = flow.expr_of(FK, t["args"][1])
            v = e[1] if e[0] == "const" else None
            codes.append(v.get("str") if isinstance(v, dict) else v)
    rep.check("C04.f", "find_key/continue-only-on-mac-failure", codes == ["C001"], where=FK.loc(), what=f"find_key_in_backend moves on to the next key only for error code C001 (MAC failure): {codes}")
    DK = prog.find1(r"^rustic_core::repository::Repository::<S>::delete_key$")
    rm = [bb for bb, t in DK.calls() if "callee" in t and is_method_of(t, RE_REMOVE)]
    eqs = [bb for bb, t in DK.calls() if "callee" in t and re.search(r"PartialEq(<.*>)?>::eq$|PartialEq::eq$", callee(t))]
    okk = len(rm) == 1 and len(eqs) >= 1 and any(C.dominates(DK, e, rm[0]) for e in eqs)
    rep.check("C04.f", "delete_key/refuses-key-in-use", okk, where=DK.loc(), what="delete_key compares the id with the key in use before removing")
    KG = prog.find(r"^rustic_core::repofile::keyfile::KeyFile::generate$")
    if KG:
        g = KG[0]
        has_rng = any("callee" in t and re.search(r"::fill_bytes$", callee_decl(t)) or ("callee" in t and callee_decl(t).endswith("fill_bytes")) for _, t in g.calls())
        rep.check("C04.f", "keyfile/salt-random", has_rng, where=g.loc(), what="KeyFile::generate draws the salt from the RNG")
