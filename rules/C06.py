"""C06 - Chunking is a lossless, bounded, content-defined partition.

Concatenation = stream, cut-point locality and the fingerprint semantics are runtime/arithmetic properties of the
rolling hash (rustic_cdc, trusted). Decided:
C06.a R-ARITH over the chunker code: every subtraction / slice bound computed from the (validated) chunker parameters is
  safe for all accepted parameters - the 'tiny accepted parameters' the property quantifies over.
C06.b bound: the push loop of the rabin chunker tests `vec.len() >= max_size` before each push (the push is unreachable
  once the bound is hit in that iteration), and its only other exits are the mask test, end of input and errors.
C06.c read-fragmentation handling is exhaustive: the result of each `read` in the loop is matched with arms for
  Ok(0) (end), Ok(n), Err(Interrupted) (retry) and any other error (reported as an item).
C06.d one byte in, one byte hashed: the byte pushed to the chunk and the byte fed to the rolling hash are the same
  value, and the buffer position advances by one on that path.
C06.f carried bytes count towards the minimum: the limit of the initial bulk read (`take`) is computed from min_size AND
  the number of bytes carried over in the read-ahead buffer (buf.len() - pos), and the short-read test compares the
  bytes read against that same limit. Otherwise the position where the cut-point search starts depends on where the
  previous cut fell inside the 4 KiB read buffer, i.e. on read history instead of content.
C06.g the validator's lower bound for chunk_min_size is at least the read-ahead buffer length - 1 (interval facts of
  R-ARITH): the carry (< buffer length) can then never exceed min_size.
C06.h chunkers are built from the configuration passed in: Rabin tables from config.poly() at each construction, no
  process-wide cache (OnceLock/Lazy/thread_local) in between.
C06.e the fixed-size chunker reads at most `size` bytes per chunk and stops at a short read.
C06.i end of input is never inferred from a short single read(): `finished` is set only when a read returned 0 bytes or a
  read_to_end over take(n) came back short - otherwise boundaries depend on how the source fragments its data.
"""
import re
from rules.common import *

TECHNIQUE = ('static analysis over rustc MIR: interval analysis (R-ARITH) under validator facts, sample-value evaluation of the max_size bound, exhaustiveness of read-result handling, short-read rule (end of input only from 0 bytes / read_to_end)')
LEVEL = "other"
EXPLANATION = (
    "Interval analysis of the chunker arithmetic under the facts established by the parameter validator, plus CFG rules "
    "on the rabin push loop (bound test dominates the push, exhaustive handling of read results, same byte pushed and "
    "hashed). Decides absence of traps for accepted parameters and the loop's structural bound - not that the "
    "concatenation of chunks equals the stream or where cut points fall.")
NOT_DECIDED = ["concatenation of chunks equals the stream; independence from read fragmentation (runtime)",
               "cut-point locality and the Rabin fingerprint semantics (arithmetic of rustic_cdc, trusted)"]


def run(ctx, rep):
    prog = ctx.prog
    wiring_rule(ctx, rep, "C06")
    for r, tx in (("C06.a", "chunker arithmetic cannot trap for accepted parameters"), ("C06.b", "max_size is tested before every push"),
                  ("C06.c", "read results are handled exhaustively"), ("C06.d", "the pushed byte is the hashed byte"), ("C06.e", "fixed-size chunks are bounded by `size`"),
                  ("C06.f", "bytes carried in the read-ahead buffer count towards min_size"),
                  ("C06.g", "accepted min_size covers the largest possible carry")):
        rep.rule(r, tx)
    # ---- C06.h: every chunker is parameterised by ITS repository's configuration --------------------------------
    rep.rule("C06.h", "the chunker's polynomial and size parameters come from the configuration passed in (no process-wide cache)")
    FC = prog.find1(r"^rustic_core::chunker::ChunkIter::<R>::from_config$")
    # from_config itself or private per-variant helpers of the chunker module it calls (`rabin_from_config(config, ..)`)
    OKSRC = r"configfile::ConfigFile::(poly|chunk_size|chunk_min_size|chunk_max_size|chunker)$|Rabin64::new_with_polynom$|ops::Try>::branch$"
    fbodies = [FC]
    helper_bad = []
    for bb_, t_ in FC.calls():
        if "callee" in t_ and callee(t_).startswith("rustic_core::chunker::") and callee(t_) in prog.bodies and not re.search(r"ChunkIter::<R>::new$", callee(t_)):
            fbodies.append(prog.bodies[callee(t_)])
            # what from_config hands to the helper also comes from its own parameters / the configuration
            for a_ in t_["args"]:
                if op_place(a_) is None:
                    continue
                for o in flow.origins(FC, op_place(a_)):
                    if o.kind == "call" and not re.search(OKSRC, o.data[1]):
                        helper_bad.append(strip_crate(o.data[1]))
                    elif o.kind in ("static", "const", "item"):
                        helper_bad.append(str(o.data)[:60])
    news = [(B_, bb, t) for B_ in fbodies for bb, t in B_.calls() if "callee" in t and re.search(r"chunker::(rabin|fixed_size)::ChunkIter::<R>::new$", callee(t))]
    rep.require("C06.h", "constructors", len(news) == 2, where=FC.loc(), what="from_config builds the rabin and the fixed-size chunker")
    for B_, bb, t in news:
        kind = "rabin" if "rabin" in callee(t) else "fixed_size"
        bad = list(helper_bad)
        nparam = 0
        for ai, a in enumerate(t["args"]):
            if op_place(a) is None:
                continue
            orig = flow.origins(B_, op_place(a))
            for o in orig:
                if o.kind == "arg":
                    continue                      # reader / size_hint / config itself
                if o.kind == "call":
                    c_ = o.data[1]
                    if re.search(OKSRC, c_):
                        nparam += 1
                        continue
                    bad.append(strip_crate(c_))
                elif o.kind in ("static", "const", "item"):
                    bad.append(str(o.data)[:60])
        if kind == "rabin":
            # the Rabin64 tables are built here from config.poly()
            rb = [(b2, t2) for b2, t2 in B_.calls() if "callee" in t2 and callee(t2).endswith("Rabin64::new_with_polynom")]
            okp = len(rb) == 1 and any(c.endswith("ConfigFile::poly") for c in flow.backward_slice(B_, op_place(rb[0][1]["args"][1]))["calls"]) if rb else False
            okp = okp and (rb[0][0] in flow.backward_slice(B_, op_place(t["args"][0]))["call_sites"] if rb and op_place(t["args"][0]) else False)
            statics = [c for F_ in fbodies for _, t2 in F_.calls() if "callee" in t2 for c in [callee(t2)] if re.search(r"OnceLock|OnceCell|LazyLock|Lazy<|lazy_static|thread_local|LocalKey", c)]
            rep.check("C06.h", "rabin/polynomial-from-config", okp and not statics and not bad, where=where(B_, bb),
                      what="the Rabin tables handed to the chunker are built from config.poly() of the configuration passed in" if okp and not statics and not bad else
                           f"the Rabin fingerprint handed to the chunker does not (only) come from this configuration's polynomial (process-wide cache / other source: {sorted(set(statics + bad))[:3]}): a second repository with another polynomial is chunked with the first one's tables")
        else:
            rep.check("C06.h", "fixed_size/size-from-config", not bad, where=where(B_, bb), what="the fixed chunk size comes from the configuration passed in")
    from rules import arith, C13
    C13.global_state_rule(ctx, rep)
    arith.run_c06(ctx, rep)
    # ---- C06.g: the carry never exceeds the minimum chunk size -------------------------------------------
    _, _, finv = arith.analyse_all(ctx)
    mn = finv.get(("ChunkIter", "min_size"))
    cap = finv.get(("ChunkIter.len", "buf"))
    okg = mn is not None and cap is not None and mn[0] >= cap[1] - 1
    rep.check("C06.g", "min-size-covers-carry", okg, where="crates/core/src/chunker/rabin.rs",
              what=f"every accepted chunk_min_size ({mn}) is at least the read-ahead buffer length - 1 ({cap}): the bytes carried over from the previous chunk never exceed min_size" if okg else
                   f"accepted chunk_min_size values {mn} can be smaller than the read-ahead buffer ({cap}): carried bytes beyond min_size are appended without testing the fingerprint (cut points skipped, max_size exceeded, cuts depend on buffer alignment)")
    NX = prog.find1(r"^<rustic_core::chunker::rabin::ChunkIter<R> as std::iter::Iterator>::next$")
    pushes = [(bb, t) for bb, t in NX.calls() if "callee" in t and callee(t).endswith("Vec::<T, A>::push")]
    slides = [(bb, t) for bb, t in NX.calls() if "callee" in t and re.search(r"(Rabin64|RollingHash64).*::slide$|::slide$", callee(t))]
    rep.require("C06.b", "push-site", len(pushes) == 1 and len(slides) == 1, where=NX.loc(), what="the rabin loop pushes one byte and slides the hash once per iteration")
    if len(pushes) == 1 and len(slides) == 1:
        pb = pushes[0][0]
        loops = [(h, C.loop_blocks(NX, h, l)) for (l, h) in C.back_edges(NX)]
        lp = [x for x in loops if pb in x[1]]
        lp.sort(key=lambda x: len(x[1]))
        rep.require("C06.b", "in-loop", bool(lp), where=where(NX, pb), what="the push is inside the chunking loop")
        if lp:
            header, blocks = lp[0]
            # decided for sample values: with the chunk already max_size long (every `len OP max_size` comparison evaluated
            # for len = max = 1000) the push is unreachable; one byte below the bound (len = 999) it is reachable. `>=`/`<`,
            # `loop { if .. break }` and `while ..` spellings are all accepted; `>` / `<=` (off by one) are not.
            is_len = lambda x: isinstance(x, tuple) and x and x[0] == "call" and x[1].endswith("::len") and "'buf'" not in repr(x)
            is_max = lambda x: isinstance(x, tuple) and x and x[0] in ("path", "proj") and bool(x[2]) and x[2][-1] == "max_size"
            at_bound = reachable_eval(prog, NX, num_eval([(is_len, 1000), (is_max, 1000)]), depth=0)
            below = reachable_eval(prog, NX, num_eval([(is_len, 999), (is_max, 1000)]), depth=0)
            okb = pb not in at_bound and pb in below
            rep.check("C06.b", "bound-before-push", okb, where=where(NX, pb), what="every iteration tests vec.len() >= max_size before pushing: a chunk never grows beyond max_size in the loop" if okb else "a byte can be pushed without the max_size test having been passed in that iteration (chunks may exceed max_size)")
        # ---- C06.d -----------------------------------------------------------------------------
        pv = flow.base_local(NX, op_place(pushes[0][1]["args"][1])) if op_place(pushes[0][1]["args"][1]) else None
        sv = flow.base_local(NX, op_place(slides[0][1]["args"][1])) if op_place(slides[0][1]["args"][1]) else None
        rep.check("C06.d", "same-byte", pv is not None and pv == sv, where=where(NX, pb), what="the byte appended to the chunk is the byte fed to the rolling hash")
        inc = [bi for bi, blk in enumerate(NX.blocks) for s in blk["s"] if s[0] == "=" and s[2][0] == "bin" and s[2][1] in ("AddWithOverflow", "Add") and is_const(s[2][3]) and const_val(s[2][3]) == 1
               and "pos" in (flow.backward_slice(NX, op_place(s[2][2]))["fields"] if op_place(s[2][2]) else set())]
        rep.check("C06.d", "pos-advances-by-one", len(inc) == 1 and bool(lp) and inc[0] in lp[0][1] and (C.can_reach(NX, pb, inc[0]) or inc[0] == NX.term(pb).get("to")), where=where(NX, pb), what="the buffer position advances by exactly one per pushed byte")
    # ---- C06.c -------------------------------------------------------------------------------------
    reads = [(bb, t) for bb, t in NX.calls() if "callee" in t and re.search(r"std::io::Read(>)?::read$", callee(t) + " " + callee_decl(t)) and not callee(t).endswith("read_to_end")]
    rep.require("C06.c", "read-site", len(reads) == 1, where=NX.loc(), what="the loop refills its buffer with one Read::read call")
    if len(reads) == 1:
        rb, rt = reads[0]
        d = rt["dest"][0]
        # arms: discriminant(result) Ok/Err; Ok payload == 0; Err kind == Interrupted
        has_ok0 = has_err_kind = has_err_item = False
        for sw in range(len(NX.blocks)):
            t = NX.term(sw)
            if t["k"] != "switch":
                continue
            p = op_place(t["discr"])
            if p and p[0] == d and any(isinstance(e, list) and e[0] == "d" and e[1] == "Ok" for e in p[1:]) and any(v == "0" for v, x in t["targets"]):
                has_ok0 = True
            e = flow.expr_of(NX, t["discr"])
            if "ErrorKind" in repr(e) and ("kind" in repr(e)):
                has_err_kind = True
            # `Ok(n) => if n == 0 {..}` form: a comparison of the count with 0
            x_ = e
            while x_[0] == "un" and x_[1] == "Not":
                x_ = x_[2]
            if x_[0] == "bin" and x_[1] in ("Eq", "Ne") and ("const", 0) in (x_[2], x_[3]):
                o_ = x_[3] if x_[2] == ("const", 0) else x_[2]
                if o_[0] == "proj" and isinstance(o_[1], tuple) and o_[1][0] == "call" and o_[1][1] == "std::io::Read::read" and list(o_[3])[:1] == ["Ok"]:
                    has_ok0 = True
        kind_calls = [bb for bb, t in NX.calls() if "callee" in t and callee(t).endswith("std::io::Error::kind")]
        intr = any(re.search(r"Interrupted", repr(flow.expr_of(NX, a))) for bb, t in NX.calls() if "callee" in t and re.search(r"PartialEq", callee(t)) for a in t["args"]) or \
            any("Interrupted" in repr(s) for blk in NX.blocks for s in blk["s"] if s[0] == "=" and s[2][0] == "agg") or any("Interrupted" in repr(p.blocks) for p in NX.promoted)
        errs = [bi for bi, blk in enumerate(NX.blocks) for s in blk["s"] if s[0] == "=" and s[2][0] == "agg" and s[2][1][0] == "adt" and s[2][1][2] == "Err"]
        after = NX.reachable_from(rb)
        rep.check("C06.c", "ok-zero-arm", has_ok0, where=where(NX, rb), what="a read of 0 bytes ends the stream (finished)")
        rep.check("C06.c", "interrupted-retried", bool(kind_calls) and intr, where=where(NX, rb), what="ErrorKind::Interrupted is retried (continue), not reported and not treated as end of input")
        # the Interrupted retry goes back to the loop head with buf/pos untouched since the refill test
        kb = kind_calls[0] if kind_calls else None
        touched = []
        if kb is not None:
            hdrs = [h for (l, h) in C.back_edges(NX) if rb in C.loop_blocks(NX, h, l)]
            # blocks between the loop head and the read call (inclusive): any &mut use of self.buf other than the read's own buffer argument
            for h in hdrs:
                backs = [(l2, h2) for (l2, h2) in C.back_edges(NX)]
                region = NX.reachable_from(h, cut_edges=backs, cut_blocks=[rb]) | {rb}
                for bb in region:
                    if bb != rb and rb not in NX.reachable_from(bb, cut_edges=backs):
                        continue
                    t = NX.term(bb)
                    if bb != rb and t["k"] == "call" and "callee" in t and re.search(r"Vec::<T, A>::(resize|truncate|clear|push|extend_from_slice|set_len|drain|insert|remove|append)$", callee(t)):
                        pp = flow.place_path(NX, op_place(t["args"][0])) if op_place(t["args"][0]) else None
                        if pp and "buf" in pp[1]:
                            touched.append(f"{callee(t).rsplit('::', 1)[-1]} @{where(NX, bb)}")
                    for s_ in NX.blocks[bb]["s"]:
                        if s_[0] == "=" and place_has_field(s_[1], "pos", "rabin::ChunkIter"):
                            touched.append(f"pos assigned @{where(NX, bb)}")
        rep.check("C06.c", "retry-state-unchanged", kb is not None and not touched, where=where(NX, rb),
                  what="between the refill test (buf.len() == pos) and the read nothing changes buf or pos: a retried (Interrupted) read finds the same state" if not touched else
                       f"buf/pos are modified before the read ({sorted(set(touched))}): after an Interrupted read the refill test no longer holds and stale buffer bytes are consumed as input")
        rep.check("C06.c", "other-errors-reported", any(e in after for e in errs), where=where(NX, rb), what="any other read error is returned as an error item")
    carry_rule(ctx, rep, "C06.f")
    # ---- C06.e -------------------------------------------------------------------------------------
    FX = prog.find1(r"^<rustic_core::chunker::fixed_size::ChunkIter<R> as std::iter::Iterator>::next$")
    take = [(bb, t) for bb, t in FX.calls() if "callee" in t and callee_decl(t).endswith("std::io::Read::take")]
    oke = False
    if len(take) == 1:
        sl = flow.backward_slice(FX, op_place(take[0][1]["args"][1]))
        oke = "size" in sl["fields"]
    rep.check("C06.e", "take-size", oke, where=FX.loc(), what="each fixed-size chunk is read through take(self.size): it cannot exceed the configured size")
    fin = [bi for bi, blk in enumerate(FX.blocks) for s in blk["s"] if s[0] == "=" and place_has_field(s[1], "finished") and s[2][0] == "use" and s[2][1][0] == "k" and s[2][1][1].get("v") is True]
    okf = False
    for bi in fin:
        for (sw, succ) in C.transitive_control_deps(FX, bi):
            e = flow.expr_of(FX, FX.term(sw)["discr"])
            if e[0] == "bin" and e[1] in ("Lt", "Gt", "Le", "Ge") and "size" in repr(e):
                okf = True
    rep.check("C06.e", "short-read-ends", okf, where=FX.loc(), what="a read shorter than `size` marks the iterator finished (last chunk may be shorter)")
    fragmentation_rule(ctx, rep, "C06.i")


def carry_rule(ctx, rep, R):
    prog = ctx.prog
    NX = prog.find1(r"^<rustic_core::chunker::rabin::ChunkIter<R> as std::iter::Iterator>::next$")
    # ---- C06.f -------------------------------------------------------------------------------------
    takes = [(bb, t) for bb, t in NX.calls() if "callee" in t and callee_decl(t).endswith("std::io::Read::take")]
    rep.require(R, "bulk-read-site", len(takes) == 1, where=NX.loc(), what="the chunk's first min_size bytes are read through one take(limit)")
    if len(takes) == 1:
        tb, tt = takes[0]
        # crate-local helpers (`fn take_open_buf(&mut self, ..) -> usize { self.buf.len() - self.pos .. }`) are inlined
        lf, _ = flow.expr_mentions(flow.inline_expr(prog, flow.expr_of(NX, tt["args"][1], tb)))
        sl = {"fields": lf}
        okc = {"min_size", "buf", "pos"} <= lf
        rep.check(R, "limit-accounts-for-carry", okc, where=where(NX, tb), what="take limit = min_size - (buf.len() - pos): carried bytes count towards the minimum chunk size" if okc else
                  f"the bulk read limit does not depend on the carried bytes (fields used: {sorted(sl['fields'] & {'min_size', 'buf', 'pos'})}): cut positions depend on read-buffer alignment, not only on content")
        # the short-read test compares the count returned by read_to_end with the same limit
        lim = flow.base_local(NX, op_place(tt["args"][1])) if op_place(tt["args"][1]) else None
        oks = False
        for sw in range(len(NX.blocks)):
            t = NX.term(sw)
            if t["k"] != "switch":
                continue
            e = flow.expr_of(NX, t["discr"])
            if e[0] == "bin" and e[1] in ("Lt", "Gt", "Le", "Ge") and "read_to_end" in repr(e):
                for o in (e[2], e[3]):
                    if o == flow.expr_of(NX, tt["args"][1], tb):
                        oks = True
        rep.check(R, "short-read-vs-limit", oks, where=where(NX, tb), what="end of input is detected by comparing the bytes read with the same limit that was requested")


def fragmentation_rule(ctx, rep, R):
    """`R`: the amount returned by ONE `Read::read` call never decides that the input has ended unless it is 0. A pipe or
    socket may deliver fewer bytes than asked for at any time; only `read_to_end` (over `take(n)`), `read_exact` or a
    loop that retries until 0 see the real end. Otherwise chunk boundaries (and how much is stored) depend on how fast the
    source delivers bytes."""
    prog = ctx.prog
    rep.rule(R, "end of input is never inferred from a short single read() (only from 0 bytes / read_to_end)")

    def read_counts(e, out):
        if isinstance(e, tuple):
            if e and e[0] == "proj" and isinstance(e[1], tuple) and e[1] and e[1][0] == "call" and e[1][1] == "std::io::Read::read" and len(e) > 3 and list(e[3])[:1] == ["Ok"]:
                out.append(e)
                return
            for x in e:
                read_counts(x, out)
        elif isinstance(e, list):
            for x in e:
                read_counts(x, out)
    n = 0
    for b in prog.by_crate["rustic_core"]:
        if "::chunker::" not in b.path:
            continue
        fin = [bi for bi, blk in enumerate(b.blocks) for s in blk["s"] if s[0] == "=" and place_has_field(s[1], "finished") and s[2][0] == "use" and s[2][1][0] == "k" and s[2][1][1].get("v") is True]
        for k, bi in enumerate(fin, 1):
            n += 1
            bad = []
            for (sw, succ) in C.transitive_control_deps(b, bi):
                t = b.term(sw)
                e = flow.expr_of(b, t["discr"], sw)
                while e[0] == "un" and e[1] == "Not":
                    e = e[2]
                if e[0] == "discr":
                    continue
                rc = []
                read_counts(e, rc)
                if not rc:
                    continue
                if e in rc:
                    # `match n { 0 => .., _ => .. }`: fine whichever way; the count is only tested against constants; the store must
                    # sit on the 0 edge
                    zero = [x for v, x in t["targets"] if v == "0"]
                    if zero and bi not in b.reachable_from(sw, cut_edges=[(sw, zero[0])]):
                        continue
                    bad.append((sw, "non-zero count"))
                    continue
                if e[0] == "bin" and e[1] in ("Eq", "Ne") and ((e[2] in rc and e[3] == ("const", 0)) or (e[3] in rc and e[2] == ("const", 0))):
                    continue
                bad.append((sw, f"{e[1] if e[0] == 'bin' else e[0]} on the count of a single read()"))
            rep.check(R, f"{fn_key(b)}/finished/{k}", not bad, where=where(b, bi), what=f"{fn_key(b)}: `finished` is set only on 0 bytes read / a short read_to_end" if not bad else
                      f"{fn_key(b)}: the iterator is marked finished because ONE read() returned a short count ({bad[0][1]} at {where(b, bad[0][0])}): a slow pipe ends the stream early and moves chunk boundaries")
    rep.floor(R, "`finished = true` sites in the chunkers", n, 2)
