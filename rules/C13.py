"""C13 - Results do not depend on thread scheduling, latency or pack boundaries.

Determinism over schedules and termination are runtime properties; no deadlock analysis that is sound for crossbeam
rendezvous channels is in reach. Decided are the structural conditions that make the RESULT (tree id, referenced blobs,
index completeness) independent of scheduling:
C13.a order-preserving pipeline: between the source iterator and TreeArchiver::add in Archiver::archive every iterator
  adaptor preserves order (filter_map, TreeIterator, pariter's parallel_map_scoped/readahead_scoped, try_for_each); no
  unordered (rayon par_bridge / par_iter) adaptor feeds the tree archiver.
C13.b all workers are joined before results are used: Packer::finalize and Actor::finalize wait for the worker's status
  (recv on the finish channel) and return it; the backup flushes packers, then the index, then writes the snapshot.
C13.c every written pack is indexed: the pack writer pipeline has no filtering stage between write and index
  (R-ORDER 16, shared with C03).
C13.e / C13.f structural conditions against self-inflicted deadlock (see termination_rules): no rayon wait inside a loop that
  drains a rendezvous stream fed by rayon workers; the tree streamer's pending queue is unbounded.
C13.h lock order (rules/lockorder.py): the wait-for graph over lock classes - an edge A -> B when a guard of A is live (MIR live
  range up to its drop) across a call that may acquire B, or that may block on a bounded channel whose other end needs B - is
  acyclic. A cycle (the indexer read guard kept across the raw packer's write lock and the blocking hand-over to the file
  writer, which needs the indexer's write lock) deadlocks for some schedule.
C13.i chunk boundaries do not depend on read fragmentation: end of input is never inferred from a short single read().
C13.j typed blob identity in the indexer shared by the data and tree packers (R-TYPEDID): which of two equal-bytes blobs of
  different type arrives first depends on scheduling; with an untyped filter the second is dropped and stays unreferenced.
C13.g no process-wide once-cell (static OnceLock/OnceCell) is initialised from function arguments.
C13.d blob ids do not depend on pack boundaries: ids are computed from plaintext before packing (C07.c), and the
  in-packer duplicate filters only skip blobs (never reorder tree serialisation).
"""
import re
from rules.common import *

LEVEL = "other"
EXPLANATION = (
    "Adaptor allow-list and join/ordering rules over archiver.rs and blob/packer.rs decided on resolved callees: the data "
    "path from the source walk to the tree archiver is order preserving, workers are joined (status received) before a "
    "command reports success, and the writer pipeline indexes every pack it wrote; a lock-order analysis shows that no lock is held while waiting (directly "
    "or through a bounded channel) for a thread that needs a lock held further up the chain; end of input is never inferred from a short read. "
    "Schedule independence and termination themselves are not decided.")
NOT_DECIDED = ["equality of results over all interleavings (schedules)", "absence of deadlock / termination beyond an acyclic lock-order graph and the C13.e/f conditions (channel rendezvous cycles without locks, rayon pool starvation in general)", "that no blob is left unreferenced by the index under every interleaving"]

# every adaptor of std's sequential Iterator (and itertools) yields its items in an order that is a function of the
# input order only - never of thread scheduling; the parallel stages allowed are pariter's order-preserving ones
TECHNIQUE = ("static analysis over rustc MIR and the resolved call graph: allow-list of order-preserving adaptors on the archive pipeline, "
             "must-pass-through join/flush ordering, call-graph reachability of rayon waits from loops that drain rendezvous streams, channel kind of the tree streamer's queue, "
             "lock-order (wait-for) graph built from MIR lock-guard live ranges x call-graph effects (locks acquired, bounded-channel sends and their receiving side) checked for cycles")

ORDERED = re.compile(r"^std::iter::Iterator::\w+$|^itertools::Itertools::\w+$|^<.* as std::iter::Iterator>::\w+$|^std::iter::(once|empty|repeat|from_fn|successors|zip)$"
                     r"|^pariter::(IteratorExt|readahead::ReadaheadIteratorExt|parallel_map::ParallelMapIteratorExt)?.*::(parallel_map_scoped|readahead_scoped|parallel_map|readahead|parallel_filter_scoped)$"
                     r"|IteratorExt::(parallel_map_scoped|readahead_scoped)$"
                     r"|^rustic_core::archiver::tree::TreeIterator::<T, I>::new$"
                     r"|as std::iter::IntoIterator>::into_iter$|^std::iter::IntoIterator::into_iter$")
UNORDERED = re.compile(r"rayon::|par_bridge|ParallelIterator|par_iter|crossbeam_channel::Receiver.*::try_iter")


def run(ctx, rep):
    prog = ctx.prog
    for r, tx in (("C13.a", "order-preserving pipeline into the tree archiver"), ("C13.b", "workers are joined before success is reported"),
                  ("C13.c", "every written pack is indexed"), ("C13.d", "ids are independent of packing")):
        rep.rule(r, tx)
    AR = prog.find1(r"^rustic_core::archiver::Archiver::<'a, BE, I>::archive$")
    fam = [c for c in prog.closures_of(AR, recursive=False)]
    # the scope closure that builds the pipeline: its chain ends in try_for_each(|item| tree_archiver.add(item)) or in a `for` loop
    # whose body calls tree_archiver.add; in both forms the iterator that is consumed is what the rule looks at
    ADD_RX = r"tree_archiver::TreeArchiver::<'a, BE, I>::add$"
    pipe = []
    for c_ in fam:
        tfe_ = [(bb, t) for bb, t in c_.calls() if "callee" in t and callee_decl(t).endswith("Iterator::try_for_each")]
        direct = [(bb, t) for bb, t in c_.calls() if "callee" in t and re.search(ADD_RX, callee(t))]
        if tfe_ or direct:
            pipe.append(c_)
    rep.require("C13.a", "pipeline-closure", len(pipe) == 1, where=AR.loc(), what="Archiver::archive builds its pipeline in one scoped closure that feeds TreeArchiver::add")
    if len(pipe) == 1:
        c = pipe[0]
        tfes = [(bb, t) for bb, t in c.calls() if "callee" in t and callee_decl(t).endswith("Iterator::try_for_each")]
        direct = [(bb, t) for bb, t in c.calls() if "callee" in t and re.search(ADD_RX, callee(t))]
        if tfes:
            tfe = tfes[0]
            # the consumer closure calls TreeArchiver::add
            sub = prog.closures_of(c, recursive=False)
            consumer = [s for s in sub if any("callee" in t and re.search(ADD_RX, callee(t)) for _, t in s.calls())]
            rep.check("C13.a", "consumer", len(consumer) == 1, where=where(c, tfe[0]), what="the pipeline's consumer is TreeArchiver::add")
            recv_place = op_place(tfe[1]["args"][0])
        else:
            # `for item in <pipeline> { .. tree_archiver.add(item)? .. }`: the consumed iterator is the receiver of the loop's next()
            nx = [(bb, t) for bb, t in c.calls() if "callee" in t and re.search(r"Iterator(>)?::next$", callee(t) + " " + callee_decl(t))
                  and any(bb in flow.backward_slice(c, op_place(a_))["call_sites"] for _, dt in direct for a_ in dt["args"][1:] if op_place(a_))]
            rep.check("C13.a", "consumer", len(direct) == 1 and len(nx) == 1, where=where(c, direct[0][0]), what="the pipeline's consumer is TreeArchiver::add, fed by one loop over the pipeline")
            tfe = nx[0] if nx else direct[0]
            recv_place = op_place(nx[0][1]["args"][0]) if nx else None
        # every call in the backward slice of try_for_each's receiver that is an iterator adaptor must be ordered
        sl = flow.backward_slice(c, recv_place) if recv_place else {"call_sites": set()}
        adaptors = []
        bad = []
        for cb in sorted(sl["call_sites"]):
            t = c.term(cb)
            if t["k"] != "call" or "callee" not in t:
                continue
            cd = callee_decl(t)
            cn = callee(t)
            is_iter = re.search(r"Iterator|IteratorExt|pariter|rayon|TreeIterator|par_bridge|entries$", cd + " " + cn)
            if not is_iter:
                continue
            adaptors.append(cd.rsplit("::", 1)[-1])
            if UNORDERED.search(cd) or UNORDERED.search(cn):
                bad.append(cd)
            elif not (ORDERED.search(cd) or ORDERED.search(cn) or cd.endswith("ReadSource::entries") or cn.endswith("::entries")):
                bad.append(cd)
        rep.check("C13.a", "adaptors-ordered", len(adaptors) >= 4 and not bad, where=c.loc(),
                  what=f"all {len(adaptors)} adaptors between src.entries() and TreeArchiver::add preserve order: {adaptors}" if not bad else
                       f"the archive pipeline contains adaptors that do not preserve order (or are not on the allow-list): {bad}; tree entries would be added in scheduling order")
    termination_rules(ctx, rep)
    from rules import lockorder
    lockorder.run(ctx, rep, "C13.h")
    from rules import C06
    C06.fragmentation_rule(ctx, rep, "C13.i")
    global_state_rule(ctx, rep)
    # no blob left unreferenced: the "already written in this run" filter shared by the data and the tree packer distinguishes
    # blob types (a tree and a file chunk with equal bytes have the same id; whichever arrives second must still be stored)
    rep.rule("C13.j", "blob identity is typed in the indexer shared by the concurrent packers (R-TYPEDID)")
    from rules import typedid
    typedid.run(ctx, rep, "C13.j", owners=["index::indexer::Indexer.indexed"])
    from rules import C08
    C08.index_entry_rule(ctx, rep, "C13.c")
    # ---- C13.b -------------------------------------------------------------------------------------
    joined(ctx, rep, "C13.b")
    writer_joined_rule(ctx, rep, "C13.b")
    from rules import C03, C07
    from rules.C10 import borrow
    n = borrow(rep, ctx, C03, lambda o: o.rule == "R-ORDER" and re.search(r"/R-ORDER/(01|02)/", o.key), "C13.b")
    rep.floor("C13.b", "borrowed obligations", n, 5)
    n = borrow(rep, ctx, C03, lambda o: o.rule == "R-ORDER" and re.search(r"/R-ORDER/16/", o.key), "C13.c")
    rep.floor("C13.c", "borrowed obligations", n, 5)
    n = borrow(rep, ctx, C07, lambda o: o.rule == "C07.c", "C13.d")
    rep.floor("C13.d", "borrowed obligations", n, 4)
    # the duplicate filters of the Packer pipeline are plain filters (skip only)
    PN = prog.find1(r"^rustic_core::blob::packer::Packer::<BE>::new$")
    cls = prog.closures_of(PN)
    ads = []
    for c in cls:
        for bb, t in c.calls():
            if "callee" in t and re.search(r"Iterator::|IteratorExt::|pariter", callee_decl(t)):
                ads.append(callee_decl(t))
    bad = [a for a in ads if UNORDERED.search(a) or not (ORDERED.search(a) or re.search(r"Result::<T, E>::|Option::<T>::", a))]
    rep.check("C13.d", "packer-pipeline-adaptors", len(ads) >= 5 and not bad, where=PN.loc(), what=f"the packer pipeline uses only order-preserving adaptors and skip-filters ({len(ads)} adaptor calls)" if not bad else f"unexpected adaptors in the packer pipeline: {bad}")


def joined(ctx, rep, rule):
    """Packer::finalize / Actor::finalize close the input channel, wait for the worker's status and return it"""
    prog = ctx.prog
    for fn in ("Packer::<BE>::finalize", "Actor::finalize"):
        F = prog.find1(rf"^rustic_core::blob::packer::{re.escape(fn)}$")
        rc = [(bb, t) for bb, t in F.calls() if "callee" in t and re.search(r"crossbeam_channel::Receiver::<T>::recv$", callee(t))]
        ok = len(rc) == 1 and rc[0][0] in flow.backward_slice(F, [0])["call_sites"]
        fld = flow.place_path(F, op_place(rc[0][1]["args"][0])) if rc else None
        rep.check(rule, f"joined/{fn.split('::')[0]}", ok and bool(fld) and "finish" in fld[1], where=F.loc(), what=f"{fn} blocks on the worker's finish channel and returns the received status")
        dr = [bb for bb, t in enumerate([F.term(i) for i in range(len(F.blocks))]) if t["k"] == "drop" and "sender" in place_fields(t["place"])] + \
             [bb for bb, t in F.calls() if "callee" in t and callee(t).endswith("std::mem::drop") and "sender" in flow.backward_slice(F, op_place(t["args"][0]))["fields"]]
        okd = bool(dr) and bool(rc) and all(C.can_reach(F, d, rc[0][0]) or d == rc[0][0] for d in dr)
        rep.check(rule, f"channel-closed-first/{fn.split('::')[0]}", okd, where=F.loc(), what=f"{fn} closes the input channel before waiting (the worker can terminate)")


def writer_joined_rule(ctx, rep, rule):
    """RawPacker::finalize waits for the asynchronous pack writer on EVERY path to an Ok return (whether or not a last,
    partly filled pack had to be flushed): a pack handed to the writer earlier may still be in flight, and its write error is
    only reported through Actor::finalize. Decided by cutting the Actor::finalize call(s): no Ok return stays reachable."""
    prog = ctx.prog
    F = prog.find1(r"^rustic_core::blob::packer::RawPacker::<BE>::finalize$")
    joins = [bb for bb, t in F.calls() if "callee" in t and callee(t).endswith("blob::packer::Actor::finalize")]
    oks = [bi for bi, blk in enumerate(F.blocks) for s_ in blk["s"] if s_[0] == "=" and s_[1] == [0] and s_[2][0] == "agg" and s_[2][1][0] == "adt" and s_[2][1][2] == "Ok"]
    ok = bool(joins) and bool(oks) and not any(o in F.reachable_from(0, cut_blocks=joins) for o in oks)
    # and its status is propagated
    kinds = [flow.try_ok_edges(F, j)[0] for j in joins]
    okp = all(k in ("?", "return") for k in kinds)
    rep.check(rule, "joined/RawPacker-waits-for-writer", ok and okp, where=F.loc(), what="RawPacker::finalize waits for the file writer (Actor::finalize, `?`) on every path before reporting success" if ok and okp else
              "RawPacker::finalize can report success without having waited for the file writer: a failed write of a pack that was handed over earlier goes unnoticed and index + snapshot are written without it")


def global_state_rule(ctx, rep, R="C13.g"):
    """C13.g results are functions of their inputs: no process-wide once-cell is initialised with a value that depends on
    the arguments of the function doing it (e.g. a per-repository parameter cached in a `static OnceLock`): the first
    repository used in a process would leak into every later one."""
    prog = ctx.prog
    rep.rule(R, "no process-wide or thread-local state (once-cell, thread_local!, mutable static) is fed from function arguments")
    n = 0
    for b in prog.by_crate["rustic_core"] + prog.by_crate.get("rustic_backend", []):
        for bb, t in b.calls():
            if "callee" not in t or not re.search(r"(OnceLock|OnceCell)::<T>::(get_or_init|get_or_try_init|set|get_mut_or_init)$|once_cell::.*::(get_or_init|set)$", callee(t)):
                continue
            n += 1
            dep = []
            for a in t["args"][1:]:
                e = flow.expr_of(b, a, bb)
                if e[0] == "agg" and e[1][0] == "closure":
                    caps = [x for x in e[2] if "('arg'," in repr(x)]
                    if caps:
                        dep.append("closure capturing " + ", ".join(sorted({m for m in re.findall(r"\('arg', (\d+)\)", repr(caps))})))
                elif op_place(a) is not None and flow.backward_slice(b, op_place(a))["args"]:
                    dep.append("value derived from arguments")
            rep.check(R, f"{fn_key(b)}/once-cell", not dep, where=where(b, bb),
                      what=f"{fn_key(b)}: the process-wide cell is initialised independently of the function's arguments" if not dep else
                           f"{fn_key(b)}: a process-wide once-cell is initialised from the function's arguments ({dep[0]}): later calls with other arguments (another repository) silently get the first value")
    # thread-local state: any access whose value / closure depends on the function's arguments keeps argument-dependent state
    # across calls (a cache keyed by a repository's salt, id, path ...): later calls on the same thread see earlier inputs
    KEYED = re.compile(r"Map<|Set<|Cache|Lru|Memo|Vec<\(")
    TL = re.compile(r"^std::thread::LocalKey::<T>::(with|try_with|with_borrow|with_borrow_mut|set|replace|take)$|^std::thread::LocalKey::<std::cell::(RefCell|Cell)<T>>::(with_borrow|with_borrow_mut|set|replace|take|get)$")
    ntl = 0
    for b in prog.by_crate["rustic_core"] + prog.by_crate.get("rustic_backend", []):
        for bb, t in b.calls():
            if "callee" not in t or not TL.search(callee(t)):
                continue
            # keyed containers (maps / sets / caches) hold per-input state; a reused scratch buffer or a counter does not decide results
            if not KEYED.search(" ".join(t.get("gargs") or [])):
                continue
            ntl += 1
            dep = []
            for a in t["args"][1:]:
                e = flow.expr_of(b, a, bb)
                if e[0] == "agg" and e[1][0] == "closure":
                    caps = [x for x in e[2] if "('arg'," in repr(x)]
                    if caps or (b.is_closure() and "('arg', 1)" in repr(e[2])):
                        dep.append("closure capturing argument-derived values")
                elif op_place(a) is not None and flow.backward_slice(b, op_place(a))["args"]:
                    dep.append("value derived from arguments")
            rep.check(R, f"{fn_key(b)}/thread-local", not dep, where=where(b, bb),
                      what=f"{fn_key(b)}: thread-local state is accessed independently of the function's arguments" if not dep else
                           f"{fn_key(b)}: thread-local state is read/written with {dep[0]}: results of later calls on this thread depend on earlier inputs (e.g. a derived key cached by salt unlocks with any password)")
    # static items with interior mutability that are locked / borrowed / stored to
    # (atomics - counters, flags - and LazyLock constants such as a compiled regex are not argument-dependent state: not flagged)
    MUT = re.compile(r"^std::sync::(Mutex::<T>::lock|RwLock::<T>::(write|read))$|^std::cell::RefCell::<T>::(borrow_mut|replace)$")
    nst = 0
    for b in prog.by_crate["rustic_core"] + prog.by_crate.get("rustic_backend", []):
        for bb, t in b.calls():
            if "callee" not in t or not MUT.search(callee(t)) or not t["args"] or op_place(t["args"][0]) is None:
                continue
            if not KEYED.search(" ".join(t.get("gargs") or [])):
                continue
            orig = flow.origins(b, op_place(t["args"][0]))
            st = [o for o in orig if o.kind == "static"]
            if not st:
                continue
            nst += 1
            rep.check(R, f"{fn_key(b)}/static-state", False, where=where(b, bb),
                      what=f"{fn_key(b)}: a `static` with interior mutability ({str(st[0].data)[:60]}) is locked / mutated: process-wide state shared by all repositories and calls")
    rep.count(f"{R}: thread-local accesses", ntl)
    rep.count(f"{R}: mutable static accesses", nst)
    rep.count(f"{R}: once-cell initialisation sites", n)


def termination_rules(ctx, rep):
    """structural conditions against self-inflicted deadlocks (necessary, not sufficient):
    C13.e the thread that consumes a rendezvous stream (stream_all / stream_list: rayon workers blocked in a zero-capacity
      send) never waits on the rayon pool itself inside the consuming loop - otherwise, with all pool threads blocked
      sending to it, the injected job can never run.
    C13.f TreeStreamerOnce: the queue of pending tree ids, which is fed by the very thread that drains the bounded result
      channel, is unbounded - a bounded one can fill up while all loaders block on the full result channel."""
    prog, cg = ctx.prog, ctx.cg
    rep.rule("C13.e", "consumers of rendezvous streams never block on the rayon pool inside the consuming loop")
    rep.rule("C13.f", "the tree streamer's pending queue is unbounded")
    RAYON_WAIT = re.compile(r"^rayon::iter::(ParallelIterator|IndexedParallelIterator|ParallelExtend|FromParallelIterator|ParallelDrainFull|ParallelDrainRange)::\w+$"
                            r"|^rayon::slice::ParallelSliceMut::par_sort\w*$|^rayon::(join|scope|in_place_scope|scope_fifo)$|^rayon_core::(join|scope)")
    direct = set()
    for b in list(prog.bodies.values()):
        for _, t in b.calls():
            if "callee" in t and (RAYON_WAIT.search(callee_decl(t)) or RAYON_WAIT.search(callee(t))):
                direct.add(b.path)
    n = 0
    for b in prog.by_crate["rustic_core"]:
        for bb, t in b.calls():
            if "callee" not in t or not re.search(r"crossbeam_channel::IntoIter<T> as std::iter::Iterator>::next$|crossbeam_channel::Receiver::<T>::recv$", callee(t)):
                continue
            src = flow.backward_slice(b, op_place(t["args"][0]))["calls"] if op_place(t["args"][0]) else set()
            if not any(re.search(r"::stream_all$|::stream_list$", c) for c in src):
                continue
            loops = [(h, C.loop_blocks(b, h, l)) for (l, h) in C.back_edges(b)]
            mine = [bl for (h, bl) in loops if bb in bl]
            if not mine:
                continue
            blocks = min(mine, key=len)
            n += 1
            bad = []
            for (cb, ct, kind, tgts, info) in cg.sites(b):
                if cb not in blocks or cb == bb:
                    continue
                if ct is not None and "callee" in ct and (RAYON_WAIT.search(callee_decl(ct)) or RAYON_WAIT.search(callee(ct))):
                    bad.append((cb, callee_decl(ct)))
                    continue
                if not tgts:
                    continue
                seen = cg.reachable(tgts)
                hit = [p for p in seen if p in direct]
                if hit:
                    chain = cg.path_to(seen, hit[0])
                    bad.append((cb, " -> ".join(strip_crate(x) for x in chain[-3:])))
            rep.check("C13.e", f"{fn_key(b)}/stream-consumer", not bad, where=where(b, bb),
                      what=f"{fn_key(b)}: nothing called while consuming the rendezvous stream waits on the rayon pool" if not bad else
                           f"{fn_key(b)}: inside the loop that drains a zero-capacity stream fed by rayon workers, a rayon parallel operation is started ({bad[0][1]} at {where(b, bad[0][0])}): with every pool thread blocked in send() the job never runs (deadlock on small pools / many files)")
    rep.floor("C13.e", "loops consuming stream_all/stream_list", n, 3)
    # ---- C13.f
    NW = prog.find1(r"^rustic_core::blob::tree::TreeStreamerOnce::new$")
    aggs = [(bi, s_) for bi, blk in enumerate(NW.blocks) for s_ in blk["s"] if s_[0] == "=" and s_[2][0] == "agg" and s_[2][1][0] == "adt" and s_[2][1][1].endswith("tree::TreeStreamerOnce")]
    rep.require("C13.f", "constructor", len(aggs) == 1, where=NW.loc(), what="TreeStreamerOnce::new builds the streamer once")
    if len(aggs) == 1:
        bi, s_ = aggs[0]
        names = s_[2][1][3]
        if "queue_in" in names:
            sl = flow.backward_slice(NW, op_place(s_[2][2][names.index("queue_in")])) if op_place(s_[2][2][names.index("queue_in")]) else {"calls": set()}
            unb = any(c == "crossbeam_channel::unbounded" for c in sl["calls"]) and not any(c == "crossbeam_channel::bounded" for c in sl["calls"])
            rep.check("C13.f", "pending-queue-unbounded", unb, where=where(NW, bi), what="the pending-id queue the consumer feeds while draining the bounded result channel is unbounded" if unb else
                      "the pending-id queue is bounded: the consumer can block on it while every loader blocks on the full result channel (deadlock on wide trees / many snapshots)")
        else:
            rep.check("C13.f", "pending-queue-unbounded", False, where=where(NW, bi), what="field queue_in not found")
