"""Lock-order / wait-for analysis (used by C13.h).

For every guard of a std RwLock / Mutex in rustic_core the MIR live range of the guard (from the block after its creation
to its `drop` terminators) is computed; every call made inside that range is expanded over the resolved call graph. An edge
A -> B of the wait-for graph over lock classes (the protected type) is recorded when, with a guard of A live,
  (nested)   the thread may acquire a lock of class B, or
  (channel)  the thread may block in `send` on a bounded channel with payload T (or in `recv` on a channel with payload T)
             and the threads at the other end of that channel (bodies that receive / send payload T, with everything they
             reach) may acquire a lock of class B - they cannot drain the channel while they wait for B.
A cycle (including A -> A) is a potential deadlock for some schedule; the rule demands an acyclic graph.  The analysis is
flow-insensitive inside callees (a lock taken anywhere in a reached function counts) and keys channels by payload type."""
import re
from rules.common import *

ACQ = re.compile(r"^std::sync::(RwLock::<T>::(read|write)|Mutex::<T>::lock)$")
GUARD_TY = re.compile(r"^std::sync::(RwLockReadGuard|RwLockWriteGuard|MutexGuard)<'_, (.*)>$")
SEND = re.compile(r"^(crossbeam_channel::Sender::<T>::send|std::sync::mpsc::SyncSender::<T>::send|std::sync::mpsc::Sender::<T>::send)$")
RECV = re.compile(r"^(crossbeam_channel|std::sync::mpsc)::Receiver::<T>::(recv|iter|try_iter|recv_timeout|into_iter)$|^<(crossbeam_channel|std::sync::mpsc)::Receiver<T> as std::iter::IntoIterator>::into_iter$"
                  r"|^<&(crossbeam_channel|std::sync::mpsc)::Receiver<T> as std::iter::IntoIterator>::into_iter$")
MAKE_B = re.compile(r"^crossbeam_channel::bounded$|^std::sync::mpsc::sync_channel$")
MAKE_U = re.compile(r"^crossbeam_channel::unbounded$|^std::sync::mpsc::channel$")


def lock_class(ty):
    ty = ty.strip()
    if ty.startswith("rustic_"):
        return strip_crate(re.sub(r"<.*$", "", ty))
    return ty


def _direct(prog):
    """per body: acquisitions, sends, recvs (payload / class strings)"""
    acq, snd, rcv = {}, {}, {}
    bounded, unbounded = set(), set()
    for b in prog.bodies.values():
        for bb, t in b.calls():
            if "callee" not in t:
                continue
            c = callee(t)
            ga = (t.get("gargs") or [""])
            if ACQ.search(c):
                acq.setdefault(b.path, []).append((lock_class(ga[0]), c.rsplit("::", 1)[-1], bb))
            elif SEND.search(c):
                snd.setdefault(b.path, []).append((ga[0], bb))
            elif RECV.search(c) or RECV.search(callee_decl(t)):
                g = ga[0]
                m = re.match(r"^&?(?:crossbeam_channel|std::sync::mpsc)::Receiver<(.*)>$", g)
                rcv.setdefault(b.path, []).append((m.group(1) if m else g, bb))
            elif MAKE_B.search(c):
                bounded.add(ga[0])
            elif MAKE_U.search(c):
                unbounded.add(ga[0])
    return acq, snd, rcv, bounded, unbounded


def guard_ranges(body):
    """[(guard local, class, def block, {blocks in live range}, escapes?)] for every local of a lock-guard type"""
    out = []
    for l, ty in enumerate(body.locals):
        m = GUARD_TY.match(ty or "")
        if not m or l <= body.argc:
            continue
        starts = []
        for d in body.defs().get(l, []):
            if d[0] == "call":
                starts.append(body.term(d[1])["to"] if body.term(d[1]).get("to") is not None else None)
            elif d[0] == "stmt":
                starts.append(("stmt", d[1]))
        region = set()
        work = []
        for s in starts:
            if s is None:
                continue
            if isinstance(s, tuple):
                work.append(s[1])     # defined by a statement (move from another guard local): live in the rest of this block
            else:
                work.append(s)
        seen = set()
        while work:
            bb = work.pop()
            if bb in seen:
                continue
            seen.add(bb)
            region.add(bb)
            t = body.term(bb)
            if t["k"] == "drop" and t["place"] == [l]:
                continue
            # moved away whole (into another local or a call): this local's range ends here
            moved = any(s_[0] == "=" and s_[2][0] == "use" and s_[2][1] == ["m", [l]] for s_ in body.blocks[bb]["s"])
            if t["k"] == "call" and any(a == ["m", [l]] for a in t["args"]):
                continue
            if moved:
                continue
            if t["k"] in ("return", "resume", "unreachable"):
                continue
            for s in body.succ(bb):
                work.append(s)
        out.append((l, lock_class(m.group(2)), region))
    return out


def analyse(ctx):
    prog, cg = ctx.prog, ctx.cg
    acq, snd, rcv, bounded, unbounded = _direct(prog)
    reach_cache = {}

    def reach_paths(tgts):
        key = tuple(sorted(t.path for t in tgts))
        if key not in reach_cache:
            reach_cache[key] = cg.reachable(tgts)
        return reach_cache[key]

    def blocking(T):
        return T in bounded or T not in unbounded
    receivers = {}
    senders = {}
    for p, lst in rcv.items():
        for (T, bb) in lst:
            receivers.setdefault(T, set()).add(p)
    for p, lst in snd.items():
        for (T, bb) in lst:
            senders.setdefault(T, set()).add(p)

    def locks_from(paths):
        """lock classes acquired by the given bodies and everything they reach -> {class: witness chain}"""
        out = {}
        roots = [prog.bodies[p] for p in paths if p in prog.bodies]
        seen = reach_paths(roots)
        for p in seen:
            for (cls, mode, bb) in acq.get(p, []):
                out.setdefault(cls, (p, mode))
        return out
    edges = {}      # (A, B) -> [evidence]
    ranges = 0
    for b in prog.by_crate["rustic_core"]:
        grs = guard_ranges(b)
        if not grs:
            continue
        sites = cg.sites(b)
        for (l, A, region) in grs:
            ranges += 1
            for (cb, ct, kind, tgts, info) in sites:
                if cb not in region:
                    continue
                # skip the call that defines the guard itself
                if ct is not None and ct.get("dest") == [l]:
                    continue
                facts_here = []
                if ct is not None and "callee" in ct and kind != "closure":
                    c = callee(ct)
                    ga = (ct.get("gargs") or [""])
                    if ACQ.search(c):
                        facts_here.append(("acq", lock_class(ga[0]), b.path))
                    elif SEND.search(c):
                        facts_here.append(("send", ga[0], b.path))
                    elif RECV.search(c):
                        facts_here.append(("recv", ga[0], b.path))
                if tgts:
                    seen = reach_paths(tgts)
                    for p in seen:
                        for (cls, mode, bb) in acq.get(p, []):
                            facts_here.append(("acq", cls, p))
                        for (T, bb) in snd.get(p, []):
                            facts_here.append(("send", T, p))
                        for (T, bb) in rcv.get(p, []):
                            facts_here.append(("recv", T, p))
                for (k, x, p) in facts_here:
                    if k == "acq":
                        edges.setdefault((A, x), []).append(f"{fn_key(b)} holds {A} at {where(b, cb)} while {strip_crate(p)} acquires {x}")
                    elif k == "send" and blocking(x):
                        for B, (wp, mode) in locks_from(receivers.get(x, ())).items():
                            edges.setdefault((A, B), []).append(f"{fn_key(b)} holds {A} at {where(b, cb)} while {strip_crate(p)} blocks sending `{x[:60]}`; its receiver side reaches {strip_crate(wp)} which takes {B}.{mode}()")
                    elif k == "recv":
                        for B, (wp, mode) in locks_from(senders.get(x, ())).items():
                            edges.setdefault((A, B), []).append(f"{fn_key(b)} holds {A} at {where(b, cb)} while {strip_crate(p)} waits to receive `{x[:60]}`; its sender side reaches {strip_crate(wp)} which takes {B}.{mode}()")
    return edges, ranges, (acq, snd, rcv, bounded, unbounded)


def cycles(edges):
    """edges of the graph that lie on a cycle"""
    adj = {}
    for (a, b) in edges:
        adj.setdefault(a, set()).add(b)

    def reach(x):
        seen, work = set(), [x]
        while work:
            y = work.pop()
            for z in adj.get(y, ()):
                if z not in seen:
                    seen.add(z)
                    work.append(z)
        return seen
    R = {a: reach(a) for a in adj}
    return sorted((a, b) for (a, b) in edges if a == b or a in R.get(b, set()))


def run(ctx, rep, rule):
    rep.rule(rule, "the wait-for graph over lock classes (nested acquisition, or blocking on a channel whose other end needs a lock) is acyclic")
    # positive control of the cycle detector itself
    assert cycles({("A", "B"): 1, ("B", "A"): 1, ("B", "C"): 1}) == [("A", "B"), ("B", "A")] and cycles({("A", "A"): 1}) == [("A", "A")] and not cycles({("A", "B"): 1})
    edges, ranges, (acq, snd, rcv, bounded, unbounded) = analyse(ctx)
    rep.count(f"{rule}: lock guard live ranges analysed", ranges)
    rep.floor(rule, "lock guard live ranges", ranges, 18)
    rep.floor(rule, "bodies acquiring locks", len(acq), 12)
    for (a, b), ev in sorted(edges.items()):
        rep.observe(f"{rule}: wait-for edge {a} -> {b}: {ev[0]}" + (f" (+{len(ev) - 1} more)" if len(ev) > 1 else ""))
    # the analysis must see the known edge of the pack pipeline (raw packer lock held while the writer, which registers the
    # pack under the indexer lock, is fed): otherwise channel resolution is broken and the acyclicity verdict is vacuous
    rep.require(rule, "sees-packer-to-indexer", ("blob::packer::RawPacker", "index::indexer::Indexer") in edges, where="",
                what="the analysis resolves the pack writer channel: RawPacker lock held while the file writer (which takes the Indexer lock) is fed")
    cyc = cycles(edges)
    rep.check(rule, "lock-order/acyclic", not cyc, where="", what=f"wait-for graph over {len({x for e in edges for x in e})} lock classes with {len(edges)} edges is acyclic", nontrivial=True) if not cyc else None
    for (a, b) in cyc:
        rep.check(rule, f"lock-order/cycle/{a}->{b}", False, where="", what=f"potential deadlock: {edges[(a, b)][0]}; and {b} (transitively) waits for {a} again")
