"""C19 - The local cache is transparent.

C19.a authoritative results come from the backend: CachedBackend::list_with_size returns the backend's list;
  write_bytes and remove call the backend on every path and return ITS result; no cache failure is propagated as the
  operation's error (cache calls are never `?`-propagated inside CachedBackend's WriteBackend/ReadBackend methods).
C19.b prune-on-list: Cache::remove_not_in_list is called on every listing of a cacheable type (control-dependent only on
  is_cacheable()) and removes ids that are not in the list as well as ids whose cached size differs.
C19.c cacheability predicates agree across read_full, read_partial, write_bytes and remove (exact over FileType x
  cacheable): what is written to / removed from the cache is exactly what is read from it.
C19.d atomic cache writes: Cache::write_bytes writes a temporary sibling and renames it; the cache listing accepts only
  64-character hex names, so temporary names are never listed.
"""
import re
from rules.common import *
from rules.order import call_pred, sites, ok_cut
import findom

TECHNIQUE = ('static analysis over rustc MIR: finite-domain evaluation of cacheability predicates over FileType x cacheable across sibling methods, authoritative-result provenance (backend result returned on every path), cache-error non-propagation, temp-name / rename sequence of cache writes')
LEVEL = "other"
EXHAUSTIVE = True
EXPLANATION = (
    "Sibling-agreement and must-call rules over backend/cache.rs: the four cacheability predicates are evaluated exactly "
    "over FileType x cacheable by concrete interpretation of their MIR; the backend call's dominance/return provenance and "
    "the prune-on-list structure are decided on the CFG. Decides the structure that makes the cache an optimisation "
    "only - not equality of results with and without cache over histories.")
NOT_DECIDED = ["equality of results with/without cache over arbitrary histories (runtime)",
               "stale hits for ids removed from the repository between two listings"]
FILETYPES = ["Config", "Index", "Key", "Snapshot", "Pack"]


def recv_field(body, t):
    p = op_place(t["args"][0]) if t["args"] else None
    if p is None:
        return None
    pp = flow.place_path(body, p)
    if pp and pp[0] == ("arg", 1) and pp[1]:
        return pp[1][0]
    return None


def run(ctx, rep):
    prog = ctx.prog
    wiring_rule(ctx, rep, "C19")
    for r, tx in (("C19.a", "authoritative results come from the backend"), ("C19.b", "cache is pruned on every listing of a cacheable type"),
                  ("C19.c", "cacheability predicates agree"), ("C19.d", "atomic cache writes, temp names never listed"), ("C19.e", "cache hits return exactly the requested range")):
        rep.rule(r, tx)
    CB = "<rustic_core::backend::cache::CachedBackend as rustic_core::backend::"
    LS = prog.fn(CB + "ReadBackend>::list_with_size")
    RF = prog.fn(CB + "ReadBackend>::read_full")
    RP = prog.fn(CB + "ReadBackend>::read_partial")
    WB = prog.fn(CB + "WriteBackend>::write_bytes")
    RM = prog.fn(CB + "WriteBackend>::remove")
    CACHE_CALL = re.compile(r"^rustic_core::backend::cache::Cache::(read_full|read_partial|write_bytes|remove|remove_not_in_list|list_with_size)$")

    def be_calls(body, rx):
        return [bb for bb, t in body.calls() if "callee" in t and is_method_of(t, rx) and recv_field(body, t) == "be"]

    def cache_calls(body):
        return [(bb, t) for bb, t in body.calls() if "callee" in t and CACHE_CALL.search(callee(t))]

    # ---- C19.a -------------------------------------------------------------------------------------
    for (F, rx, nm) in ((WB, RE_WRITE_BYTES, "write_bytes"), (RM, RE_REMOVE, "remove")):
        bc = be_calls(F, rx)
        rep.require("C19.a", f"{nm}/backend-call", len(bc) == 1, where=F.loc(), what=f"CachedBackend::{nm} calls the backend's {nm}")
        if len(bc) == 1:
            # every path from entry to return passes the backend call
            reach = F.reachable_from(0, cut_blocks=[bc[0]])
            rets = F.returns()
            okall = not any(r in reach for r in rets)
            rep.check("C19.a", f"{nm}/backend-on-every-path", okall, where=where(F, bc[0]), what=f"the backend's {nm} is called on every path (whatever the cache did)" if okall else f"CachedBackend::{nm} can return without calling the backend (e.g. after a cache failure)")
            kind, _ = ok_cut(F, bc[0])
            rep.check("C19.a", f"{nm}/returns-backend-result", kind == "return", where=where(F, bc[0]), what=f"CachedBackend::{nm} returns the backend's result")
    bc = be_calls(LS, RE_LIST)
    rep.require("C19.a", "list/backend-call", len(bc) == 1, where=LS.loc(), what="list_with_size lists the backend")
    if len(bc) == 1:
        sl = flow.backward_slice(LS, [0])
        from_be = bc[0] in sl["call_sites"]
        from_cache = any(c.endswith("cache::Cache::list_with_size") for c in sl["calls"])
        rep.check("C19.a", "list/returns-backend-list", from_be and not from_cache, where=where(LS, bc[0]), what="the returned listing derives from the backend's listing only" if from_be and not from_cache else "the returned listing depends on the cache's content")
    # no cache call is `?`-propagated in the wrapper's methods
    for F in (LS, RF, RP, WB, RM):
        for (bb, t) in cache_calls(F):
            kind, _ = ok_cut(F, bb)
            short = fn_key(F).rsplit("::", 1)[-1]
            propagated = kind == "?" or t["dest"] == [0]
            rep.check("C19.a", f"{short}/cache-error-not-propagated/{callee(t).rsplit('::', 1)[-1]}", not propagated, where=where(F, bb),
                      what=f"CachedBackend::{short}: a failure of Cache::{callee(t).rsplit('::', 1)[-1]} is not returned as the operation's error (cache is best effort)" if not propagated else
                           f"CachedBackend::{short}: a failure of the cache makes the repository operation fail")
    # reads fall through to the backend on a cache miss / cache error
    for (F, nm) in ((RF, "read_full"), (RP, "read_partial")):
        bcalls = [bb for bb, t in F.calls() if "callee" in t and (is_method_of(t, RE_READ_FULL) or is_method_of(t, RE_READ_PARTIAL)) and recv_field(F, t) == "be"]
        cc = [bb for (bb, t) in cache_calls(F) if callee(t).endswith(("Cache::read_full", "Cache::read_partial"))]
        okm = bool(bcalls) and bool(cc)
        for c in cc:
            # both the Ok(None) and the Err outcome of the cache read can reach a backend read
            t = F.term(c)
            okm = okm and any(C.can_reach(F, c, b) for b in bcalls)
        rep.check("C19.a", f"{nm}/falls-through", okm, where=F.loc(), what=f"CachedBackend::{nm} reads from the backend when the cache has no (or an unreadable) entry")
    # ---- C19.b -------------------------------------------------------------------------------------
    rn = [(bb, t) for (bb, t) in cache_calls(LS) if callee(t).endswith("remove_not_in_list")]
    rep.require("C19.b", "list/prunes", len(rn) == 1, where=LS.loc(), what="list_with_size calls Cache::remove_not_in_list")
    if len(rn) == 1:
        conds = []
        for (sw, succ) in C.transitive_control_deps(LS, rn[0][0]):
            e = flow.expr_of(LS, LS.term(sw)["discr"])
            conds.append(e)
        extra = [e for e in conds if not (e[0] == "call" and e[1].endswith("FileType::is_cacheable")) and not (e[0] == "discr" and "Try>::branch" in repr(e))]
        rep.check("C19.b", "list/prune-unconditional", not extra and any(e[0] == "call" and e[1].endswith("is_cacheable") for e in conds), where=where(LS, rn[0][0]),
                  what="the cache is pruned on every listing of a cacheable type (condition: tpe.is_cacheable() only)" if not extra else f"pruning the cache on listing depends on further conditions: {[repr(e)[:80] for e in extra]}")
        # its list argument is the backend's list
        sl = flow.backward_slice(LS, op_place(rn[0][1]["args"][2]))
        rep.check("C19.b", "list/prune-with-backend-list", bool(bc) and bc[0] in sl["call_sites"], where=where(LS, rn[0][0]), what="remove_not_in_list receives the backend's listing")
    RN = prog.find1(r"^rustic_core::backend::cache::Cache::remove_not_in_list$")
    # two removal passes, in the function itself or in closures it hands to iterator consumers (`keys().try_for_each(..)`): the
    # two Cache::remove sites lie in different iteration contexts (another loop, or another body)
    ctxs = []
    for F_ in [RN] + prog.closures_of(RN):
        lp_ = [(h, C.loop_blocks(F_, h, l)) for (l, h) in C.back_edges(F_)]
        for bb, t in F_.calls():
            if "callee" in t and callee(t).endswith("cache::Cache::remove"):
                inner = sorted([(len(bl), h) for (h, bl) in lp_ if bb in bl])
                ctxs.append((F_.path, inner[0][1] if inner else None))
    two = len(ctxs) == 2 and ctxs[0] != ctxs[1] and all(c_[1] is not None or c_[0] != RN.path for c_ in ctxs)
    rep.check("C19.b", "remove_not_in_list/two-removals", two, where=RN.loc(), what="remove_not_in_list removes in two passes: entries with a different size, and entries not in the list")
    sites_ = []
    for F_ in [RN] + prog.closures_of(RN):
        for bb, t in F_.calls():
            if "callee" in t and callee(t).endswith("cache::Cache::remove"):
                sites_.append((F_, bb))
    if len(sites_) == 2:
        # one removal is control-dependent on a size comparison; the other iterates the remaining keys of the cache list
        def size_guarded(F_, bb):
            return any(re.search(r"PartialEq|'Ne'|'Eq'", repr(flow.expr_of(F_, F_.term(sw)["discr"]))) for (sw, succ) in C.transitive_control_deps(F_, bb))
        first = [x for x in sites_ if size_guarded(*x)]
        rest = [x for x in sites_ if x not in first[:1]]
        rep.check("C19.b", "remove_not_in_list/size-mismatch", bool(first), where=where(*first[0]) if first else RN.loc(), what="a cached file whose size differs from the listed size is removed")
        oknl = False
        if rest:
            F_, bb = rest[0]
            if F_ is RN:
                sl = flow.backward_slice(RN, op_place(RN.term(bb)["args"][2]))
                oknl = any(c.endswith("Cache::list_with_size") for c in sl["calls"]) and any(re.search(r"::keys$|::into_keys$|::iter$|::drain$", c) for c in sl["calls"])
            else:
                # the closure is consumed by an iterator consumer whose receiver is the remaining keys of the cache listing
                for cb, ct in RN.calls():
                    if "callee" in ct and re.search(r"Iterator::(try_for_each|for_each|try_fold|fold|map)$", callee_decl(ct)) and ct["args"] and op_place(ct["args"][0]):
                        sl = flow.backward_slice(RN, op_place(ct["args"][0]))
                        if any(c.endswith("Cache::list_with_size") for c in sl["calls"]) and any(re.search(r"::keys$|::into_keys$|::iter$|::drain$", c) for c in sl["calls"]):
                            oknl = True
        rep.check("C19.b", "remove_not_in_list/not-listed", oknl, where=where(*rest[0]) if rest else RN.loc(),
                  what="every cached id that is left after removing the listed ones (not in the repository) is removed")
        # ... for every list, the empty one included (an empty repository listing is exactly when every cache entry is stale):
        # the pass over the remaining keys is on EVERY path to the Ok return - no early exit skips it
        anchors = []
        if rest:
            F_, bb = rest[0]
            if F_ is RN:
                byh_ = {}
                for (l_, h_) in C.back_edges(RN):
                    byh_.setdefault(h_, set()).update(C.loop_blocks(RN, h_, l_))
                inner_ = sorted([(len(bl), h_, bl) for h_, bl in byh_.items() if bb in bl])
                if inner_:
                    bl = inner_[0][2]
                    anchors = [cb for cb, ct in RN.calls() if cb in bl and "callee" in ct and re.search(r"Iterator(>)?::next$", callee(ct) + " " + callee_decl(ct)) and C.dominates(RN, cb, bb)]
            else:
                anchors = [cb for cb, ct in RN.calls() if "callee" in ct and re.search(r"Iterator::(try_for_each|for_each|try_fold|fold)$", callee_decl(ct))
                           and any(d_[0] == "stmt" and d_[4][0] == "agg" and d_[4][1][0] == "closure" and d_[4][1][1] == F_.path for a_ in ct["args"] for d_ in RN.defs().get(op_local(a_), []))]
        okrets = [bi for bi, blk in enumerate(RN.blocks) for s_ in blk["s"] if s_[0] == "=" and s_[1] == [0] and s_[2][0] == "agg" and s_[2][1][0] == "adt" and s_[2][1][2] == "Ok"]
        tail_ret = [cb for cb in anchors if RN.term(cb).get("dest") == [0]]
        okall = bool(anchors) and (bool(okrets) or bool(tail_ret)) and not any(o in RN.reachable_from(0, cut_blocks=anchors) for o in okrets)
        rep.check("C19.b", "remove_not_in_list/not-listed/every-path", okall, where=RN.loc(), what="the removal of cache entries that are not in the list runs on every path to success (also for an empty list)" if okall else
                  "remove_not_in_list can return Ok without the pass that removes entries not in the list (early exit, e.g. for an empty list): with an empty repository listing every stale cache entry survives")
    # every listing entry point of CachedBackend prunes: `list` is either not overridden (the trait default calls
    # list_with_size) or goes through list_with_size / remove_not_in_list itself
    im = [i for i in prog.impls if (i["header"].get("self_adt") or "").endswith("cache::CachedBackend") and (i["header"].get("trait") or "").endswith("backend::ReadBackend")]
    if len(im) != 1:
        raise AnchorError("impl ReadBackend for CachedBackend not found")
    names = {it["name"]: it["path"] for it in im[0]["items"]}
    if "list" in names:
        LB_ = prog.fn(names["list"])
        via = any("callee" in t and (callee(t).endswith("remove_not_in_list") or re.search(r"CachedBackend as rustic_core::backend::ReadBackend>::list_with_size$", callee(t))) for _, t in LB_.calls())
        rep.check("C19.b", "list/also-prunes", via, where=LB_.loc(), what="CachedBackend::list goes through the pruning listing" if via else
                  "CachedBackend overrides list() without pruning the cache: stream_all/find/list no longer drop stale or wrong-size cache entries")
    else:
        D = prog.bodies.get("rustic_core::backend::ReadBackend::list")
        via = D is not None and any("callee" in t and is_method_of(t, RE_LIST) and t["cname"] == "list_with_size" for _, t in D.calls())
        rep.check("C19.b", "list/also-prunes", via, where=D.loc() if D else "", what="CachedBackend does not override list(): the trait default calls list_with_size, which prunes the cache")
    # ---- C19.e a cache hit returns exactly the requested range --------------------------------------------
    CRP = prog.find1(r"^rustic_core::backend::cache::Cache::read_partial$")
    rex = [bb for bb, t in CRP.calls() if "callee" in t and re.search(r"std::io::Read(>)?::read_exact$", callee(t))]
    somes = [bi for bi, blk in enumerate(CRP.blocks) for s_ in blk["s"] if s_[0] == "=" and s_[2][0] == "agg" and s_[2][1][0] == "adt" and s_[2][1][2] == "Some"]
    oke = False
    if len(rex) == 1 and somes:
        kind, edges = ok_cut(CRP, rex[0])
        reach = CRP.reachable_from(0, cut_edges=edges)
        sl = flow.backward_slice(CRP, op_place(CRP.term(rex[0])["args"][1]))
        oke = kind == "?" and not any(b in reach for b in somes) and 5 in sl["args"]
    rep.check("C19.e", "cache-hit-exact-length", oke, where=CRP.loc(), what="a cache hit is reported only after read_exact filled a buffer of exactly `length` bytes (a short cache file is an error -> fall back to the backend)" if oke else
              "Cache::read_partial can report a hit with fewer than `length` bytes (a truncated cache file is returned as data)")
    # ---- C19.c -------------------------------------------------------------------------------------
    def uses_cache(F, tpe_arg, cache_arg):
        tb = {}
        cc = [bb for (bb, t) in cache_calls(F)]
        for ft in FILETYPES:
            for c in (True, False):
                args = {tpe_arg: findom.Enum("rustic_core::backend::FileType", ft)}
                if cache_arg:
                    args[cache_arg] = c
                it = findom.Interp(prog, F, args)
                reach = it.run()
                if it.imprecise:
                    raise AnchorError(f"C19.c: cacheability predicate of {fn_key(F)} not evaluable")
                tb[(ft, c)] = any(x in reach for x in cc)
        return tb
    tw = uses_cache(WB, 2, 4)
    tr = uses_cache(RM, 2, 4)
    tp = uses_cache(RP, 2, 4)
    tf = uses_cache(RF, 2, None)
    for ft in FILETYPES:
        for c in (True, False):
            k = f"{ft}/{'cacheable' if c else 'uncacheable'}"
            ok = tw[(ft, c)] == tr[(ft, c)] == tp[(ft, c)]
            rep.check("C19.c", f"agree/{k}", ok, where=WB.loc(), what=f"({ft}, cacheable={c}): cached on write={tw[(ft, c)]}, removed from cache={tr[(ft, c)]}, read_partial via cache={tp[(ft, c)]}")
        # read_full has no flag: it may use the cache only for classes that are cached whatever the flag
        always = all(tw[(ft, c)] for c in (True, False))
        rep.check("C19.c", f"read_full/{ft}", (not tf[(ft, True)]) or always or ft == "Pack", where=RF.loc(),
                  what=f"read_full({ft}) uses the cache={tf[(ft, True)]}; class always cached={always}")
    # ---- C19.d -------------------------------------------------------------------------------------
    CW = prog.find1(r"^rustic_core::backend::cache::Cache::write_bytes$")
    H = prog.find1(r"^rustic_core::backend::cache::Cache::write_bytes::write_local_file$")
    hs = [bb for bb, t in CW.calls() if "callee" in t and callee(t) == H.path]
    rs = [bb for bb, t in CW.calls() if "callee" in t and callee(t) == "std::fs::rename"]
    rep.require("C19.d", "write/helper+rename", len(hs) == 1 and len(rs) == 1, where=CW.loc(), what="Cache::write_bytes writes through write_local_file and publishes with rename")
    if len(hs) == 1 and len(rs) == 1:
        th, tr_ = CW.term(hs[0]), CW.term(rs[0])
        slh = flow.backward_slice(CW, op_place(th["args"][0]))
        suffix = [c.get("str") for c in slh["consts"] if isinstance(c, dict) and "str" in c]
        sl0 = flow.backward_slice(CW, op_place(tr_["args"][0]))
        sl1 = flow.backward_slice(CW, op_place(tr_["args"][1]))
        suf0 = [c.get("str") for c in sl0["consts"] if isinstance(c, dict) and "str" in c]
        suf1 = [c.get("str") for c in sl1["consts"] if isinstance(c, dict) and "str" in c]
        rep.check("C19.d", "write/temp-name", bool(suffix) and suffix == suf0 and not suf1, where=where(CW, hs[0]), what=f"the cache entry is written to a temporary sibling (+{suffix!r}) that is then renamed to the final name")
        rep.check("C19.d", "write/suffix-not-listable", bool(suffix) and all(len(s_) > 0 for s_ in suffix), where=where(CW, hs[0]), what="the temporary name is longer than 64 characters, so the cache listing (exactly 64 hex characters) never lists it")
        sw = th["to"]
        tsw = CW.term(sw)
        ok_only = False
        if tsw["k"] == "switch":
            okt = [x for v, x in tsw["targets"] if v == "0"]
            ok_only = bool(okt) and rs[0] not in CW.reachable_from(0, cut_edges=[(sw, okt[0])])
        rep.check("C19.d", "write/rename-after-write", ok_only, where=where(CW, rs[0]), what="rename happens only after the temporary file was written successfully")
    CL = prog.find1(r"^rustic_core::backend::cache::Cache::list_with_size$")
    fam = list(prog.closures_of(CL))
    # named fns used as filter predicates (`.filter(is_cache_file)`) and crate-local helpers they call
    for _, t_ in CL.calls():
        for a_ in t_.get("args", []):
            if a_[0] == "k" and isinstance(a_[1], dict) and "fn" in a_[1]:
                fb_ = prog.bodies.get((a_[1]["fn"].get("resolved") or {}).get("path") or a_[1]["fn"]["callee"])
                if fb_ is not None and fb_.crate == "rustic_core":
                    fam.append(fb_)
    for f_ in list(fam):
        for _, t_ in f_.calls():
            if "callee" in t_ and callee(t_).startswith("rustic_core::") and callee(t_) in prog.bodies:
                fam.append(prog.bodies[callee(t_)])
        fam += [c_ for c_ in prog.closures_of(f_) if c_ not in fam]
    has64 = any(s[0] == "=" and s[2][0] == "bin" and s[2][1] in ("Eq", "Ne") and any(o[0] == "k" and o[1].get("v") == 64 for o in (s[2][2], s[2][3])) for f in fam for blk in f.blocks for s in blk["s"])
    rep.check("C19.d", "list/64-char-filter", has64, where=CL.loc(), what="the cache listing accepts only names of exactly 64 characters")
