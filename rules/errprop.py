def run(ctx, rep, rule):
    pass
