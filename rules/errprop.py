"""R-ERRPROP: no Result of a call that can write to / remove from / stage data for repository storage is dropped.
Every such call site must `?`-propagate or return its Result (directly or through map_err & co), or hand it to an
accepted consumer; everything else (unused `_ =`, `.ok()`, `unwrap_or*`, `if let Err(..)` that only logs) is a
violation unless the site is in the exception table below (one line of reason each)."""
import re
from rules.common import *

# exceptions confirmed by reading: (function regex, callee regex) -> reason
EXCEPTIONS = [
    (r"^rustic_core::backend::cache::CachedBackend", r".", "cache is best effort by design: the authoritative backend call's result is what is returned"),
    (r"^rustic_core::blob::packer::(Packer::<BE>::new|Actor::new)::", r"crossbeam_channel::Sender::<T>::send$", "status is sent to the finish channel; a gone receiver means nobody waits"),
]

ACCEPTED_CONSUMERS = re.compile(
    r"(crossbeam_channel::Sender::<T>::send$"           # status handed to the finalize() receiver
    r"|^std::result::Result::<T, E>::and_then$"          # chained: the chain's result is checked separately
    r"|^std::iter::Iterator::try_for_each|ParallelIterator::try_for_each"
    r"|^std::result::Result::<T, E>::(map|map_err|inspect_err)$)")
BAD_CONSUMERS = re.compile(r"^std::result::Result::<T, E>::(ok|unwrap_or|unwrap_or_default|unwrap_or_else|is_ok|is_err|err)$")


def classify(E, bb):
    """how the Result produced by the call at bb is consumed"""
    t = E.term(bb)
    dest = t["dest"][0]
    if t["dest"] == [0]:
        return "return", None
    kind, edges = flow.try_ok_edges(E, bb)
    if kind in ("?", "return"):
        return kind, None
    aliases, consumers, returned = flow.forward_aliases(E, dest, through=flow._RESULT_THROUGH)
    if returned:
        return "return", None
    for (cb, ct, ai) in consumers:
        c = callee(ct)
        if BAD_CONSUMERS.search(c):
            return "discarded", c
    for (cb, ct, ai) in consumers:
        c = callee(ct)
        if ACCEPTED_CONSUMERS.search(c) or ACCEPTED_CONSUMERS.search(callee_decl(ct)):
            return "handed-on", c
    # aggregated into a value (e.g. Some(result), tuple) that is returned / yielded
    for a in aliases:
        if a == 0:
            return "return", None
    # discriminant inspected without `?`
    for bi, b in enumerate(E.blocks):
        for s in b["s"]:
            if s[0] == "=" and s[2][0] == "discr" and s[2][1][0] in aliases:
                return "matched", None
    if consumers:
        return "passed", callee(consumers[0][1])
    return "dropped", None


def run(ctx, rep, rule):
    prog, cg = ctx.prog, ctx.cg
    rep.rule(rule, "every Result of a call with a storage write/remove/stage effect is `?`-propagated, returned, or handed to an accepted consumer")
    eff = StagedEffects(prog, cg, kinds=("W", "RM", "CREATE", "STAGE"))
    eff.compute()
    n = 0
    nsites = 0
    per_fn_ord = {}
    for b in list(prog.by_crate["rustic_core"]):
        if is_storage_layer(b) and not b.path.startswith("<rustic_core::backend::decrypt") and "DecryptWriteBackend" not in b.path:
            # forwarding wrappers below the interface are covered by their own properties (C16/C19/C20)
            pass
        per_site = eff.site_eff.get(b.path, {})
        for bb, es in sorted(per_site.items()):
            if not es:
                continue
            t = b.term(bb)
            if t["k"] != "call" or "callee" not in t:
                continue
            if not t.get("dest_ty", "").startswith("std::result::Result"):
                continue
            # only sites whose OWN callee carries the effect (not a closure consumer like try_for_each: its result is
            # the closure's result, checked too since it is a Result)
            nsites += 1
            c = callee(t)
            k = (b.path, c)
            per_fn_ord[k] = per_fn_ord.get(k, 0) + 1
            kind, via = classify(b, bb)
            ok = kind in ("?", "return", "handed-on")
            reason = None
            if not ok:
                for (frx, crx, why) in EXCEPTIONS:
                    if re.search(frx, b.path) and re.search(crx, c):
                        ok = True
                        reason = why
            key = f"{fn_key(b)}/{strip_crate(c)}/{per_fn_ord[k]}"
            rep.check(rule, key, ok, where=where(b, bb),
                      what=f"{fn_key(b)}: Result of {strip_crate(c)} (effects {sorted({e[0] for e in es})}) is {kind}" + (f" via {via}" if via else "") + (f" [exception: {reason}]" if reason else ""))
    rep.floor(rule, "storage-effect call sites returning Result", nsites, 40)


def is_storage_layer(b):
    tr = (b.impl or {}).get("trait", "") or ""
    return tr.endswith(("backend::WriteBackend", "backend::ReadBackend"))


# ---- errors of streamed repository reads are not filtered away ---------------------------------------------
REPO_READ = re.compile(r"stream_all|stream_list|TreeStreamer|NodeStreamer|DecryptReadBackend|ReadBackend(>)?::(read_full|read_partial|list|list_with_size)|get_file|read_encrypted|from_backend|iter_all_from_backend|Tree::from_backend|SnapshotFile|IndexFile|KeyFile|find_id")
ITER_DROP = re.compile(r"^std::iter::Iterator::(flatten|flat_map)$|ParallelIterator::(flatten|flatten_iter)$")
OK_FN = re.compile(r"^std::result::Result::<T, E>::ok$")
ITER_EXC = {
    "repofile::snapshotfile::SnapshotFile::iter_all_from_backend": "documented warn-and-skip listing of all snapshots (each skipped file is logged); the id-addressed readers propagate",
    "backend::cache::Cache::list_with_size": "directory-walk errors of the local cache (best effort)",
    "commands::restore::collect_and_prepare::{closure#0}": "directory-walk errors of the restore destination, not repository reads",
    "repository::warm_up::read_progress_output": "lines of a warm-up helper's output",
}


def run_iter(ctx, rep, rule):
    """an iterator whose items are RusticResult values must not be flattened / filtered with Result::ok: that silently
    drops the error of a failed (e.g. tampered) read"""
    prog = ctx.prog
    rep.rule(rule, "no iterator of RusticResult items is flattened or filtered with Result::ok (read errors must surface)")
    n = 0
    for b in prog.by_crate["rustic_core"]:
        for bb, t in b.calls():
            if "callee" not in t:
                continue
            cd = callee_decl(t)
            ga = " ".join(t.get("gargs") or [])
            hit = None
            if ITER_DROP.search(cd) and "Result<" in ga and "RusticError" in ga:
                hit = cd.rsplit("::", 1)[-1]
            else:
                for a in t["args"]:
                    if a[0] == "k" and "fn" in a[1]:
                        p = (a[1]["fn"].get("resolved") or {}).get("path") or a[1]["fn"]["callee"]
                        if OK_FN.search(p) and "RusticError" in ga + " ".join(a[1]["fn"].get("gargs") or []):
                            hit = cd.rsplit("::", 1)[-1] + "(Result::ok)"
            if hit:
                # only iterators fed by reads of the REPOSITORY are in scope (files, trees, listings); pipelines over the
                # backup source or a local directory walk skip unreadable entries by design
                recv = op_place(t["args"][0]) if t["args"] else None
                prov = flow.backward_slice(b, recv)["calls"] if recv else set()
                if not any(REPO_READ.search(c) for c in prov) and not REPO_READ.search(ga):
                    rep.check(rule, f"{fn_key(b)}/{hit}/not-a-repository-read", True, where=where(b, bb), what=f"{fn_key(b)}: {hit} over Result items that do not come from repository reads (source / local walk): out of scope", nontrivial=False)
                    continue
                n += 1
                k = fn_key(b)
                why = ITER_EXC.get(k)
                rep.check(rule, f"{k}/{hit}", why is not None, where=where(b, bb),
                          what=f"{k}: {hit} over RusticResult items [exception: {why}]" if why else
                               f"{k}: {hit} applied to an iterator of RusticResult items silently DROPS read errors (a tampered or unreadable file is skipped instead of reported)")
    rep.count(f"{rule}: adaptor sites over RusticResult items", n)
    run_items(ctx, rep, rule + "i")
    run_reads(ctx, rep, rule)


# ---- items of a loop over streamed repository reads are propagated -------------------------------------------
ITEM_EXC = {
}


def run_items(ctx, rep, rule):
    """`for item in <iterator of RusticResult>`: the Err case of every item must leave the function as an error (`?`,
    transpose()? or returning the item); a `match`/`if let` that logs and carries on skips an unreadable file"""
    prog = ctx.prog
    rep.rule(rule, "the Err case of every item taken from an iterator of RusticResult values is propagated (`?` / transpose()? / returned)")
    n = 0
    ordn = {}
    for b in prog.by_crate["rustic_core"]:
        for bb, t in b.calls():
            if "callee" not in t or not re.search(r"Iterator(>)?::next$", callee(t) + " " + callee_decl(t)):
                continue
            dt = t.get("dest_ty", "")
            if not (dt.startswith("std::option::Option<std::result::Result<") and "RusticError" in dt):
                continue
            # only iterators fed by reads of the REPOSITORY are in scope (as for the adaptor rule): a loop over the backup
            # source pipeline logs and skips unreadable source entries by design
            recv = op_place(t["args"][0]) if t["args"] else None
            prov = flow.backward_slice(b, recv)["calls"] if recv else set()
            ga = " ".join(t.get("gargs") or []) + " " + callee(t)
            if not any(REPO_READ.search(c) for c in prov) and not REPO_READ.search(ga):
                rep.check(rule, f"{fn_key(b)}/item/not-a-repository-read", True, where=where(b, bb), what=f"{fn_key(b)}: loop over Result items that do not come from repository reads (source pipeline / local walk): out of scope", nontrivial=False)
                continue
            n += 1
            k = fn_key(b)
            ordn[k] = ordn.get(k, 0) + 1
            aliases, consumers, returned = flow.forward_aliases(b, t["dest"][0])
            how = None
            if returned:
                how = "returned"
            for (cb, ct, ai) in consumers:
                c = callee(ct)
                if c.endswith("::from_residual"):
                    how = how or "?"
                elif c.endswith("::transpose") and classify(b, cb)[0] in ("?", "return"):
                    how = how or "transpose()?"
            why = ITEM_EXC.get(k)
            rep.check(rule, f"{k}/item/{ordn[k]}", how is not None or why is not None, where=where(b, bb),
                      what=f"{k}: items of {strip_crate(callee(t))[:70]} are propagated with {how}" if how else
                           (f"{k}: [exception: {why}]" if why else
                            f"{k}: the Err case of an item read from the repository is handled locally (logged/skipped) instead of propagated: an unreadable or tampered file is silently left out"))
    rep.floor(rule, "loops over RusticResult items", n, 6)


LENIENT = re.compile(r"^rustic_core::repofile::snapshotfile::SnapshotFile::iter_all_from_backend$")


def run_strict_readers(ctx, rep, rule, roots_rx, what):
    """operations that must see EVERY stored file (check, prune's used-blob walk) must not obtain their input through a
    lenient lister that warns and skips unreadable files: no call path from the given roots reaches one"""
    prog, cg = ctx.prog, ctx.cg
    roots = [b for b in prog.by_crate["rustic_core"] if re.search(roots_rx, b.path)]
    rep.require(rule, f"strict-readers/{what}/roots", len(roots) >= 1, where="", what=f"entry points of {what} found ({len(roots)})")
    if not roots:
        return
    seen = cg.reachable(roots)
    hit = [p for p in seen if LENIENT.search(p)]
    chain = cg.path_to(seen, hit[0]) if hit else []
    rep.check(rule, f"strict-readers/{what}", not hit, where=roots[0].loc(),
              what=f"{what} never reads its snapshots through the warn-and-skip lister (an unreadable snapshot file is an error)" if not hit else
                   f"{what} obtains snapshots through the lenient lister ({' -> '.join(strip_crate(x) for x in chain[-4:])}): an unreadable / tampered snapshot file is silently left out")


READ_PRIM = re.compile(r"DecryptReadBackend(>)?::(get_file|read_encrypted_full|read_encrypted_partial|read_encrypted_from_partial|decrypt|stream_all|stream_list)$"
                       r"|ReadBackend(>)?::(read_full|read_partial|list|list_with_size)$|Tree::from_backend$|SnapshotFile::from_backend$|::find_id$|::find_ids$")
READ_EXC = {
    "<backend::warm_up::WarmUpAccessBackend as backend::ReadBackend>::warm_up": "the access that triggers the warm-up; its data and outcome are irrelevant by design (the wait/read that follows reports errors)",
}


REPORTS = re.compile(r"CheckResultsCollector::(add_error|add_warn)$|::from_residual$|^std::rt::|panicking::|::panic|::unwrap$|::expect$|::send$")


def _err_arm_reports(b, bb):
    """the Result of the call at bb is inspected with match / if let. Evaluated under the assumption "the result is Err"
    (every switch on the discriminant of a place of the result's type that holds it takes the Err edge): every way on to the
    function's return or round the enclosing loop passes a point where the error is returned (`_0 = Err(..)`), re-raised
    (`?`), recorded in the check results, sent on, or the thread panics. `Err(e) => { warn!(..); continue }` does not."""
    t = b.term(bb)
    rty = t.get("dest_ty", "")
    aliases, _, _ = flow.forward_aliases(b, t["dest"][0], through=flow._RESULT_THROUGH)
    aliases = set(aliases) | {t["dest"][0]}
    backs = set(C.back_edges(b))

    def reports(r_):
        blk = b.blocks[r_]
        for s_ in blk["s"]:
            if s_[0] == "=" and s_[2][0] == "agg" and s_[2][1][0] == "adt" and s_[2][1][2] == "Err" and (s_[1] == [0] or "Option" in (b.locals[0] or "")):
                return True
        tr = blk["t"]
        if tr["k"] == "call" and "callee" in tr and (REPORTS.search(callee(tr)) or REPORTS.search(callee_decl(tr))):
            return True
        if tr["k"] == "call" and tr.get("to") is None:
            return True               # diverging call (panic)
        return tr["k"] in ("unreachable", "resume")
    start = t.get("to")
    if start is None:
        return True
    seen, work = set(), [start]
    inspected = False
    while work:
        x = work.pop()
        if x in seen:
            continue
        seen.add(x)
        if reports(x):
            continue
        tt = b.term(x)
        if tt["k"] == "return":
            return False if inspected else True
        succ = list(b.succ(x))
        if tt["k"] == "switch":
            dl = op_local(tt["discr"])
            src = [s_ for s_ in b.blocks[x]["s"] if s_[0] == "=" and s_[1] == [dl] and s_[2][0] == "discr" and s_[2][1] and s_[2][1][0] in aliases and str(s_[2][2]) == rty]
            if src:
                inspected = True
                errt = [y for v, y in tt["targets"] if v == "1"]
                succ = [errt[0] if errt else tt["otherwise"]]
        for y in succ:
            if (x, y) in backs:
                if inspected:
                    return False      # round the loop with the error neither reported nor returned
                continue
            work.append(y)
    return True


def run_reads(ctx, rep, rule):
    """no Result of a repository READ (file, blob, listing, stream creation) is thrown away: `.ok()`, `unwrap_or*`,
    `is_ok()`, `_ = ..` on such a call turns an authentication / I/O failure into 'nothing there'"""
    prog = ctx.prog
    rep.rule(rule + "r", "no Result of a repository read is discarded (.ok(), unwrap_or*, is_ok(), unused)")
    n = 0
    ordn = {}
    for b in prog.by_crate["rustic_core"]:
        for bb, t in b.calls():
            if "callee" not in t or not (READ_PRIM.search(callee(t)) or READ_PRIM.search(callee_decl(t))):
                continue
            if not t.get("dest_ty", "").startswith("std::result::Result"):
                continue
            n += 1
            kind, via = classify(b, bb)
            k = fn_key(b)
            c = strip_crate(callee_decl(t)).rsplit("::", 1)[-1]
            ordn[(k, c)] = ordn.get((k, c), 0) + 1
            bad = kind in ("discarded", "dropped")
            if kind == "matched" and not _err_arm_reports(b, bb):
                bad = True
                kind = "matched with an Err arm that neither returns the error, panics nor records it (logged / skipped)"
            why = READ_EXC.get(k) if bad else None
            if bad or why:
                rep.check(rule + "r", f"{k}/{c}/{ordn[(k, c)]}", why is not None, where=where(b, bb),
                          what=f"{k}: result of {c} is {kind} [exception: {why}]" if why else
                               f"{k}: the Result of the repository read {c} is {kind}" + (f" via {strip_crate(via)}" if via else "") + ": a failed (tampered, unreadable) read is treated as absent data")
    rep.count(f"{rule}r: repository read call sites", n)
    rep.floor(rule + "r", "repository read call sites returning Result", n, 60)
