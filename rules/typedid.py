"""R-TYPEDID: blob identity is (type, id) wherever 'already stored' / 'still used' is decided.

Every struct field whose type is a set/map keyed by the untyped `BlobId` is enumerated from the ADT table. A field is
*in scope* if it is in the frozen owner table below (confirmed by reading: lookups on it suppress a write or permit a
removal); in-scope owners must key by (BlobType, id) - either the key type contains BlobType, or the collection sits
inside a BlobTypeMap/EnumMap<BlobType,..>. Untyped-id containers that are not in the table and not in the exemption
table are reported as unclassified (a new dedup/used filter must be typed or argued about)."""
import re
from rules.common import *

# owner -> why lookups on it decide storage/removal
IN_SCOPE = {
    "index::indexer::Indexer.indexed": "Packer::new/add_raw skip a blob when Indexer::has(id) is true; one Indexer is shared by the Tree and the Data packer of a backup/copy/prune",
    "commands::prune::PrunePlan.used_ids": "PackInfo::from_pack counts a pack's blobs as used by looking them up here; unused blobs are dropped by repack and their packs deleted",
}
# untyped containers whose lookups cannot change what is stored or removed
EXEMPT = {
    "repository::IndexedFullStatus.cache": "plaintext memo for reads: equal ids mean equal plaintext, a hit only avoids a backend read",
    "blob::packer::BasicPacker.index": None,
}
UNTYPED = re.compile(r"(BTreeSet|BTreeMap|HashSet|HashMap|Cache)<rustic_core::blob::BlobId\b")
TYPED_KEY = re.compile(r"(BTreeSet|BTreeMap|HashSet|HashMap)<\((rustic_core::blob::BlobType, rustic_core::blob::BlobId|rustic_core::blob::BlobId, rustic_core::blob::BlobType)\)")
TYPEMAP = re.compile(r"(BlobTypeMap|EnumMap<rustic_core::blob::BlobType)")


def owners(prog):
    out = []
    for p, a in prog.adts.items():
        if not p.startswith("rustic_core::"):
            continue
        for v in a["variants"]:
            for (fname, fty) in v["fields"]:
                if "BlobId" in fty and re.search(r"Set<|Map<|Cache<", fty):
                    out.append((strip_crate(p) + "." + fname, fty, a["span"]))
    return out


def run(ctx, rep, rule, owners_filter=None, **kw):
    prog = ctx.prog
    owners_filter = kw.get("owners") or owners_filter
    rep.rule(rule, "containers that decide 'already stored'/'still used' key blobs by (type, id)")
    found = owners(prog)
    rep.count(f"{rule}: struct fields holding BlobId-keyed containers", len(found))
    seen = set()
    for (name, fty, span) in found:
        seen.add(name)
        if owners_filter and name not in owners_filter and name in IN_SCOPE:
            continue
        typed = bool(TYPED_KEY.search(fty)) or bool(TYPEMAP.search(fty))
        untyped = bool(UNTYPED.search(fty)) and not typed
        if name in IN_SCOPE:
            rep.check(rule, f"typed/{name}", not untyped, where=span_str(span),
                      what=f"{name}: {fty.replace('rustic_core::', '')} keys blobs by type and id" if not untyped else
                           f"{name}: {fty.replace('rustic_core::', '')} identifies blobs by id only - {IN_SCOPE[name]}. A tree blob and a data blob with equal bytes (equal id) are confused: the second one is treated as already stored / still used")
        elif untyped and name not in EXEMPT and not owners_filter:
            rep.check(rule, f"unclassified/{name}", False, where=span_str(span), what=f"{name}: new untyped BlobId-keyed container {fty.replace('rustic_core::', '')}: classify it (typed key, or exemption with reason)")
    for name in (owners_filter or IN_SCOPE):
        if name not in seen:
            # the owner disappeared or was renamed: anchor lost
            raise AnchorError(f"{rule}: owner {name} not found among struct fields")
