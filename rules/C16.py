"""C16 - Hot/cold repositories keep the hot copy complete at every moment.

C16.a write/remove order in HotColdBackend: the hot write precedes the cold write and is `?`-propagated; the cold
  remove precedes the hot remove; create makes both.
C16.b routing predicates agree (exact, over FileType x cacheable): a file class is hot-removed and hot-read exactly if it
  is hot-written; config is never written to hot by write_bytes; read_full must not route to hot a class that is not
  hot-written; pack writers pass cacheable = BlobType::is_cacheable().
C16.c warm-up before cold pack reads: in restore, prune, check --read-data, repair index (both variants) and the hot/cold
  repair the warm_up_wait call dominates every pack read, is `?`-propagated and is not fed an empty iterator.
C16.f composition order: WarmUpAccessBackend::new_warm_up wraps the cold backend before HotColdBackend::new composes hot and
  cold - never the composition.
C16.d config: save_config clears is_hot for the cold copy, save_config_hot sets Some(true).
"""
import re
from rules.common import *
from rules.order import must_precede, call_pred, sites, ok_cut
import findom

LEVEL = "other"
EXHAUSTIVE = True
EXPLANATION = (
    "HotColdBackend's four routing predicates are evaluated exactly over the 10-point domain FileType x cacheable by a "
    "concrete interpreter of their MIR and compared with each other; ordering of the hot/cold calls and the warm-up calls "
    "is decided by must-pass-through on the CFG. This decides which store each file class goes to and in which order on "
    "every path (what an interruption can observe), not equality of results with a single-store repository.")
NOT_DECIDED = ["equality of operation results with an equivalent single-store repository (runtime)",
               "contents of the hot store after the hot/cold repair (runtime)"]
TECHNIQUE = "static analysis: finite-domain concrete interpretation of routing predicates (MIR), must-pass-through ordering rules"

FILETYPES = ["Config", "Index", "Key", "Snapshot", "Pack"]


def recv_field(body, t):
    """name of the self field the receiver (arg 0) of a call derives from"""
    if not t["args"]:
        return None
    p = op_place(t["args"][0])
    if p is None:
        return None
    pp = flow.place_path(body, p)
    if pp and pp[0] == ("arg", 1) and pp[1]:
        return pp[1][0]
    return None


def run(ctx, rep):
    prog = ctx.prog
    wiring_rule(ctx, rep, "C16")
    rep.rule("C16.a", "hot write before cold write (propagated); cold remove before hot remove")
    rep.rule("C16.b", "routing predicates of write_bytes / remove / read_partial / read_full agree over FileType x cacheable")
    rep.rule("C16.c", "warm_up_wait dominates cold pack reads and is propagated")
    rep.rule("C16.d", "is_hot handling of save_config / save_config_hot")
    # ---- C16.f: the warm-up access wrapper sits on the COLD store only --------------------------------------------
    rep.rule("C16.f", "warm-up access wraps the cold backend before the hot/cold composition (hot reads are never turned into warm-up requests)")
    n_wu = 0
    for b in prog.by_crate["rustic_core"]:
        wus = [bb for bb, t in b.calls() if "callee" in t and re.search(r"WarmUpAccessBackend::new_warm_up$", callee(t))]
        hcs = [bb for bb, t in b.calls() if "callee" in t and re.search(r"hotcold::HotColdBackend::new$", callee(t))]
        if not wus or not hcs:
            continue
        n_wu += 1
        bad = [w for w in wus for h in hcs if C.can_reach(b, h, w)]
        rep.check("C16.f", f"{fn_key(b)}/warm-up-wraps-cold-only", not bad, where=where(b, wus[0]), what=f"{fn_key(b)}: the warm-up access backend is created from the cold backend, before HotColdBackend::new" if not bad else
                  f"{fn_key(b)}: WarmUpAccessBackend wraps the hot/cold COMPOSITION: every read (also of files served by the hot store) is answered by a warm-up request with an empty result - the hot copy is no longer what is read")
    rep.require("C16.f", "site", n_wu >= 1, where="", what="a function composes warm-up access and hot/cold backends")
    HC = "<rustic_core::backend::hotcold::HotColdBackend as rustic_core::backend::"
    W = prog.fn(HC + "WriteBackend>::write_bytes")
    RMV = prog.fn(HC + "WriteBackend>::remove")
    CR = prog.fn(HC + "WriteBackend>::create")
    RP = prog.fn(HC + "ReadBackend>::read_partial")
    RF = prog.fn(HC + "ReadBackend>::read_full")

    def classify(body, rx):
        hot, cold = [], []
        for bb, t in body.calls():
            if "callee" in t and is_method_of(t, rx):
                f = recv_field(body, t)
                if f == "be_hot":
                    hot.append(bb)
                elif f == "be":
                    cold.append(bb)
        return hot, cold

    # ---- C16.a -------------------------------------------------------------------------------------
    hot, cold = classify(W, RE_WRITE_BYTES)
    rep.require("C16.a", "write_bytes/sites", len(hot) >= 1 and len(cold) >= 1, where=W.loc(), what=f"HotColdBackend::write_bytes writes to the hot store ({len(hot)}) and to the cold store ({len(cold)})")
    for i, h in enumerate(hot, 1):
        kind, _ = ok_cut(W, h)
        rep.check("C16.a", f"write_bytes/hot-propagated/{i}", kind in ("?", "return"), where=where(W, h), what="hot write result is `?`-propagated (a failed hot write stops before the cold write)")
        bad = [c for c in cold if C.can_reach(W, c, h)]
        rep.check("C16.a", f"write_bytes/hot-first/{i}", not bad, where=where(W, h), what="no hot write can follow the cold write (hot first: a file listed by cold is already complete in hot)")
    for i, c in enumerate(cold, 1):
        # the cold write is not reachable from the Err edge of the hot write
        ok = True
        for h in hot:
            for (sw, tgt) in flow.err_edges(W, h):
                if c in W.reachable_from(tgt):
                    ok = False
        rep.check("C16.a", f"write_bytes/cold-after-ok/{i}", ok, where=where(W, c), what="the cold write is unreachable after a failed hot write")
    hot, cold = classify(RMV, RE_REMOVE)
    rep.require("C16.a", "remove/sites", len(hot) >= 1 and len(cold) >= 1, where=RMV.loc(), what=f"HotColdBackend::remove removes from hot ({len(hot)}) and cold ({len(cold)})")
    for i, c in enumerate(cold, 1):
        kind, _ = ok_cut(RMV, c)
        rep.check("C16.a", f"remove/cold-propagated/{i}", kind in ("?", "return"), where=where(RMV, c), what="cold remove result is `?`-propagated")
        bad = [h for h in hot if C.can_reach(RMV, h, c)]
        rep.check("C16.a", f"remove/cold-first/{i}", not bad, where=where(RMV, c), what="no cold remove can follow the hot remove (cold first: hot never lacks a file that cold still lists)")
    hot, cold = classify(CR, RE_CREATE)
    rep.check("C16.a", "create/both", len(hot) >= 1 and len(cold) >= 1, where=CR.loc(), what="create() creates both stores")

    # ---- C16.b -------------------------------------------------------------------------------------
    def routes(body, rx, tpe_arg=2, cache_arg=None):
        table = {}
        hot, cold = classify(body, rx)
        for ft in FILETYPES:
            for c in (True, False):
                args = {tpe_arg: findom.Enum("rustic_core::backend::FileType", ft)}
                if cache_arg:
                    args[cache_arg] = c
                it = findom.Interp(prog, body, args)
                reach = it.run()
                table[(ft, c)] = (any(h in reach for h in hot), any(x in reach for x in cold), it.imprecise)
        return table

    tw = routes(W, RE_WRITE_BYTES, 2, 4)
    tr = routes(RMV, RE_REMOVE, 2, 4)
    tp = routes(RP, RE_READ_PARTIAL, 2, 4)
    tf = routes(RF, RE_READ_FULL, 2, None)
    imprecise = [n for n, tb in (("write_bytes", tw), ("remove", tr), ("read_partial", tp), ("read_full", tf)) if any(v[2] for v in tb.values())]
    if imprecise:
        raise AnchorError(f"C16.b: routing predicate of {imprecise} not evaluable over FileType x cacheable")
    rep.count("C16.b: domain points evaluated per method", len(tw))
    for ft in FILETYPES:
        for c in (True, False):
            hw, cw, _ = tw[(ft, c)]
            k = f"{ft}/{'cacheable' if c else 'uncacheable'}"
            rep.check("C16.b", f"write/cold-always/{k}", cw, where=W.loc(), what=f"write_bytes({ft}, cacheable={c}) always writes the cold store")
            if ft == "Config":
                rep.check("C16.b", f"write/config-not-hot/{k}", not hw, where=W.loc(), what="write_bytes never writes the config to the hot store (save_config_hot writes the hot variant with is_hot)")
                continue
            hr, cr, _ = tr[(ft, c)]
            rep.check("C16.b", f"remove-agrees/{k}", hr == hw and cr, where=RMV.loc(),
                      what=f"remove({ft}, cacheable={c}): hot-removed={hr} equals hot-written={hw}, cold always removed" if hr == hw and cr else
                           f"remove({ft}, cacheable={c}): hot-removed={hr} but hot-written={hw} (cold removed={cr}): the hot store {'keeps a file the cold store no longer has' if hw else 'is asked to remove a file it never got'}")
            hp, cp, _ = tp[(ft, c)]
            rep.check("C16.b", f"read_partial-agrees/{k}", hp == hw and cp == (not hw), where=RP.loc(),
                      what=f"read_partial({ft}, cacheable={c}) reads from {'hot' if hp else 'cold'}; hot-written={hw}")
            if ft == "Pack":
                rep.check("C16.b", f"data-packs-not-hot/{k}", hw == c, where=W.loc(), what=f"write_bytes(Pack, cacheable={c}): hot-written={hw} (only cacheable = tree packs go to hot)")
        # read_full has no cacheable parameter: the class (ft, cacheable=False) must be hot-written for it to read hot
        hf, cf, _ = tf[(ft, True)]
        if ft != "Config":
            not_hot_written = [c for c in (True, False) if not tw[(ft, c)][0]]
            ok = not (hf and not_hot_written)
            rep.check("C16.b", f"read_full/{ft}", ok, where=RF.loc(),
                      what=(f"read_full({ft}) routes to {'hot' if hf else 'cold'}; every {ft} class is hot-written" if ok else
                            f"read_full({ft}) routes to the hot store, but {ft} files written with cacheable={not_hot_written} are never placed there (data packs): the read fails on a hot/cold repository"))
    # pack writers pass cacheable = BlobType::is_cacheable()
    n = 0
    for b in prog.by_crate["rustic_core"]:
        for bi, blk in enumerate(b.blocks):
            for s in blk["s"]:
                if (b.impl or {}).get("trait", "").endswith("clone::Clone"):
                    continue
                if s[0] == "=" and s[2][0] == "agg" and s[2][1][0] == "adt" and s[2][1][1].endswith("packer::FileWriterHandle") and "cacheable" in s[2][1][3]:
                    n += 1
                    op = s[2][2][s[2][1][3].index("cacheable")]
                    org = flow.origins(b, op_place(op)) if op_place(op) else []
                    ok = bool(org) and all(o.kind == "call" and o.data[1].endswith("blob::BlobType::is_cacheable") for o in org)
                    rep.check("C16.b", f"cacheable-source/{fn_key(b)}", ok, where=span_str(s[3]), what="FileWriterHandle.cacheable (the flag every pack write passes) is BlobType::is_cacheable() of the packer's blob type")
    rep.floor("C16.b", "FileWriterHandle constructions", n, 1)
    P = prog.find1(r"^rustic_core::blob::packer::FileWriterHandle::<BE>::process$")
    for bb, t in P.calls():
        if "callee" in t and is_method_of(t, RE_WRITE_BYTES):
            pp = flow.place_path(P, op_place(t["args"][3])) if op_place(t["args"][3]) else None
            rep.check("C16.b", "pack-write-flag", bool(pp) and pp[0] == ("arg", 1) and pp[1][-1:] == ["cacheable"], where=where(P, bb), what="the pack write passes self.cacheable")

    # ---- C16.c -------------------------------------------------------------------------------------
    reads = RepoEffects(prog, ctx.cg, kinds=("R",))
    reads.compute()
    WARM = call_pred(r"repository::Repository::<S>::warm_up_wait$|repository::warm_up::warm_up_wait$")
    def from_cold(E_, t):
        pp = flow.place_path(E_, op_place(t["args"][2])) if len(t["args"]) > 2 and op_place(t["args"][2]) else None
        return bool(pp) and "be_cold" in pp[1]
    # (entry, callee that reads packs from the cold store, extra site filter) - confirmed by reading each command
    entries = [(r"^rustic_core::commands::restore::restore_repository$", r"^rustic_core::commands::restore::restore_contents$", None),
               (r"^rustic_core::commands::prune::prune_repository$", r"^rustic_core::blob::packer::BlobCopier::<BE>::(copy|copy_fast)$", None),
               (r"^rustic_core::commands::check::check_repository$", r"^rustic_core::commands::check::check_pack$", None),
               (r"^rustic_core::commands::repair::index::repair_index$", r"^rustic_core::repofile::packfile::PackHeader::from_file$", None),
               (r"^rustic_core::commands::repair::index::index_checked_from_collector$", r"^rustic_core::repofile::packfile::PackHeader::from_file$", None),
               (r"^rustic_core::commands::repair::hotcold::correct_missing_files$", r"^rustic_core::commands::repair::hotcold::copy$", from_cold)]
    for rx, brx, flt in entries:
        E = prog.find1(rx)
        per = reads.site_eff.get(E.path, {})
        B = call_pred(brx)
        packreads = [bb for bb in sites(ctx, E, B) if flt is None or (E.term(bb)["k"] == "call" and flt(E, E.term(bb)))]
        ws = sites(ctx, E, WARM)
        key = fn_key(E)
        rep.require("C16.c", f"{key}/warm-up-present", len(ws) >= 1, where=E.loc(), what=f"{key} requests warm-up ({len(ws)} site(s))")
        rep.require("C16.c", f"{key}/pack-reads-present", len(packreads) >= 1, where=E.loc(), what=f"{key} has {len(packreads)} call site(s) reading packs from the cold store via {brx.split('::')[-1].rstrip('$')}")
        if not ws or not packreads:
            continue
        cut = []
        for w in ws:
            kind, edges = ok_cut(E, w)
            rep.check("C16.c", f"{key}/propagated/{ws.index(w) + 1}", kind in ("?", "return"), where=where(E, w), what=f"{key}: warm_up_wait result is `?`-propagated")
            cut += edges
            t = E.term(w)
            ga = " ".join((t.get("gargs") or []) + ((t.get("resolved") or {}).get("gargs") or []))
            rep.check("C16.c", f"{key}/non-empty-arg/{ws.index(w) + 1}", "std::iter::Empty" not in ga, where=where(E, w), what=f"{key}: warm_up_wait is given the ids to be read (not an empty iterator)")
        reach = E.reachable_from(0, cut_edges=cut)
        # no producer of the set of packs that is read may run after the warm-up: everything that contributed to the
        # ids handed to the read site (calls of rustic_core functions in the backward slice of its arguments) precedes it
        for i, r in enumerate(packreads, 1):
            t = E.term(r)
            if not (t["k"] == "call" and B(t)):
                continue  # read happens inside a closure: the captured environment is too coarse for this rule
            prod = set()
            for a in t["args"]:
                if op_place(a):
                    prod |= flow.backward_slice(E, op_place(a))["call_sites"]
            late = []
            for pb in sorted(prod):
                pt = E.term(pb)
                if pt["k"] != "call" or "callee" not in pt or pb == r or pb in ws:
                    continue
                cn = callee(pt)
                if not cn.startswith(("rustic_core::", "<rustic_core::")) or re.search(r"progress|Progress", cn):
                    continue
                if any(C.can_reach(E, w, pb) for w in ws):
                    late.append(f"{strip_crate(cn)} @{where(E, pb)}")
            rep.check("C16.c", f"{key}/read-set-complete-before-warm-up/{i}", not late, where=where(E, r),
                      what=f"{key}: everything that determines which packs are read runs before warm_up_wait" if not late else
                           f"{key}: the set of packs read is still extended AFTER warm_up_wait by {late}: those packs are read from the cold store without warm-up")
        for i, r in enumerate(packreads, 1):
            has_r = any(e[0] == "R" for e in per.get(r, ()))
            ok = r not in reach and r not in ws
            rep.check("C16.c", f"{key}/read-after-warm-up/{i}", ok and has_r, where=where(E, r),
                      what=f"{key}: the cold pack read happens only after a successful warm_up_wait" if ok else f"{key}: a cold pack read is reachable WITHOUT a preceding successful warm_up_wait")
    rule_e(ctx, rep)
    warm_up_list_rule(ctx, rep)
    # ---- C16.d -------------------------------------------------------------------------------------
    SC = prog.find1(r"^rustic_core::commands::config::save_config$")
    SH = prog.find1(r"^rustic_core::commands::config::save_config_hot$")

    def is_hot_stores(body):
        out = []
        for bi, blk in enumerate(body.blocks):
            for s in blk["s"]:
                if s[0] == "=" and place_has_field(s[1], "is_hot", "configfile::ConfigFile"):
                    out.append((bi, s))
        return out
    st = is_hot_stores(SC)
    ok = len(st) >= 1 and all(_is_none(SC, s[2]) for _, s in st)
    rep.check("C16.d", "save_config/clears-is_hot", ok, where=SC.loc(), what="save_config stores is_hot = None in the config written to the cold store")
    if st:
        saves = [bb for bb, t in SC.calls() if "callee" in t and re.search(r"save_file_uncompressed$", callee(t))]
        rep.check("C16.d", "save_config/clear-before-save", bool(saves) and all(C.dominates(SC, st[0][0], x) for x in saves), where=SC.loc(), what="is_hot is cleared before the cold config is saved")
    st = is_hot_stores(SH)
    ok = len(st) >= 1 and all(_is_some_true(SH, s[2]) for _, s in st)
    rep.check("C16.d", "save_config_hot/sets-is_hot", ok, where=SH.loc(), what="save_config_hot stores is_hot = Some(true) in the config written to the hot store")
    if st:
        saves = [bb for bb, t in SH.calls() if "callee" in t and re.search(r"save_file_uncompressed$", callee(t))]
        rep.check("C16.d", "save_config_hot/set-before-save", bool(saves) and all(C.dominates(SH, st[0][0], x) for x in saves), where=SH.loc(), what="is_hot is set before the hot config is saved")


_DROPS = re.compile(r"Iterator::(skip|skip_while|take|take_while|step_by|filter_map|map_while|filter|flat_map|nth)$"
                    r"|Itertools::(dedup_by|dedup_by_with_count|unique_by|step|batching|take_while_ref|take_while_inclusive|while_some|filter_ok|filter_map_ok|coalesce|k_smallest\w*)$"
                    r"|Vec::<T, A>::(dedup_by|dedup_by_key|retain|retain_mut|truncate|drain|pop|remove|swap_remove|split_off|clear)$")


def warm_up_list_rule(ctx, rep):
    """C16.c (restore): the list handed to warm_up_wait is RestorePlan::to_packs(); it must name every pack restore will read:
    every entry of the plan that is not served by an existing file contributes its pack id. Decided on the iterator chain:
    the only element-dropping step is one `filter` whose predicate holds for an entry none of whose file locations match
    (evaluated with `matches` = false), everything else is a projection to the pack id, a duplicate removal on pack ids or
    the collection."""
    prog = ctx.prog
    TP = prog.find1(r"^rustic_core::commands::restore::RestorePlan::to_packs$")
    drops = [(bb, t) for bb, t in TP.calls() if "callee" in t and (_DROPS.search(callee(t)) or _DROPS.search(callee_decl(t)))]
    filters = [(bb, t) for bb, t in drops if re.search(r"Iterator::filter$", callee(t))]
    other = [(bb, t) for bb, t in drops if not re.search(r"Iterator::filter$", callee(t))]
    what_bad = [f"{callee_decl(t).rsplit('::', 1)[-1]} at {where(TP, bb)}" for bb, t in other]
    rep.check("C16.c", "restore/warm-up-list/no-entry-dropped", not other and len(filters) <= 1, where=TP.loc(),
              what="RestorePlan::to_packs drops plan entries only through its one needs-the-pack filter" if not other and len(filters) <= 1 else
                   f"RestorePlan::to_packs removes plan entries before deciding whether their pack is needed ({what_bad or 'several filters'}): packs that restore reads are missing from the warm-up list")
    for bb, t in filters:
        cl = None
        for a_ in t["args"][1:]:
            for d_ in TP.defs().get(op_local(a_), []):
                if d_[0] == "stmt" and d_[4][0] == "agg" and d_[4][1][0] == "closure":
                    cl = prog.bodies.get(d_[4][1][1])
        ok = False
        if cl is not None:
            # inner closures: their result with every `matches` flag false
            inner = {}
            for ic in prog.closures_of(cl, recursive=False):
                vals = bool_result_under(ic, lambda b_, e_: False if (e_[0] in ("path", "proj") and "matches" in [str(x) for x in e_[2]]) else None)
                inner[ic.path] = vals

            def ev(b_, e_):
                if e_[0] in ("path", "proj") and "matches" in [str(x) for x in e_[2]]:
                    return False
                if e_[0] == "call" and re.search(r"Iterator(>)?::(all|any)$", e_[1]) and len(e_[2]) > 1:
                    c_ = e_[2][1]
                    if c_[0] == "agg" and c_[1][0] == "closure" and inner.get(c_[1][1]) == {True} and e_[1].endswith("all"):
                        return True       # all(always true) is true for every list, the empty one included
                    if c_[0] == "agg" and c_[1][0] == "closure" and inner.get(c_[1][1]) == {False} and e_[1].endswith("any"):
                        return False
                return None
            ok = bool_result_under(cl, ev) == {True}
        rep.check("C16.c", "restore/warm-up-list/unmatched-entries-kept", ok, where=where(TP, bb),
                  what="an entry none of whose file locations is already present keeps its pack in the warm-up list" if ok else
                       "the filter of RestorePlan::to_packs can drop an entry whose data must be read from its pack: that pack is read from the cold store without warm-up")


def rule_e(ctx, rep):
    """C16.e the hot/cold repair copies what belongs in the hot store: every non-pack file type, and the tree packs of
    BOTH index sections (packs still marked for deletion exist in the cold store and belong in hot as well)"""
    prog = ctx.prog
    rep.rule("C16.e", "hot/cold repair covers every non-pack file type and every tree pack listed by any index section")
    G = prog.find1(r"^rustic_core::commands::repair::hotcold::get_tree_packs$")
    fam = [G] + prog.closures_of(G)
    calls, fields, txt = set(), set(), ""
    for f in fam:
        sl = flow.backward_slice(f, [0])
        calls |= sl["calls"]
        fields |= sl["fields"]
        for bb, t in f.calls():
            if "callee" in t and re.search(r"::insert$|::extend$|::collect$|::filter(_map)?$", callee_decl(t)):
                for a in t["args"]:
                    if op_place(a):
                        s2 = flow.backward_slice(f, op_place(a))
                        calls |= s2["calls"]
                        fields |= s2["fields"]
        for sw in range(len(f.blocks)):
            if f.term(sw)["k"] == "switch":
                txt += repr(flow.expr_of(f, f.term(sw)["discr"]))
        if f.is_closure():
            txt += repr(flow.place_expr(f, [0]))
    both = any(c_.endswith("indexfile::IndexFile::all_packs") for c_ in calls) or {"packs", "packs_to_delete"} <= fields
    rep.check("C16.e", "get_tree_packs/both-sections", both, where=G.loc(),
              what="get_tree_packs considers the packs of both index sections (packs and packs_to_delete)" if both else
                   "get_tree_packs looks only at part of the index (tree packs marked for deletion still exist in cold and are not restored to hot)")
    tree = "blob_type" in txt and "Tree" in txt
    rep.check("C16.e", "get_tree_packs/tree-filter", tree, where=G.loc(), what="only packs whose blob type is Tree are selected")
    R = prog.find1(r"^rustic_core::commands::repair::hotcold::repair_hotcold$")
    uses_all = any("item" in (a[1] if a[0] == "k" else {}) and a[1]["item"].endswith("ALL_FILE_TYPES") for _, t in R.calls() for a in t["args"]) or \
        any(s[0] == "=" and s[2][0] == "use" and s[2][1][0] == "k" and str(s[2][1][1].get("item", "")).endswith("ALL_FILE_TYPES") for blk in R.blocks for s in blk["s"])
    rep.check("C16.e", "repair_hotcold/all-file-types", uses_all, where=R.loc(), what="repair_hotcold iterates ALL_FILE_TYPES (every non-pack type is repaired)")
    c = prog.consts.get("rustic_core::backend::ALL_FILE_TYPES")
    rep.check("C16.e", "all-file-types-len", c is not None and c["ty"].endswith("; 4]"), where="crates/core/src/backend.rs", what=f"ALL_FILE_TYPES lists the 4 non-config file types ({c['ty'] if c else None})")


def _expr_of_rv(body, rv):
    if rv[0] == "use":
        return flow.expr_of(body, rv[1])
    if rv[0] == "agg":
        return ("agg", rv[1], [flow.expr_of(body, o) for o in rv[2]])
    return ("unknown",)


def _is_none(body, rv):
    e = _expr_of_rv(body, rv)
    return e[0] == "agg" and e[1][0] == "adt" and e[1][1].endswith("option::Option") and e[1][2] == "None"


def _is_some_true(body, rv):
    e = _expr_of_rv(body, rv)
    return e[0] == "agg" and e[1][0] == "adt" and e[1][1].endswith("option::Option") and e[1][2] == "Some" and e[2] and e[2][0] == ("const", True)
