"""C07 - Identical content is stored once; unchanged data adds nothing.

C07.a blob identity is typed where 'already stored' is decided (R-TYPEDID on the shared Indexer) - the last sentence of
  the property verbatim.
C07.b query type = packer type: every Packer::add is control-dependent on a negative index lookup (has_data/has_tree)
  for the SAME id, and the lookup's blob type equals the BlobType the packer was constructed with.
C07.c the id is the hash of exactly the bytes sent: the id handed to the packer derives from hash() of the same buffer
  that is handed over as data.
C07.e shift resilience, structural part: the rabin chunker counts the bytes carried over in its read-ahead buffer towards
  min_size (shared with C06.f) - otherwise boundaries after an edit depend on buffer alignment and far-away chunks change.
C07.d unchanged-tree shortcut: a tree is reported unchanged only if its freshly computed id equals the parent's id.
"""
import re
from rules.common import *

TECHNIQUE = ("static analysis over rustc MIR: typed-identity rule on the written-blob set, must-pass negative index lookup before every Packer::add (same id, same blob type), all-origins provenance of ids (hash of the bytes sent), carried-bytes rule of the chunker, parent-match predicate evaluated under 'field differs'")
LEVEL = "other"
EXPLANATION = (
    "Guard, provenance and typed-key rules over the archiver, tree modifier and merge code: each blob is added to a "
    "packer only after a negative lookup of that very id in the index of the matching blob type, the id is the hash of "
    "the bytes handed over, and the set of already-written blobs is keyed by (type, id). Necessary conditions for exact "
    "deduplication; dedup ratios and shift resilience are runtime/chunker properties.")
NOT_DECIDED = ["deduplication ratios and re-upload bounds after edits (runtime, chunker arithmetic)"]

ADD = re.compile(r"^rustic_core::blob::packer::Packer::<BE>::add$")
HAS = re.compile(r"ReadIndex(>)?::has_(data|tree)$|ReadGlobalIndex(>)?::has_(data|tree)$|index::ReadIndex::has_(data|tree)$")
EXC_ADD = {"blob::packer::BlobCopier::<BE>::copy": "the caller (copy / prune) selects the blobs: copy filters with the typed destination index (C12.d), prune repacks only used blobs"}


def packer_type(prog, body, recv_place):
    """BlobType constant the packer reached through recv_place was constructed with"""
    pp = flow.place_path(body, recv_place)
    if pp is None:
        return None
    root, fields = pp
    def type_of_new_call(b, bb):
        t = b.term(bb)
        e = flow.expr_of(b, t["args"][1])
        if e[0] == "agg" and e[1][1].endswith("blob::BlobType"):
            return e[1][2]
        if e[0] == "const" and isinstance(e[1], int):
            return prog.variant_by_discr("blob::BlobType", e[1])
        return None
    if fields:
        fname = fields[-1] if not fields[-1].isdigit() else None
        owner_ty = None
        # find the constructor aggregate initialising that field from Packer::new
        for b in prog.by_crate["rustic_core"]:
            for bi, blk in enumerate(b.blocks):
                for s in blk["s"]:
                    if s[0] == "=" and s[2][0] == "agg" and s[2][1][0] == "adt" and fname in (s[2][1][3] or []):
                        op = s[2][2][s[2][1][3].index(fname)]
                        if not op_place(op):
                            continue
                        for o in flow.origins(b, op_place(op)):
                            if o.kind == "call" and o.data[1].endswith("blob::packer::Packer::<BE>::new"):
                                ty = type_of_new_call(b, o.data[0])
                                if ty:
                                    return ty
        # closure capture: field index of the environment -> the parent's local
        if body.is_closure() and root == ("arg", 1):
            parent = prog.bodies.get(body.parent)
            idx = fields[0]
            if parent and idx.isdigit():
                for bi, blk in enumerate(parent.blocks):
                    for s in blk["s"]:
                        if s[0] == "=" and s[2][0] == "agg" and s[2][1][0] == "closure" and s[2][1][1] == body.path:
                            op = s[2][2][int(idx)]
                            for o in flow.origins(parent, op_place(op)):
                                if o.kind == "call" and o.data[1].endswith("blob::packer::Packer::<BE>::new"):
                                    return type_of_new_call(parent, o.data[0])
        return None
    if root[0] == "call" and root[2].endswith("blob::packer::Packer::<BE>::new"):
        return type_of_new_call(body, root[1])
    return None


def run(ctx, rep):
    prog = ctx.prog
    for r, tx in (("C07.a", "typed blob identity in the written-blob filter"), ("C07.b", "index lookup type = packer type, same id"),
                  ("C07.c", "id = hash of the bytes handed over"), ("C07.d", "unchanged-tree shortcut compares ids"),
                  ("C07.e", "cut-point search start depends on content only (carry counted towards min_size)")):
        rep.rule(r, tx)
    from rules import C06
    C06.carry_rule(ctx, rep, "C07.e")
    # "every chunk that did not exist before is uploaded": a changed file must not be taken for unchanged (C11.a/b)
    from rules import C11
    from rules.C10 import borrow
    rep.rule("C07.f", "changed files are re-read: the parent match compares type, size, mtime and ctime; reuse only of indexed content (from C11)")
    n_ = borrow(rep, ctx, C11, lambda o: o.rule in ("C11.a", "C11.b"), "C07.f")
    rep.floor("C07.f", "borrowed obligations", n_, 4)
    from rules import typedid
    typedid.run(ctx, rep, "C07.a", owners=["index::indexer::Indexer.indexed"])
    # the set of blobs written in this run survives intermediate index flushes: Indexer::reset does not touch `indexed`
    RS = prog.find1(r"^rustic_core::index::indexer::Indexer::<BE>::reset$")
    whole = [s_ for blk in RS.blocks for s_ in blk["s"] if s_[0] == "=" and s_[1][0] == 1 and s_[1][1:] == ["*"]]
    fld = [s_ for blk in RS.blocks for s_ in blk["s"] if s_[0] == "=" and place_has_field(s_[1], "indexed")]
    cl = [bb for bb, t in RS.calls() if "callee" in t and t["args"] and op_place(t["args"][0]) and "indexed" in ((flow.place_path(RS, op_place(t["args"][0])) or (None, []))[1]) and re.search(r"::(clear|take|retain|drain)$", callee(t))]
    okr = not whole and not fld and not cl
    rep.check("C07.a", "reset-keeps-written-set", okr, where=RS.loc(), what="Indexer::reset (called at every intermediate index flush) leaves the set of blobs written in this run untouched" if okr else
              "Indexer::reset replaces or clears the set of blobs written in this run: content recurring after an intermediate flush is stored again")
    adds = [(b, bb, t) for b in prog.by_crate["rustic_core"] for bb, t in b.calls() if "callee" in t and ADD.search(callee(t))]
    rep.floor("C07.b", "Packer::add call sites", len(adds), 3)
    for (b, bb, t) in adds:
        k = fn_key(b)
        if k in EXC_ADD:
            rep.check("C07.b", f"add/{k}", True, where=where(b, bb), what=f"{k}: {EXC_ADD[k]}", nontrivial=False)
            continue
        # dominating negative lookup
        look = None
        for (sw, succ) in C.transitive_control_deps(b, bb):
            e = flow.expr_of(b, b.term(sw)["discr"])
            neg = False
            while e[0] == "un" and e[1] == "Not":
                e = e[2]
                neg = not neg
            if e[0] == "call" and HAS.search(e[1]):
                val = None
                for v, x in b.term(sw)["targets"]:
                    if x == succ:
                        val = v
                took_true = val != "0" if val is not None else True
                if neg:
                    took_true = not took_true
                look = (e, took_true, sw)
        sem_ok = False
        if look is None or not only_via(b, bb, lambda x: x[0] == "call" and bool(HAS.search(x[1])) and len(x) > 3 and x[3] == look[0][3], False):
            # the lookup's answer parked in a bool local (`let skip = index.has_tree(id) || dry_run; if !skip {..}`): decided by
            # evaluation - with this lookup answering `present` the add is out of reach (bool locals followed per path)
            import pathsens
            for cbb, ct in b.calls():
                if "callee" in ct and HAS.search(callee(ct)) and C.can_reach(b, cbb, bb):
                    r_ = pathsens.reachable_under(b, lambda b_, bb_: None, eval_expr=lambda b_, e_, cbb=cbb: True if (e_[0] == "call" and HAS.search(e_[1]) and len(e_) > 3 and e_[3] == cbb) else None)
                    if bb not in r_:
                        look = (("call", callee(ct), [], cbb), True, None)
                        sem_ok = True
                        break
        if look is None:
            rep.check("C07.b", f"add/{k}", False, where=where(b, bb), what=f"{k}: a blob is handed to the packer without a preceding index lookup (stored again although present)")
            continue
        e, took_true, sw = look
        kind = "Data" if re.search(r"has_data$", e[1]) else "Tree"
        pt = packer_type(prog, b, op_place(t["args"][0]))
        # same id: the id argument of add and the id argument of the lookup derive from the same local
        ida = flow.backward_slice(b, op_place(t["args"][2]))["locals"] if op_place(t["args"][2]) else set()
        call_bb = e[3]
        idl = flow.backward_slice(b, op_place(b.term(call_bb)["args"][1]))["locals"] if op_place(b.term(call_bb)["args"][1]) else set()
        # ignore the receiver/self roots: intersect on locals that are not arguments
        common = {l for l in (ida & idl) if l > b.argc}
        # must-pass form: every path to the add has seen this lookup answer `false`
        ev = sem_ok or only_via(b, bb, lambda x: x[0] == "call" and bool(HAS.search(x[1])) and len(x) > 3 and x[3] == e[3], False)
        # polarity comes from the must-pass form (inside a loop the add is also control dependent on the lookup of an earlier
        # iteration having answered `true`)
        ok = ev and pt == kind and bool(common)
        rep.check("C07.b", f"add/{k}/every-path", ev, where=where(b, bb), what=f"{k}: every path that adds the blob has seen the index lookup answer `not present`" if ev else
                  f"{k}: the blob can be added on a path where the index lookup did not answer `not present` (weakened guard): known blobs are stored again")
        rep.check("C07.b", f"add/{k}", ok, where=where(b, bb),
                  what=f"{k}: added to the {pt} packer only if index.has_{kind.lower()}(same id) is false" if ok else
                       f"{k}: packer type {pt}, lookup has_{kind.lower()} answered `not present` on every path: {ev}, same id: {bool(common)} - the lookup does not decide this add correctly")
        # ---- C07.c: id = hash(data)
        # must-derive: EVERY origin of the id is hash(..) / Tree::serialize() (no second, cheaper source on some path)
        orig = flow.origins(b, op_place(t["args"][2])) if op_place(t["args"][2]) else []
        okall = bool(orig) and all(o.kind == "call" and re.search(r"crypto::hasher::hash$|blob::tree::Tree::serialize$", o.data[1]) for o in orig)
        rep.check("C07.c", f"id-only-from-hash/{k}", okall, where=where(b, bb), what=f"{k}: on every path the id handed to the packer is the result of hash() / Tree::serialize()" if okall else
                  f"{k}: the id handed to the packer has an origin other than hash()/serialize(): {[(o.kind, str(o.data)[:60]) for o in orig][:3]}")
        sl = flow.backward_slice(b, op_place(t["args"][2])) if op_place(t["args"][2]) else {"calls": set(), "call_sites": set()}
        hs = [cb for cb in sl["call_sites"] if b.term(cb)["k"] == "call" and "callee" in b.term(cb) and callee(b.term(cb)).endswith("crypto::hasher::hash")]
        if hs:
            hb = hs[0]
            hl = flow.base_local(b, op_place(b.term(hb)["args"][0]))
            dl = flow.backward_slice(b, op_place(t["args"][1]))["locals"] if op_place(t["args"][1]) else set()
            rep.check("C07.c", f"hash-of-data/{k}", hl in dl, where=where(b, bb), what=f"{k}: the id is hash() of the very buffer that is handed to the packer" if hl in dl else f"{k}: the id is the hash of a DIFFERENT buffer than the data handed to the packer")
        else:
            # tree ids come from Tree::serialize (checked below) or from the caller
            ser = any(c.endswith("blob::tree::Tree::serialize") for c in sl["calls"])
            rep.check("C07.c", f"hash-of-data/{k}", ser, where=where(b, bb), what=f"{k}: id and bytes come from the same Tree::serialize() call" if ser else f"{k}: the id handed to the packer is not derived from hash()/serialize() in this function")
    # Tree::serialize hashes the final buffer
    S = prog.find1(r"^rustic_core::blob::tree::Tree::serialize$")
    hs = [(bb, t) for bb, t in S.calls() if "callee" in t and callee(t).endswith("crypto::hasher::hash")]
    pushes = [bb for bb, t in S.calls() if "callee" in t and re.search(r"Vec::<T, A>::(push|extend_from_slice)$", callee(t))]
    okh = len(hs) == 1 and all(C.can_reach(S, p, hs[0][0]) and not C.can_reach(S, hs[0][0], p) for p in pushes)
    rep.check("C07.c", "tree-serialize", okh, where=S.loc(), what="Tree::serialize hashes the buffer after everything (incl. the trailing newline) was appended")
    # ---- C07.d -------------------------------------------------------------------------------------
    unchanged_tree_rule(ctx, rep, "C07.d")


def unchanged_tree_rule(ctx, rep, R):
    """a tree is reported unchanged (nothing stored, early return) only if its freshly computed id equals the parent's id"""
    prog = ctx.prog
    BT = prog.find1(r"^rustic_core::archiver::tree_archiver::TreeArchiver::<'a, BE, I>::backup_tree$")
    # early return (dirs_unmodified) is control-dependent on an id comparison
    unmod = [bi for bi, blk in enumerate(BT.blocks) for s in blk["s"] if s[0] == "=" and place_has_field(s[1], "dirs_unmodified")]
    # evaluated: with the comparison `fresh id == parent id` answering false (and bool locals such as a `matches!(..)` result
    # tracked), the "unchanged" exit is unreachable; with it answering true it is reachable
    import pathsens

    def id_cmp(val):
        def ev(body, e):
            neg = False
            while isinstance(e, tuple) and e and e[0] == "un" and e[1] == "Not":
                neg = not neg
                e = e[2]
            if isinstance(e, tuple) and e and e[0] == "call" and re.search(r"PartialEq(<.*>)?(>)?::(eq|ne)$", e[1]) and "serialize" in repr(e):
                v = val if e[1].endswith("::eq") else (not val)
                return v != neg
            return None

        def fz(body, bb):
            t = body.term(bb)
            if t["k"] != "switch" or t["discr_ty"] != "bool":
                return None
            v = ev(body, flow.expr_of(body, t["discr"], bb))
            if v is None:
                return None
            zero = [x for vv, x in t["targets"] if vv == "0"]
            return (t["otherwise"] if v else zero[0]) if zero else None
        return fz, ev
    fz0, ev0 = id_cmp(False)
    fz1, ev1 = id_cmp(True)
    r_diff = pathsens.reachable_under(BT, fz0, eval_expr=ev0)
    r_same = pathsens.reachable_under(BT, fz1, eval_expr=ev1)
    okd = bool(unmod) and not any(bi in r_diff for bi in unmod) and any(bi in r_same for bi in unmod)
    rep.check(R, "unchanged-tree", bool(unmod) and okd, where=BT.loc(), what="a tree counts as unchanged (nothing stored) only if the id of the freshly serialized tree equals the parent's tree id")
