"""C09 - Retention decisions follow the documented keep rules.

C09.a period predicates are the documented partitions: each predicate reified into the keep_checks table is a
  conjunction of `f(sn1.time) == f(sn2.time)` comparisons (same accessor expression on both snapshots); the
  partition of time induced by the key (f1..fn) is compared EXACTLY with the documented period (minute, hour, day,
  ISO week, month, quarter, half year, year) by evaluating the extracted expression trees with the checker's own
  calendar over the full 400-year Gregorian cycle (146 097 days) and all 1 440 minutes of a day.
C09.b table wiring: every row pairs predicate, counter field and within field of the same period; all keep options
  appear; is_valid mentions every keep field.
C09.c precedence in KeepOptions::apply: must_keep, then must_delete, then delete_unchanged, then matches; newest first.
"""
import datetime
import re
from rules.common import *
from rules.order import _module_of

LEVEL = "other"
EXHAUSTIVE = True
EXPLANATION = (
    "The comparison structure of every period predicate is extracted from MIR (accessor chains on SnapshotFile.time, "
    "integer arithmetic, inlined helper predicates) and the partition it induces on time stamps is compared with the "
    "documented period partition exhaustively over the Gregorian cycle x minutes of a day - evaluating the EXTRACTED "
    "expression trees with Python's calendar, never rustic_core. The keep_checks table wiring and the precedence of the "
    "protection rules are decided from field projections and dominance. Not decided: the count-down semantics over "
    "arbitrary snapshot multisets, monotonicity, grouping, time-zone effects inside jiff accessors.")
NOT_DECIDED = ["count-down semantics of keep counters over arbitrary snapshot multisets and monotonicity (runtime)",
               "grouping semantics and time-zone interplay of Zoned accessors (trusted: jiff)"]
TECHNIQUE = "static analysis: MIR expression-tree extraction of period predicates + exhaustive partition comparison over the Gregorian cycle; table/field wiring and dominance rules"
TRUSTED = ["jiff accessors year/month/day/day_of_year/hour/minute/iso_week_date mean what their names say (ISO 8601 weeks)"]

# frozen: counter field -> (period, within field)   (read off KeepOptions' documentation)
PERIOD_OF = {
    "keep_last": ("last", "keep_within"),
    "keep_minutely": ("minute", "keep_within_minutely"),
    "keep_hourly": ("hour", "keep_within_hourly"),
    "keep_daily": ("day", "keep_within_daily"),
    "keep_weekly": ("week", "keep_within_weekly"),
    "keep_monthly": ("month", "keep_within_monthly"),
    "keep_quarter_yearly": ("quarter", "keep_within_quarter_yearly"),
    "keep_half_yearly": ("half", "keep_within_half_yearly"),
    "keep_yearly": ("year", "keep_within_yearly"),
}


# ---- canonical period keys ------------------------------------------------------------------
def canon_date(period, d):
    y, m = d.year, d.month
    if period == "year":
        return (y,)
    if period == "half":
        return (y, (m - 1) // 6)
    if period == "quarter":
        return (y, (m - 1) // 3)
    if period == "month":
        return (y, m)
    if period == "week":
        iy, iw, _ = d.isocalendar()
        return (iy, iw)
    return (y, m, d.day)  # day, hour, minute: the calendar day


def canon_time(period, h, mi):
    if period == "hour":
        return (h,)
    if period == "minute":
        return (h, mi)
    return ()


# ---- evaluation of extracted accessor expressions -----------------------------------------------
class Unsupported(Exception):
    pass


DATE_ACC = {"year", "month", "day", "day_of_year", "iso_week_date", "weekday", "days_in_month", "days_in_year", "in_leap_year"}
TIME_ACC = {"hour", "minute", "second"}


def accessor_kind(e):
    """'date' / 'time' / 'const' / 'mixed' for an expression tree"""
    kinds = set()

    def walk(x):
        if x[0] == "call":
            n = x[1].rsplit("::", 1)[-1]
            if n in DATE_ACC:
                kinds.add("date")
            elif n in TIME_ACC:
                kinds.add("time")
            for a in x[2]:
                walk(a)
        elif x[0] in ("bin",):
            walk(x[2]); walk(x[3])
        elif x[0] in ("un",):
            walk(x[2])
        elif x[0] == "proj":
            walk(x[1])
    walk(e)
    if not kinds:
        return "const"
    if len(kinds) == 2:
        return "mixed"
    return kinds.pop()


def ev(e, d, h, mi):
    k = e[0]
    if k == "const":
        if isinstance(e[1], bool) or not isinstance(e[1], int):
            raise Unsupported(f"constant {e[1]!r}")
        return e[1]
    if k == "proj":
        # (checked-op result).0
        if e[1][0] == "bin" and e[2] == ["0"]:
            return ev(e[1], d, h, mi)
        raise Unsupported(f"projection {e[2]}")
    if k == "bin":
        op = e[1].replace("WithOverflow", "")
        a, b = ev(e[2], d, h, mi), ev(e[3], d, h, mi)
        if op == "Sub":
            return a - b
        if op == "Add":
            return a + b
        if op == "Mul":
            return a * b
        if op == "Div":
            if b == 0:
                raise Unsupported("division by zero")
            q = abs(a) // abs(b)
            return q if (a >= 0) == (b >= 0) else -q
        if op == "Rem":
            if b == 0:
                raise Unsupported("rem by zero")
            r = abs(a) % abs(b)
            return r if a >= 0 else -r
        if op in ("Le", "Lt", "Ge", "Gt", "Eq", "Ne"):
            return {"Le": a <= b, "Lt": a < b, "Ge": a >= b, "Gt": a > b, "Eq": a == b, "Ne": a != b}[op]
        if op == "BitAnd":
            return a & b
        if op == "Shr":
            return a >> b
        raise Unsupported(f"operator {op}")
    if k == "call":
        name = e[1]
        n = name.rsplit("::", 1)[-1]
        if re.search(r"Clone>::clone$|Deref>::deref$|::to_owned$|Into<.*>::into$|From<.*>::from$", name):
            return ev(e[2][0], d, h, mi)
        if name.startswith("jiff::Zoned::") or name.startswith("jiff::civil::"):
            recv = e[2][0] if e[2] else None
            if n == "iso_week_date":
                return ("iso",) + tuple(d.isocalendar())
            if n in ("week", "year", "weekday") and recv is not None:
                rv = ev(recv, d, h, mi)
                if isinstance(rv, tuple) and rv and rv[0] == "iso":
                    return {"year": rv[1], "week": rv[2], "weekday": rv[3]}[n]
            if n == "year":
                return d.year
            if n == "month":
                return d.month
            if n == "day":
                return d.day
            if n == "day_of_year":
                return d.timetuple().tm_yday
            if n == "hour":
                return h
            if n == "minute":
                return mi
            if n == "date" or n == "datetime" or n == "time":
                return ev(recv, d, h, mi)
        raise Unsupported(f"call {name}")
    if k == "path":
        return ("time-of", e[1])
    raise Unsupported(f"node {k}")


def normalise_side(e, argn):
    """replace the root path (arg n).time by a marker so both sides can be compared structurally"""
    if e[0] == "path":
        if e[1] == ("arg", argn) and e[2] == ["time"]:
            return ("path", "T", [], [])
        return ("path", "OTHER", e[2], [])
    if e[0] == "call":
        return ("call", e[1], [normalise_side(a, argn) for a in e[2]], 0)
    if e[0] == "bin":
        return ("bin", e[1], normalise_side(e[2], argn), normalise_side(e[3], argn))
    if e[0] == "un":
        return ("un", e[1], normalise_side(e[2], argn))
    if e[0] == "proj":
        return ("proj", normalise_side(e[1], argn), e[2], e[3])
    if e[0] == "const":
        return e
    return ("unknown",)


def has_other(e):
    if e[0] == "path":
        return e[1] != "T"
    if e[0] == "call":
        return any(has_other(a) for a in e[2])
    if e[0] == "bin":
        return has_other(e[2]) or has_other(e[3])
    if e[0] in ("un",):
        return has_other(e[2])
    if e[0] == "proj":
        return has_other(e[1])
    if e[0] == "unknown":
        return True
    return False


def _subst(e, actual):
    """replace parameter paths of an inlined callee by the caller's argument expressions"""
    if e[0] == "path":
        root = e[1]
        if isinstance(root, tuple) and root[0] == "arg" and 1 <= root[1] <= len(actual):
            a = actual[root[1] - 1]
            if not e[2] and not (len(e) > 3 and e[3]):
                return a
            if a[0] == "path":
                return ("path", a[1], list(a[2]) + list(e[2]), list(a[3] if len(a) > 3 else []) + list(e[3] if len(e) > 3 else []))
            return ("proj", a, list(e[2]), list(e[3] if len(e) > 3 else []))
        return e
    if e[0] == "call":
        return ("call", e[1], [_subst(a, actual) for a in e[2]], e[3] if len(e) > 3 else 0)
    if e[0] == "bin":
        return ("bin", e[1], _subst(e[2], actual), _subst(e[3], actual))
    if e[0] == "un":
        return ("un", e[1], _subst(e[2], actual))
    if e[0] == "proj":
        return ("proj", _subst(e[1], actual), e[2], e[3] if len(e) > 3 else [])
    return e


_PROG = [None]


def inline(e, depth=0):
    """inline calls of small local helper functions / closures (accessor helpers such as `|sn| (sn.time.month() + 2) / 3`)"""
    prog = _PROG[0]
    if e[0] == "call":
        args = [inline(a, depth) for a in e[2]]
        tb = prog.bodies.get(e[1]) if prog else None
        if tb is not None and tb.crate == "rustic_core" and depth < 4 and tb.locals[0] != "bool":
            actual = args
            if tb.is_closure() and len(args) == 2 and args[1][0] == "agg":
                actual = [args[0]] + list(args[1][2])
            return inline(_subst(flow.place_expr(tb, [0]), actual), depth + 1)
        return ("call", e[1], args, e[3] if len(e) > 3 else 0)
    if e[0] == "bin":
        return ("bin", e[1], inline(e[2], depth), inline(e[3], depth))
    if e[0] == "un":
        return ("un", e[1], inline(e[2], depth))
    if e[0] == "proj":
        return ("proj", inline(e[1], depth), e[2], e[3] if len(e) > 3 else [])
    return e


def _eq_key(b, rv):
    return _eq_key_expr(inline(flow.expr_of(b, rv[2])), inline(flow.expr_of(b, rv[3])))


def _eq_key_expr(la, lb):
    ea = normalise_side(la, 1)
    eb = normalise_side(lb, 2)
    if has_other(ea) or has_other(eb):
        ea2 = normalise_side(la, 2)
        eb2 = normalise_side(lb, 1)
        if has_other(ea2) or has_other(eb2):
            raise Unsupported("comparison operands are not functions of sn1.time / sn2.time")
        ea, eb = ea2, eb2
    if ea != eb:
        raise Unsupported(f"different accessor expressions on the two snapshots: {show(ea)} vs {show(eb)}")
    return ea


def _helper_key(prog, b, t, depth):
    c = callee(t)
    if re.search(r"PartialEq for \(.*\)>::eq$", c) and len(t["args"]) == 2:
        # tuple equality (a, b) == (c, d): the conjunction of the component equalities
        ea, eb = flow.expr_of(b, t["args"][0]), flow.expr_of(b, t["args"][1])
        if ea[0] == "agg" and eb[0] == "agg" and ea[1][0] == "tuple" and eb[1][0] == "tuple" and len(ea[2]) == len(eb[2]):
            return [_eq_key_expr(inline(x), inline(y)) for x, y in zip(ea[2], eb[2])]
        raise Unsupported(f"tuple comparison with operands that are not tuple literals")
    tb = prog.bodies.get(c)
    if tb is None or tb.crate != "rustic_core" or t["dest_ty"] != "bool" or len(t["args"]) != 2:
        raise Unsupported(f"bool produced by {c}")
    pa = [flow.place_path(b, op_place(a)) if op_place(a) else None for a in t["args"]]
    if [p[0] if p else None for p in pa] != [("arg", 1), ("arg", 2)]:
        raise Unsupported(f"helper predicate {c} not applied to (sn1, sn2)")
    return conjuncts(prog, tb, depth + 1)


def _false_block(b, bb):
    return any(s[0] == "=" and s[1] == [0] and s[2][0] == "use" and s[2][1][0] == "k" and s[2][1][1].get("v") is False for s in b.blocks[bb]["s"])


def conjuncts(prog, b, depth=0):
    """key functions [f...] of a predicate body that is a conjunction (short-circuit &&) of equalities
    f(sn1.time) == f(sn2.time) and calls of other such predicates; raises Unsupported for any other shape"""
    if depth > 6:
        raise Unsupported("predicate nesting too deep")
    if b.argc != 2:
        raise Unsupported("predicate must take two snapshots")
    fs = []
    n_assign = 0
    equal_edges = []
    # (1) every switch is `if !conjunct { false }`
    for bi, blk in enumerate(b.blocks):
        t = blk["t"]
        if t["k"] != "switch":
            continue
        if t["discr_ty"] != "bool":
            raise Unsupported("non-bool branch in predicate")
        zero = [x for v, x in t["targets"] if v == "0"]
        if not zero:
            raise Unsupported("bool branch without a false edge")
        # the condition: follow copies of single-definition locals and `!` down to the comparison / helper call
        l = op_local(t["discr"])
        neg = False
        d = None
        for _ in range(8):
            ds = [d_ for d_ in b.defs().get(l, []) if d_[0] in ("stmt", "call")]
            if len(ds) != 1:
                raise Unsupported("branch condition with several definitions")
            d = ds[0]
            if d[0] == "stmt" and d[4][0] == "use" and d[4][1][0] in ("c", "m") and len(d[4][1][1]) == 1:
                l = d[4][1][1][0]
                continue
            if d[0] == "stmt" and d[4][0] == "un" and d[4][1] == "Not" and d[4][2][0] in ("c", "m") and len(d[4][2][1]) == 1:
                l = d[4][2][1][0]
                neg = not neg
                continue
            break
        if d[0] == "stmt" and d[4][0] == "bin" and d[4][1] in ("Eq", "Ne"):
            if d[4][1] == "Ne":
                neg = not neg
            fs.append(_eq_key(b, d[4]))
        elif d[0] == "call":
            if re.search(r"PartialEq(<.*>)?(>)?::ne$", callee(d[2])):
                neg = not neg
            fs.extend(_helper_key(prog, b, d[2], depth))
        else:
            raise Unsupported("branch condition is not an equality or a helper predicate")
        # the edge taken when the compared values DIFFER must yield false
        differ_edge = t["otherwise"] if neg else zero[0]
        if not _false_block(b, differ_edge):
            raise Unsupported("a failed comparison does not yield false (not a conjunction)")
        equal_edges.append((bi, zero[0] if neg else t["otherwise"]))
    # (2) the result: false, an equality, or a helper predicate's result
    for bi, blk in enumerate(b.blocks):
        for s in blk["s"]:
            if s[0] == "=" and s[1] == [0]:
                n_assign += 1
                rv = s[2]
                if rv[0] == "use" and rv[1][0] == "k" and rv[1][1].get("v") is False:
                    continue
                if rv[0] == "use" and rv[1][0] == "k" and rv[1][1].get("v") is True:
                    # early-return style (`if a != b { return false } .. true`): `true` only after EVERY comparison came out equal
                    if not equal_edges or any(bi in b.reachable_from(0, cut_edges=[e_]) for e_ in equal_edges):
                        raise Unsupported("`true` is returned on a path that skips a comparison (not a conjunction)")
                    continue
                if rv[0] == "use" and rv[1][0] in ("c", "m") and len(rv[1][1]) == 1:
                    # the last conjunct held in a local
                    l = rv[1][1][0]
                    d = None
                    for _ in range(8):
                        ds = [d_ for d_ in b.defs().get(l, []) if d_[0] in ("stmt", "call")]
                        if len(ds) != 1:
                            raise Unsupported("result copied from a local with several definitions")
                        d = ds[0]
                        if d[0] == "stmt" and d[4][0] == "use" and d[4][1][0] in ("c", "m") and len(d[4][1][1]) == 1:
                            l = d[4][1][1][0]
                            continue
                        break
                    if d[0] == "stmt" and d[4][0] == "bin" and d[4][1] == "Eq":
                        fs.append(_eq_key(b, d[4]))
                        continue
                    if d[0] == "call":
                        fs.extend(_helper_key(prog, b, d[2], depth))
                        continue
                    raise Unsupported("result copied from a local that is not an equality")
                if rv[0] == "bin" and rv[1] == "Eq":
                    fs.append(_eq_key(b, rv))
                    continue
                raise Unsupported(f"result assigned from {rv[0]} (not a conjunction of equalities)")
        t = blk["t"]
        if t["k"] == "call" and t["dest"] == [0]:
            n_assign += 1
            fs.extend(_helper_key(prog, b, t, depth))
    if n_assign == 0:
        raise Unsupported("no result assignment found")
    return fs


def show(e):
    if e[0] == "path":
        return "t"
    if e[0] == "call":
        n = e[1].rsplit("::", 1)[-1]
        if re.search(r"clone$|deref$", n):
            return show(e[2][0])
        return f"{show(e[2][0]) if e[2] else ''}.{n}()"
    if e[0] == "bin":
        return f"({show(e[2])} {e[1].replace('WithOverflow','')} {show(e[3])})"
    if e[0] == "proj":
        return show(e[1])
    if e[0] == "const":
        return str(e[1])
    return "?"


_DAYS = None


def days():
    global _DAYS
    if _DAYS is None:
        d0 = datetime.date(1999, 12, 27)
        _DAYS = [d0 + datetime.timedelta(days=i) for i in range(146097 + 14)]
    return _DAYS


def same_partition(keyf, canonf, domain):
    """both functional dependencies key->canon and canon->key hold over the domain; returns (ok, witness)"""
    k2c, c2k = {}, {}
    first = {}
    for x in domain:
        k = keyf(x)
        c = canonf(x)
        if k in k2c:
            if k2c[k] != c:
                return False, ("too coarse", first[("k", k)], x)
        else:
            k2c[k] = c
            first[("k", k)] = x
        if c in c2k:
            if c2k[c] != k:
                return False, ("too fine", first[("c", c)], x)
        else:
            c2k[c] = k
            first[("c", c)] = x
    return True, None


def run(ctx, rep):
    prog = ctx.prog
    wiring_rule(ctx, rep, "C09")
    _PROG[0] = prog
    rep.rule("C09.a", "each period predicate induces exactly the documented partition of time (exhaustive over the Gregorian cycle x minutes)")
    rep.rule("C09.b", "keep_checks rows pair predicate, counter and within field of one period; every keep option is wired and validated")
    rep.rule("C09.c", "protection rules precede keep rules in KeepOptions::apply; newest first")
    M = prog.find1(r"^rustic_core::commands::forget::KeepOptions::matches$")
    # ---- rows of keep_checks: tuples (fn pointer, &mut self.<counter>, str, self.<within>, str) -----------
    rows = []
    for bi, blk in enumerate(M.blocks):
        for s in blk["s"]:
            if s[0] == "=" and s[2][0] == "agg" and s[2][1][0] == "tuple" and len(s[2][2]) == 5:
                ops = s[2][2]
                e0 = flow.expr_of(M, ops[0])
                if e0[0] != "fn":
                    continue
                cnt = flow.place_path(M, op_place(ops[1])) if op_place(ops[1]) else None
                wth = flow.place_path(M, op_place(ops[3])) if op_place(ops[3]) else None
                rows.append((e0[1], cnt, wth, span_str(s[3])))
    rep.floor("C09.b", "keep_checks rows", len(rows), 6)
    seen_cnt, seen_within, seen_pred = set(), set(), set()
    preds = {}
    for (fnp, cnt, wth, loc) in rows:
        cname = cnt[1][-1] if cnt and cnt[0] == ("arg", 1) and cnt[1] else None
        wname = wth[1][-1] if wth and wth[0] == ("arg", 1) and wth[1] else None
        pname = fnp.rsplit("::", 1)[-1]
        ok = cname in PERIOD_OF and PERIOD_OF[cname][1] == wname
        rep.check("C09.b", f"row/{cname}", ok, where=loc,
                  what=f"keep_checks row ({pname}, {cname}, {wname}): counter and within option belong to the same period" if ok else
                       f"keep_checks row ({pname}, {cname}, {wname}) mixes options of different periods")
        dup = cname in seen_cnt or wname in seen_within or fnp in seen_pred
        rep.check("C09.b", f"distinct/{cname}", not dup, where=loc, what=f"row {cname}: predicate, counter and within option are used by no other row")
        seen_cnt.add(cname); seen_within.add(wname); seen_pred.add(fnp)
        if cname in PERIOD_OF:
            preds[cname] = fnp
    # every Option keep field of KeepOptions is wired, and mentioned by is_valid
    ko = prog.adt("commands::forget::KeepOptions")
    fields = [f[0] for f in ko["variants"][0]["fields"]]
    wired = seen_cnt | seen_within
    V = prog.find1(r"^rustic_core::commands::forget::KeepOptions::is_valid$")
    vfields = set()
    for blk in V.blocks:
        for s in blk["s"]:
            if s[0] == "=":
                for pl in ([s[2][1]] if s[2][0] in ("ref", "refmut") else []) + ([op_place(s[2][1])] if s[2][0] == "use" and op_place(s[2][1]) else []):
                    vfields |= set(x for x in place_fields(pl) if x)
        t = blk["t"]
        if t["k"] == "switch" and op_place(t["discr"]):
            vfields |= set(x for x in place_fields(op_place(t["discr"])) if x)
    nkeep = 0
    for f in fields:
        if not f.startswith("keep_"):
            continue
        nkeep += 1
        if f in ("keep_tags", "keep_ids", "keep_none"):
            rep.check("C09.b", f"valid/{f}", f in vfields, where=V.loc(), what=f"is_valid mentions {f}")
            continue
        rep.check("C09.b", f"wired/{f}", f in wired, where=M.loc(), what=f"option {f} appears in a keep_checks row" if f in wired else f"option {f} is NOT wired into keep_checks (it would be accepted and ignored)")
        rep.check("C09.b", f"valid/{f}", f in vfields, where=V.loc(), what=f"is_valid mentions {f}")
    rep.floor("C09.b", "keep_* fields of KeepOptions", nkeep, 14)

    # ---- C09.a ------------------------------------------------------------------------------------
    minutes = [(h, mi) for h in range(24) for mi in range(60)]
    for cname, fnp in sorted(preds.items()):
        period = PERIOD_OF[cname][0]
        b = prog.bodies.get(fnp)
        if b is None:
            raise AnchorError(f"predicate body {fnp} not found")
        if period == "last":
            # must be constantly false
            const_false = all(not (s[0] == "=" and s[1] == [0]) or (s[2][0] == "use" and s[2][1][0] == "k" and s[2][1][1].get("v") is False) for blk in b.blocks for s in blk["s"]) and not list(b.calls())
            rep.check("C09.a", f"{fn_key(b)}/last", const_false, where=b.loc(), what="keep-last predicate never merges two snapshots into one period (constant false)")
            continue
        try:
            fs = conjuncts(prog, b)
            dfs = [f for f in fs if accessor_kind(f) == "date"]
            tfs = [f for f in fs if accessor_kind(f) == "time"]
            if any(accessor_kind(f) == "mixed" for f in fs):
                raise Unsupported("a compared expression mixes date and time-of-day accessors")
            okd, wd = same_partition(lambda d: tuple(ev(f, d, 0, 0) for f in dfs), lambda d: canon_date(period, d), days())
            okt, wt = same_partition(lambda hm: tuple(ev(f, datetime.date(2000, 1, 1), hm[0], hm[1]) for f in tfs), lambda hm: canon_time(period, hm[0], hm[1]), minutes)
        except Unsupported as u:
            raise AnchorError(f"C09.a: cannot interpret predicate {fnp}: {u}")
        keydesc = ", ".join(show(f) for f in fs)
        detail = None
        if not okd:
            detail = {"kind": wd[0], "days": [str(wd[1]), str(wd[2])], "key": keydesc}
        elif not okt:
            detail = {"kind": wt[0], "times": [list(wt[1]), list(wt[2])], "key": keydesc}
        rep.check("C09.a", f"{fn_key(b)}/{period}", okd and okt, where=b.loc(),
                  what=(f"{fn_key(b)} compares key ({keydesc}) = exactly the documented '{period}' partition" if okd and okt else
                        f"{fn_key(b)} compares key ({keydesc}): NOT the documented '{period}' partition ({detail['kind']}: e.g. {detail.get('days') or detail.get('times')} "
                        + ("are merged but lie in different periods)" if detail['kind'] == 'too coarse' else "lie in the same period but are separated)")),
                  detail=detail)
    rep.floor("C09.a", "period predicates evaluated", len(preds), 6)
    # ---- C09.d: the counter rule and the within rule of a row are independent (the result is their union) ------------
    from rules.C18 import cd_conditions, expr_names
    dec = []   # blocks that update a counter: `*counter = *counter - 1`
    push2 = []
    for bi, blk in enumerate(M.blocks):
        for s_ in blk["s"]:
            if s_[0] == "=" and s_[2][0] == "bin" and s_[2][1] in ("SubWithOverflow", "Sub") and "i32" in s_[2][4]:
                dec.append(bi)
    rep.require("C09.d", "counter-decrement", len(dec) >= 1, where=M.loc(), what=f"KeepOptions::matches decrements a keep counter ({len(dec)} site(s))")
    def mentions_within(conds):
        for (e, v, sw) in conds:
            nm = expr_names(M, e)
            if {"within", "latest_time"} & nm:
                return True
            txt = repr(e)
            if "saturating_add" in txt or "jiff::Zoned as std::cmp::PartialOrd" in txt:
                return True
        return False
    for i, bi in enumerate(dec, 1):
        conds = cd_conditions(M, bi)
        bad = mentions_within(conds)
        rep.check("C09.d", f"counter-independent-of-within/{i}", not bad, where=span_str(M.blocks[bi]["s"][0][3]) if M.blocks[bi]["s"] else M.loc(),
                  what="the keep counter is decremented whenever a period's newest snapshot is counted, independently of the keep-within test" if not bad else
                       "the keep counter is only decremented depending on the keep-within test: 'last N / newest N periods' would no longer be counted from the newest snapshot")
    rep.count("C09.a: days enumerated", len(days()))
    # ---- C09.g: "newest first" is an order of instants ---------------------------------------------------------------
    rep.rule("C09.g", "snapshots are ordered by the instant they were taken (Zoned / Timestamp order), not by a civil projection of it")
    SC = prog.find1(r"^<rustic_core::repofile::snapshotfile::SnapshotFile as std::cmp::Ord>::cmp$")
    cmps = [(bb, t) for bb, t in SC.calls() if "callee" in t and re.search(r"cmp::Ord(>)?::cmp$|cmp::PartialOrd(<.*>)?(>)?::partial_cmp$", callee(t) + " " + callee_decl(t))]
    rep.require("C09.g", "SnapshotFile::cmp/compares", len(cmps) >= 1, where=SC.loc(), what="<SnapshotFile as Ord>::cmp delegates to a comparison")
    okg = bool(cmps)
    detail = []
    for bb, t in cmps:
        for a in t["args"][:2]:
            e = flow.expr_of(SC, a, bb)
            flds, cls = flow.expr_mentions(e)
            if "time" not in flds:
                continue
            # allowed between the field and the comparison: references / clones and the instant accessor
            extra = [c for c in cls if not re.search(r"Clone>::clone$|Deref>::deref$|Borrow<.*>>::borrow$|AsRef<.*>>::as_ref$|jiff::Zoned::timestamp$", c)]
            if extra:
                okg = False
                detail.append(extra[0].rsplit("::", 1)[-1])
        if not re.search(r"<jiff::(Zoned|Timestamp) as std::cmp::(Ord|PartialOrd)>::", callee(t)) and any("time" in flow.expr_mentions(flow.expr_of(SC, a, bb))[0] for a in t["args"][:2]):
            okg = False
            detail.append(callee(t))
    rep.check("C09.g", "SnapshotFile::cmp/instant-order", okg, where=SC.loc(), what="SnapshotFile is ordered by its `time` as an instant (<jiff::Zoned as Ord>::cmp)" if okg else
              f"SnapshotFile is ordered by a civil projection of its time ({sorted(set(detail))}): snapshots recorded with different UTC offsets are counted in the wrong order by every keep rule (newest-first)")
    # ---- C09.f: periods are those of the snapshot's own recorded local time ---------------------------------------
    rep.rule("C09.f", "a time stamp stored with a numeric offset is read back in that offset (civil date/time as recorded), not converted to a default zone")
    PARSE = prog.find1(r"^rustic_core::repofile::RusticTime::parse$")
    fam_p = [PARSE] + prog.closures_of(PARSE)
    fixed_used = False
    via_instant = []
    for f_ in fam_p:
        for bb_, t_ in f_.calls():
            if "callee" not in t_:
                continue
            c_ = callee(t_)
            if c_.endswith("jiff::tz::TimeZone::fixed"):
                src = flow.backward_slice(f_, op_place(t_["args"][0]))["calls"] if op_place(t_["args"][0]) else set()
                fixed_used = fixed_used or any(x.endswith("to_numeric_offset") for x in src)
            for a_ in t_["args"]:
                if a_[0] == "k" and "fn" in a_[1]:
                    pth = (a_[1]["fn"].get("resolved") or {}).get("path") or a_[1]["fn"]["callee"]
                    if pth.endswith("jiff::tz::TimeZone::fixed"):
                        recv = flow.backward_slice(f_, op_place(t_["args"][0]))["calls"] if op_place(t_["args"][0]) else set()
                        fixed_used = fixed_used or any(x.endswith("to_numeric_offset") for x in recv)
            if re.search(r"jiff::tz::Offset::to_timestamp$|jiff::Timestamp::to_zoned$", c_):
                via_instant.append(where(f_, bb_))
    okz = fixed_used and not via_instant
    rep.check("C09.f", "offset-kept-as-zone", okz, where=PARSE.loc(), what="RusticTime::parse turns a numeric offset into a fixed-offset time zone of the resulting Zoned" if okz else
              f"RusticTime::parse does not keep a stored numeric offset as the time zone (TimeZone::fixed on the offset: {fixed_used}; conversion through the instant at {via_instant}): day/week/... periods are computed in another zone than the one recorded")
    # ---- C09.e: the counter protocol -----------------------------------------------------------------------------
    rep.rule("C09.e", "counter protocol: a period counts iff its counter is non-zero; positive counters are decremented by exactly one; `last` follows every snapshot")

    # decided semantically: with every i32 comparison `counter OP const` evaluated for a sample counter value c, the
    # decrement must be reachable exactly for c > 0 and some reason push exactly for c != 0 (so `> 0` / `>= 1`, nested
    # or separate ifs are all accepted, a changed threshold is not)
    SAMPLES = [-3, -1, 0, 1, 2, 7]

    def reach_with(c):
        def forced(body, bb):
            t = body.term(bb)
            if t["k"] == "switch" and t["discr_ty"] == "i32":
                # `match counter { 0 => .., n => .. }`: the only i32 values in matches() are the counters
                tg = [x for vv, x in t["targets"] if vv == str(c)]
                return tg[0] if tg else t["otherwise"]
            if t["k"] != "switch" or t["discr_ty"] != "bool":
                return None
            e = flow.expr_of(body, t["discr"], bb)
            neg = False
            while e[0] == "un" and e[1] == "Not":
                neg = not neg
                e = e[2]
            if e[0] == "bin" and e[1] in ("Gt", "Ge", "Lt", "Le", "Eq", "Ne") and e[3][0] == "const" and isinstance(e[3][1], int) and not isinstance(e[3][1], bool) and e[2][0] != "const":
                # which local is compared? only i32 values (the counters) are evaluated
                ty = None
                for s_ in body.blocks[bb]["s"]:
                    if s_[0] == "=" and s_[2][0] == "bin" and s_[2][1] == e[1]:
                        ty = s_[2][4]
                if ty is None:
                    dl = op_local(t["discr"])
                    for d_ in body.defs().get(dl, []):
                        if d_[0] == "stmt" and d_[4][0] == "bin":
                            ty = d_[4][4]
                if ty and "i32" in ty:
                    k = e[3][1]
                    v = {"Gt": c > k, "Ge": c >= k, "Lt": c < k, "Le": c <= k, "Eq": c == k, "Ne": c != k}[e[1]]
                    if neg:
                        v = not v
                    zero = [x for vv, x in t["targets"] if vv == "0"]
                    if zero:
                        return t["otherwise"] if v else zero[0]
            return None
        import pathsens
        return pathsens.reachable_under(M, forced, track_bools=True)

    reach = {c: reach_with(c) for c in SAMPLES}
    pushes_ = [bb for bb, t in M.calls() if "callee" in t and callee(t).endswith("Vec::<T, A>::push")]
    for i, bi in enumerate(dec, 1):
        subs = [s_ for s_ in M.blocks[bi]["s"] if s_[0] == "=" and s_[2][0] == "bin" and s_[2][1] in ("SubWithOverflow", "Sub") and "i32" in s_[2][4]]
        by1 = bool(subs) and all(flow.expr_of(M, s_[2][3], bi) == ("const", 1) for s_ in subs)
        rep.check("C09.e", f"decrement-by-one/{i}", by1, where=span_str(subs[0][3]) if subs else M.loc(), what="a keep counter is decremented by exactly 1 per counted period")
        got = {c: (bi in reach[c]) for c in SAMPLES}
        ok_gt = all(got[c] == (c > 0) for c in SAMPLES)
        rep.check("C09.e", f"decrement-iff-positive/{i}", ok_gt, where=span_str(subs[0][3]) if subs else M.loc(),
                  what="the counter is decremented exactly when it is > 0 (negative = unlimited stays untouched, the last remaining count is used up)" if ok_gt else
                       f"the decrement does not happen exactly for counter > 0 (reachable for counter = {[c for c in SAMPLES if got[c]]}): a period too many or too few is kept")
    okp = any(all((pb in reach[c]) == (c != 0) for c in SAMPLES) for pb in pushes_)
    rep.check("C09.e", "counted-iff-nonzero", okp, where=M.loc(), what="a period's reason is recorded exactly while its counter is non-zero (0 = off, negative = unlimited)" if okp else
              "no reason push is reachable exactly for counter != 0")
    # the within rule compares snapshot time + span against the newest snapshot's time, in that direction
    cmpc = [(bb, t) for bb, t in M.calls() if "callee" in t and re.search(r"PartialOrd(<.*>)?(>)?::(gt|ge|lt|le)$", callee(t) + " " + callee_decl(t)) and "Zoned" in (callee(t) + " ".join(t.get("gargs") or []))]
    okw = False
    for bb, t in cmpc:
        op = re.search(r"::(gt|ge|lt|le)$", callee_decl(t)).group(1)
        l0 = repr(flow.expr_of(M, t["args"][0], bb))
        l1 = repr(flow.expr_of(M, t["args"][1], bb))
        if op in ("gt", "ge") and "saturating_add" in l0 and "('arg', 5)" in l1 and "saturating_add" not in l1:
            okw = True
        if op in ("lt", "le") and "saturating_add" in l1 and "('arg', 5)" in l0 and "saturating_add" not in l0:
            okw = True
    rep.check("C09.e", "within-direction", okw, where=M.loc(), what="keep-within: snapshot time + span is compared against the NEWEST snapshot's time (kept if it reaches beyond it)")

    # ---- C09.c -------------------------------------------------------------------------------------
    A = prog.find1(r"^rustic_core::commands::forget::KeepOptions::apply$")
    def site(rx):
        s = [bb for bb, t in A.calls() if re.search(rx, callee(t))]
        return s
    def site_in(B, rx):
        return [bb for bb, t in B.calls() if re.search(rx, callee(t))]
    mk = site(r"snapshotfile::SnapshotFile::must_keep$")
    md = site(r"snapshotfile::SnapshotFile::must_delete$")
    mt = site(r"forget::KeepOptions::matches$")
    # the two unconditional tests may live in a helper of the same module that hands its verdict back as an enum
    # (`fn decision(sn, now) -> Option<bool>`): the helper is summarised (which variants it can return once must_keep /
    # must_delete answered true) and the summary decides the `match` on its result in apply
    KB, hcall = A, None
    if not mk and not md:
        for bb_, t_ in A.calls():
            H_ = prog.bodies.get(callee(t_)) if "callee" in t_ else None
            if H_ is not None and _module_of(H_.path) == _module_of(A.path):
                k_, d_ = site_in(H_, r"snapshotfile::SnapshotFile::must_keep$"), site_in(H_, r"snapshotfile::SnapshotFile::must_delete$")
                if len(k_) == 1 and len(d_) == 1 and hcall is None:
                    KB, hcall, mk, md = H_, bb_, k_, d_
    rep.require("C09.c", "sites", len(mk) == 1 and len(md) == 1 and len(mt) == 1, where=A.loc(), what="KeepOptions::apply calls must_keep, must_delete and matches once each (the first two possibly through one helper)")
    if len(mk) == 1 and len(md) == 1 and len(mt) == 1:
        import pathsens

        def force_result(test_bb, val, B=None):
            """forced-successor fn: the bool switch on the result of the call at test_bb (in B) takes the edge for `val`"""
            B = B or KB
            t = B.term(test_bb)
            dl = t["dest"][0]
            aliases, _, _ = flow.forward_aliases(B, dl)

            def fz(body, bb):
                if body is not B:
                    return None
                tt = body.term(bb)
                if tt["k"] != "switch" or tt["discr_ty"] != "bool" or op_local(tt["discr"]) not in aliases | {dl}:
                    return None
                zero = [x for v, x in tt["targets"] if v == "0"]
                if not zero:
                    return None
                return tt["otherwise"] if val else zero[0]
            return fz

        def returned_variants(B, reach):
            """discriminants of the enum values B can return on the blocks in reach; None = not decidable"""
            out = set()
            def of_local(l, depth=0):
                ds = [d for d in B.defs().get(l, []) if d[1] in reach]
                if not ds or depth > 3:
                    return False
                for d in ds:
                    if d[0] != "stmt" or len(d[3]) != 1:
                        return False
                    rv = d[4]
                    if rv[0] == "agg" and rv[1][0] == "adt" and rv[1][1] in pathsens.ADT_VARIANTS and rv[1][2] in pathsens.ADT_VARIANTS[rv[1][1]]:
                        pl_ = None
                        if len(rv[2]) == 1 and rv[2][0][0] == "k" and rv[2][0][1].get("ty") == "bool" and rv[2][0][1].get("v") in (0, 1, True, False):
                            pl_ = bool(rv[2][0][1]["v"])
                        out.add((pathsens.ADT_VARIANTS[rv[1][1]][rv[1][2]], pl_))
                    elif rv[0] == "use" and rv[1][0] in ("c", "m") and len(rv[1][1]) == 1:
                        if not of_local(rv[1][1][0], depth + 1):
                            return False
                    else:
                        return False
                return True
            return sorted(out) if of_local(0) and out else None

        def scenario(test_bb, val):
            """blocks of apply reachable once the test at test_bb answered val"""
            if hcall is None:
                return pathsens.reachable_under(A, force_result(test_bb, val, A)), None
            rh = pathsens.reachable_under(KB, force_result(test_bb, val, KB))
            vs = returned_variants(KB, set(rh))
            return pathsens.reachable_under(A, lambda b_, bb_: None, call_results={hcall: vs} if vs else None), rh

        def str_blocks(lit):
            import json as _json
            return {bi for bi, blk in enumerate(A.blocks) if ('"str": ' + _json.dumps(lit)) in _json.dumps(blk)}
        # decided path-sensitively (bool locals and `match` on a locally built Option/enum are followed): once must_keep /
        # must_delete answered true, the later stages are unreachable - whatever the spelling (else-if chain, early decision held
        # in an Option, ...)
        r_keep, rh_keep = scenario(mk[0], True)
        r_del, _ = scenario(md[0], True)
        kb_ok = (md[0] not in r_keep and md[0] in A.reachable_from(0)) if hcall is None else \
            (md[0] not in rh_keep and md[0] in KB.reachable_from(0) and hcall in A.reachable_from(0))
        rep.check("C09.c", "keep-before-delete", kb_ok, where=where(KB, mk[0]), what="must_delete is consulted only if must_keep is false (a protected snapshot is never deleted)")
        rep.check("C09.c", "delete-before-matches", mt[0] not in r_del, where=where(KB, md[0]), what="keep rules are consulted only if must_delete is false (an expired snapshot is not kept by a keep rule)")
        rep.check("C09.c", "keep-before-matches", mt[0] not in r_keep, where=where(KB, mk[0]), what="keep rules are consulted only if must_keep is false")
        # delete_unchanged applies only to snapshots that are neither protected nor expired: the "unchanged" verdict is
        # unreachable once must_keep / must_delete answered true
        du = [bi for bi in range(len(A.blocks)) if field_bool_test(A, bi, "delete_unchanged")]
        unch = str_blocks("unchanged")
        rep.require("C09.c", "delete-unchanged-site", len(du) == 1 and bool(unch), where=A.loc(), what="KeepOptions::apply tests delete_unchanged once and has an 'unchanged' verdict")
        if len(du) == 1 and unch:
            rep.check("C09.c", "keep-before-unchanged", not (unch & set(r_keep)), where=where(KB, mk[0]), what="a protected snapshot (must_keep) is never given the 'unchanged' verdict")
            rep.check("C09.c", "delete-before-unchanged", not (unch & set(r_del)), where=where(KB, md[0]), what="the 'unchanged' verdict is not reached once must_delete holds")
            # precedence of the option over the keep rules, independent of how the "same tree as the next snapshot" test is
            # spelled (closure, helper fn, local): within one iteration the 'unchanged' verdict and the call of matches() exclude
            # each other (neither is reachable from the other without going round the loop), the verdict is unreachable with
            # the option off, and matches() is reachable with it off
            deps = {}
            for u_ in unch:
                for (sw_, succ_) in C.transitive_control_deps(A, u_):
                    deps.setdefault(sw_, set()).add(succ_)
            chain = {sw_: next(iter(ss_)) for sw_, ss_ in deps.items() if len(ss_) == 1}
            # every decision that leads to the 'unchanged' verdict is taken that way (path-sensitively: a verdict parked in an
            # Option and matched later is followed): the keep rules are then out of reach
            r_chain = pathsens.reachable_under(A, lambda b_, bb_: chain.get(bb_))
            excl = mt[0] not in r_chain and bool(unch & set(r_chain))
            r_off = pathsens.reachable_under(A, force_flag("delete_unchanged", False))
            r_on = pathsens.reachable_under(A, force_flag("delete_unchanged", True))
            okprec = excl and not (unch & set(r_off)) and mt[0] in r_off and bool(unch & set(r_on))
            rep.check("C09.c", "unchanged-before-matches", okprec, where=where(A, du[0]),
                      what="the 'unchanged' verdict (only with delete_unchanged on) and the keep rules exclude each other within one iteration: a snapshot removed as unchanged is never kept by a keep rule")
    # `last` follows every processed snapshot (the period comparison is always against the immediately newer snapshot)
    la = [bi for bi, blk in enumerate(A.blocks) for s_ in blk["s"] if s_[0] == "=" and s_[2][0] == "agg" and s_[2][1][0] == "adt" and s_[2][1][2] == "Some" and "SnapshotFile" in A.locals[s_[1][0]]]
    if len(mt) == 1:
        lp = [(h, l_, C.loop_blocks(A, h, l_)) for (l_, h) in C.back_edges(A)]
        mine = sorted([x for x in lp if mt[0] in x[2]], key=lambda x: len(x[2]))
        okl = False
        if mine and la:
            h0 = mine[0][0]
            latches = [l_ for (l_, h) in C.back_edges(A) if h == h0]
            # no way round the loop avoids every `last = Some(sn)` assignment
            okl = not any(C.reachable_between(A, [h0], l_, cut_blocks=la) for l_ in latches if l_ not in la)
        rep.check("C09.e", "last-follows-every-snapshot", okl, where=A.loc(), what="`last` is set to every processed snapshot (kept or not): periods are compared with the immediately newer snapshot" if okl else
                  "`last` is not updated on every iteration: the period comparison skips snapshots and counts a period twice")
    # sort: newest first. Accepted spellings: sort*_by(|a, b| a.cmp(b).reverse()), sort*_by(|a, b| b.cmp(a)), or an ascending
    # sort followed by reverse()/rev(); decided from which closure parameter feeds which side of the comparison and the
    # parity of Ordering::reverse
    desc = False
    has_cmp = False
    for bb_, t_ in A.calls():
        if "callee" not in t_ or not re.search(r"::(sort_unstable_by|sort_by)$", callee(t_)):
            continue
        cpath = None
        for a_ in t_["args"][1:]:
            for d_ in A.defs().get(op_local(a_), []):
                if d_[0] == "stmt" and d_[4][0] == "agg" and d_[4][1][0] == "closure":
                    cpath = d_[4][1][1]
        c_ = prog.bodies.get(cpath) if cpath else None
        if c_ is None:
            continue
        for cb_, ct_ in c_.calls():
            if "callee" in ct_ and re.search(r"as std::cmp::Ord>::cmp$|as std::cmp::PartialOrd>::partial_cmp$", callee(ct_)) and len(ct_["args"]) == 2:
                ra = flow.backward_slice(c_, op_place(ct_["args"][0]))["args"] if op_place(ct_["args"][0]) else set()
                rb = flow.backward_slice(c_, op_place(ct_["args"][1]))["args"] if op_place(ct_["args"][1]) else set()
                nrev = sum(1 for _, x_ in c_.calls() if "callee" in x_ and re.search(r"Ordering::reverse$", callee(x_)))
                if 2 in ra and 3 in rb and 3 not in ra and 2 not in rb:
                    has_cmp = True
                    desc = (nrev % 2 == 1)
                elif 3 in ra and 2 in rb and 2 not in ra and 3 not in rb:
                    has_cmp = True
                    desc = (nrev % 2 == 0)
    if has_cmp and not desc:
        # ascending comparator followed by an explicit reversal
        desc = any("callee" in t_ and (re.search(r"\]>::reverse$|Iterator::rev$", callee(t_)) or re.search(r"\]>::reverse$|Iterator::rev$", callee_decl(t_))) for _, t_ in A.calls())
    if not has_cmp:
        asc = any("callee" in t_ and re.search(r"\]>::(sort|sort_unstable)$|::(sort|sort_unstable)$", callee(t_)) for _, t_ in A.calls())
        rev = any("callee" in t_ and (re.search(r"\]>::reverse$|Iterator::rev$", callee(t_)) or re.search(r"\]>::reverse$|Iterator::rev$", callee_decl(t_))) for _, t_ in A.calls())
        has_cmp, desc = asc, asc and rev
    cl = [1] if desc else []
    # every snapshot handed in is decided: between the parameter and the loop the list is only sorted - nothing removes or
    # skips entries (an omitted snapshot is neither kept nor reported, whatever the keep rules say)
    DROP = re.compile(r"Vec::<T, A>::(dedup|dedup_by|dedup_by_key|retain|retain_mut|truncate|drain|pop|remove|swap_remove|split_off|clear)$"
                      r"|Iterator::(filter|filter_map|skip|skip_while|take|take_while|step_by|map_while)$")
    dropped = []
    for bb_, t_ in A.calls():
        if "callee" not in t_:
            continue
        cc = callee(t_) + " " + callee_decl(t_)
        if DROP.search(callee(t_)) or DROP.search(callee_decl(t_)):
            pl_ = op_place(t_["args"][0]) if t_["args"] else None
            if pl_ and 2 in flow.backward_slice(A, pl_)["args"]:
                dropped.append(callee_decl(t_).rsplit("::", 1)[-1] + " at " + where(A, bb_))
    rep.check("C09.c", "all-snapshots-considered", not dropped, where=A.loc(), what="every snapshot of the group reaches the decision loop (the list is only sorted)" if not dropped else
              f"snapshots are removed from the list before they are decided ({dropped}): they are neither kept nor listed for removal")
    rep.check("C09.c", "newest-first", bool(cl) and has_cmp, where=A.loc(), what="snapshots are processed newest first (sort by cmp(..).reverse())")
    # must_keep / must_delete are the complementary halves of DeleteOption::After
    for name, op_expected in (("must_keep", ("Ge", "Le")), ("must_delete", ("Lt", "Gt"))):
        F = prog.find1(rf"^rustic_core::repofile::snapshotfile::SnapshotFile::{name}$")
        cmps = []
        for _, t in F.calls():
            m = re.search(r"PartialOrd.*::(ge|le|lt|gt)$", callee(t))
            if m:
                cmps.append(m.group(1))
        for bl in F.blocks:
            for s in bl["s"]:
                if s[0] == "=" and s[2][0] == "bin" and s[2][1] in ("Ge", "Le", "Lt", "Gt"):
                    cmps.append(s[2][1].lower())
        rep.check("C09.c", f"{name}/comparison", len(cmps) == 1 and cmps[0].capitalize() in op_expected, where=F.loc(),
                  what=f"{name} compares the delete-after time with now using {'>=' if name == 'must_keep' else '<'} ({cmps})")
