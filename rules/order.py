"""R-ORDER: durable-before-visible ordering of storage effects, as must-pass-through rules on the CFG of an
entry function. Instances are (entry, A-sites, B-sites); shared by C03, C08, C10, C12, C16, C20."""
import re
from rules.common import *


def call_pred(callee_rx, garg_rx=None, decl=False):
    rx = re.compile(callee_rx)
    grx = re.compile(garg_rx) if garg_rx else None

    def pred(t):
        if "callee" not in t:
            return False
        names = [callee(t), callee_decl(t)]
        if not any(rx.search(n) for n in names):
            return False
        if grx:
            ga = list(t.get("gargs") or []) + list((t.get("resolved") or {}).get("gargs") or [])
            return any(grx.search(g) for g in ga)
        return True
    return pred


def closure_contains(prog, c, pred, depth=0):
    for bb, t in c.calls():
        if pred(t):
            return True
    # the closure body extracted into a free helper fn of the same module (`|pack| read_and_check_pack(be, pack, ..)`)
    root = re.sub(r"(::\{closure#\d+\})+$", "", c.path)
    mod = _module_of(root)
    if depth < 3 and "::" in mod:
        for bb, t in c.calls():
            if "callee" not in t:
                continue
            h = callee(t)
            H = prog.bodies.get(h)
            if H is None or H.is_closure() or h == root or h.rsplit("::", 1)[0] != mod:
                continue
            if closure_contains(prog, H, pred, depth + 1):
                return True
    if depth < 6:
        for sub in prog.closures_of(c, recursive=False):
            if closure_contains(prog, sub, pred, depth + 1):
                return True
    return False


def _module_of(path):
    """module prefix of a function path: everything before the function name and an optional `Type::<..>` segment"""
    parts = path.split("::")
    parts = parts[:-1]
    while parts and (parts[-1].startswith("<") or (parts[-1][:1].isupper())):
        parts = parts[:-1]
    return "::".join(parts)


def sites(ctx, E, pred, through=None, _depth=0):
    """blocks of E whose call matches pred, or that consume a closure (transitively) containing a matching call, or that call
    a free helper function of the SAME module that contains such a site (a tail of the command extracted into
    `fn save_repaired_snapshots(..)`): the helper's call site then stands for the step."""
    out = []
    for bb, t in E.calls():
        if pred(t):
            out.append(bb)
    for (bb, t, kind, tgts, info) in ctx.cg.sites(E):
        if kind == "closure":
            for c in tgts:
                if closure_contains(ctx.prog, c, pred) and bb not in out:
                    out.append(bb)
    if _depth < 2:
        mod = _module_of(E.path)
        for bb, t in E.calls():
            if "callee" not in t or bb in out:
                continue
            c = callee(t)
            H = ctx.prog.bodies.get(c)
            if H is None or H.is_closure() or c == E.path or _module_of(c) != mod or "::" not in mod:
                continue
            # free functions only (no methods of a type: their effects are part of the rule tables already)
            if c.rsplit("::", 1)[0] != mod:
                continue
            if sites(ctx, H, pred, through, _depth + 1):
                out.append(bb)
    return sorted(set(out))


def ok_cut(E, a_bb):
    """edges to delete for A-site a_bb: the Ok continuation(s) of its `?`; for a tail-returned result nothing follows.
    returns (kind, edges)"""
    t = E.term(a_bb)
    if t["k"] != "call":
        return "other", []
    if not t.get("dest_ty", "").startswith("std::result::Result"):
        # infallible step: it has happened on every edge leaving the call
        return "return", [(a_bb, s) for s in E.succ(a_bb)]
    kind, edges = flow.try_ok_edges(E, a_bb)
    if kind == "?":
        return kind, edges
    if kind == "return":
        # result becomes the function's return value: nothing can follow in this frame
        return kind, [(a_bb, s) for s in E.succ(a_bb)]
    return kind, []


def must_precede(ctx, rep, rule, name, E, A, B, exempt_B=None, what_a="", what_b="", weak=False, a_edge_extra=None):
    """A, B: predicates over call terminators. Every B-site of E must be unreachable from the entry once the Ok
    continuations of all `?`-propagated A-sites are removed. weak=True: only 'no path from a B-site to an A-site'."""
    a_sites = sites(ctx, E, A)
    b_sites = sites(ctx, E, B)
    # a call that IS the visible step by name (B matches the call itself) is not also a durable step because the helper it
    # calls happens to contain one
    a_sites = [a for a in a_sites if A(E.term(a)) or not B(E.term(a))]
    key = f"{name}/{fn_key(E)}"
    rep.require(rule, key + "/A-present", len(a_sites) >= 1, where=E.loc(), what=f"{fn_key(E)}: durable step present ({what_a}): {len(a_sites)} site(s)")
    rep.require(rule, key + "/B-present", len(b_sites) >= 1, where=E.loc(), what=f"{fn_key(E)}: visible step present ({what_b}): {len(b_sites)} site(s)")
    if not a_sites or not b_sites:
        return
    cut = []
    for a in a_sites:
        kind, edges = ok_cut(E, a)
        ok = kind in ("?", "return")
        rep.check(rule, key + f"/A-propagated/{_ord(a_sites, a)}", ok, where=where(E, a),
                  what=f"{fn_key(E)}: result of {what_a} is " + ("`?`-propagated" if ok else "NOT propagated (error could be dropped, later steps would still run)"))
        cut.extend(edges)
    if a_edge_extra:
        cut.extend(a_edge_extra(E, a_sites))
    for b in b_sites:
        if exempt_B and exempt_B(E, b):
            rep.check(rule, key + f"/B-exempt/{_ord(b_sites, b)}", True, where=where(E, b), what=f"{fn_key(E)}: {what_b} at this site is outside the rule (documented exception)", nontrivial=False)
            continue
        if weak:
            bad = [a for a in a_sites if a != b and C.can_reach(E, b, a)]
            rep.check(rule, key + f"/order/{_ord(b_sites, b)}", not bad, where=where(E, b),
                      what=f"{fn_key(E)}: no {what_a} can follow {what_b}" if not bad else f"{fn_key(E)}: {what_a} at {[where(E, a) for a in bad]} can happen AFTER {what_b}")
            continue
        reach = E.reachable_from(0, cut_edges=cut)
        ok = b not in reach
        if b in a_sites:
            ok = False
        rep.check(rule, key + f"/order/{_ord(b_sites, b)}", ok, where=where(E, b),
                  what=(f"{fn_key(E)}: every path to {what_b} passes a successful {what_a}" if ok else
                        f"{fn_key(E)}: {what_b} is reachable WITHOUT a preceding successful {what_a} (sites {[where(E, a) for a in a_sites]})"))


def _ord(lst, x):
    return lst.index(x) + 1


def implies_field_true(E, local, field, _depth=0):
    """bool local `local` can only be true if option field `field` was read as true: every definition of the local is
    either `const false` or control-dependent on the true edge of a switch on `<..>.field`."""
    for d in E.defs().get(local, []):
        if d[0] != "stmt":
            return False
        rv = d[4]
        if rv[0] == "use" and rv[1][0] == "k" and rv[1][1].get("v") is False:
            continue
        # a copy of another bool local that itself implies the field (`let early = has && early_delete_index;`)
        if rv[0] == "use" and rv[1][0] in ("c", "m") and len(rv[1][1]) == 1 and _depth < 3 and rv[1][1][0] != local and implies_field_true(E, rv[1][1][0], field, _depth + 1) and E.defs().get(rv[1][1][0]):
            continue
        bb = d[1]
        okd = False
        for (sw, succ) in C.transitive_control_deps(E, bb):
            r = field_bool_test(E, sw, field)
            if r and r[0] == succ:
                okd = True
        if not okd:
            return False
    return True


def dominated_by_true_edge_of_local(E, bb, pred_local):
    """bb is only reachable through the true edge of a switch on a bool local for which pred_local(local) holds"""
    for sw in range(len(E.blocks)):
        t = E.term(sw)
        if t["k"] != "switch" or t["discr_ty"] != "bool":
            continue
        l = op_local(t["discr"])
        if l is None:
            continue
        # look through a copy
        e = flow.expr_of(E, t["discr"])
        cands = {l}
        if e[0] == "phi":
            cands.add(e[1])
        if e[0] == "path" and e[1][0] == "local":
            cands.add(e[1][1])
        if not any(pred_local(c) for c in cands):
            continue
        zero = [x for v, x in t["targets"] if v == "0"]
        if not zero:
            continue
        true_t = t["otherwise"]
        # cutting the true edge makes bb unreachable?
        if bb not in E.reachable_from(0, cut_edges=[(sw, true_t)]):
            return True
    return False
