"""C14 - Restore yields exactly the snapshot and never writes outside the target.

C14.a node names are validated before they become paths: in NodeStreamer::next every Path::join / PathBuf::push whose
  argument derives from Node::name() is dominated by a successful call of a validator (a function that inspects
  Path::components and accepts only a single Normal component) on the same name.
C14.b deletion only on request: every LocalDestination::remove_dir/remove_file site of collect_and_prepare is reachable
  only with opts.delete = true and dry_run = false.
C14.c write-opens do not follow pre-existing symlinks (LocalDestination::set_length / write_at): O_NOFOLLOW or a
  dominating symlink_metadata type check.
C14.d sparse holes only over known-zero ranges: skipping write_at for an all-zero blob requires the file to have been
  truncated/created empty.
C14.e destination walk: the walk over the destination does not follow symlinks; destination and snapshot paths are merged
  with the component-wise Path ordering (the order WalkDir::sort_by_file_name and the tree streamer produce).
C14.f reading back from a present file: a merged read request keeps `from_file` only of the entry whose `from_file`
  was tested to be None.
C14.h an existing destination file is considered for reuse only if it is a regular file whose length equals the
  snapshot's size exactly (get_matching_file); a verified file is never truncated afterwards, so `>=` would keep a tail.
C14.i metadata: set_metadata applies permission, times (and ownership unless no_ownership) unconditionally, times last;
  restore_metadata calls set_metadata for every non-directory node, defers directories on a stack (no immediate
  set_metadata of the directory just entered), applies popped directories, and drains the stack in reverse afterwards.
C14.j LocalDestination::hard_link probes and removes an existing non-directory entry before std::fs::hard_link (D19).
C14.g R-ACCUM: file offsets advance by each blob's length (RestorePlan::add_file).
"""
import re
from rules.common import *
from rules.order import ok_cut
import pathsens

TECHNIQUE = ('static analysis over rustc MIR: expression-precise validator argument on every path-building site, call-graph who-may-remove rule, metadata ordering (ownership before permission) through helpers, exact-size reuse and hard-link replacement rules, no-follow open flags')
LEVEL = "other"
EXPLANATION = (
    "Taint/sanitiser, guard and ordering rules over commands/restore.rs, blob/tree.rs (NodeStreamer) and "
    "backend/local_destination.rs, decided from resolved callees and path-sensitive reachability over the option flags. "
    "They decide which paths can be produced and when destination entries can be removed or written through - not the "
    "final directory contents for every prior destination state.")
NOT_DECIDED = ["final contents of the destination for every prior state (runtime)"]

JOIN = re.compile(r"^std::path::Path::join$|^std::path::PathBuf::push$")
NAME = re.compile(r"backend::node::Node::name$")


def is_validator(prog, b):
    """a function that looks at Path::components()/Component and can fail"""
    fam = [b] + prog.closures_of(b)
    comp = any("callee" in t and re.search(r"std::path::Path::components$", callee(t)) for f in fam for _, t in f.calls())
    normal = any(s[0] == "=" and s[2][0] == "discr" and "std::path::Component" in s[2][2] for f in fam for blk in f.blocks for s in blk["s"]) or \
        any("callee" in t and re.search(r"Component", callee(t)) for f in fam for _, t in f.calls())
    fallible = any(loc.startswith("std::result::Result") or loc.startswith("std::option::Option") or loc == "bool" for loc in b.locals[:1])
    return comp and normal and fallible


def run(ctx, rep):
    prog = ctx.prog
    wiring_rule(ctx, rep, "C14")
    for r, tx in (("C14.a", "node names are validated before they become paths"), ("C14.b", "destination entries are removed only with delete && !dry_run"),
                  ("C14.c", "write-opens do not follow pre-existing symlinks"), ("C14.d", "sparse holes only over known-zero ranges"),
                  ("C14.e", "destination walk: no link following, component-wise path order"), ("C14.f", "merged read requests keep a tested from_file"), ("C14.g", "file offsets advance by blob length"),
                  ("C14.h", "existing files are reused only on exact size match"),
                  ("C14.i", "metadata is applied to every node, completely, and to directories after their content")):
        rep.rule(r, tx)
    # ---- C14.a -------------------------------------------------------------------------------------
    NS = prog.find1(r"^<rustic_core::blob::tree::NodeStreamer<'_, BE, I> as std::iter::Iterator>::next$")
    sinks = []
    for bb, t in NS.calls():
        if "callee" in t and JOIN.search(callee(t)):
            sl = flow.backward_slice(NS, op_place(t["args"][1])) if len(t["args"]) > 1 and op_place(t["args"][1]) else {"calls": set(), "call_sites": set()}
            if any(NAME.search(c) for c in sl["calls"]):
                sinks.append((bb, t, sl))
    rep.floor("C14.a", "path-building sites fed by Node::name()", len(sinks), 1)
    validators = [b for b in prog.by_crate["rustic_core"] if b.kind in ("Fn", "AssocFn") and is_validator(prog, b)]
    vcalls = []
    for bb, t in NS.calls():
        if "callee" in t and any(callee(t) == v.path for v in validators):
            vcalls.append((bb, t))
    for i, (bb, t, sl) in enumerate(sinks, 1):
        ok = False
        for (vb, vt) in vcalls:
            kind, edges = ok_cut(NS, vb)
            # validator applied to a name() of the same node, and the sink unreachable unless it returned Ok/true
            # decided on the expression tree of the validator's argument (a slice through `self` would contain every call
            # of the function): it must be built from Node::name(), the unescaped name that is joined - not from the
            # raw stored field
            vsl = set()
            for a in vt["args"]:
                vsl |= flow.expr_mentions(flow.expr_of(NS, a, vb))[1]
            if not any(NAME.search(c) for c in vsl):
                continue
            if kind == "?":
                cut = edges
            else:
                # bool / matched result: cut the success edge found by the switch on its result
                cut = []
                d = vt["dest"][0]
                aliases, _, _ = flow.forward_aliases(NS, d)
                for sw in range(len(NS.blocks)):
                    tt = NS.term(sw)
                    if tt["k"] == "switch" and (op_local(tt["discr"]) in aliases or any(s[0] == "=" and s[1] == [op_local(tt["discr"])] and s[2][0] == "discr" and s[2][1][0] in aliases for s in NS.blocks[sw]["s"])):
                        # the edge that does NOT return/continue with an error: keep it simple - cut every edge from which the sink is reachable
                        for x in NS.succ(sw):
                            if bb in NS.reachable_from(x) or x == bb:
                                # candidate success edge: only accept if some other edge avoids the sink
                                cut.append((sw, x))
                        if len(cut) == len(NS.succ(sw)):
                            cut = []
            if cut and bb not in NS.reachable_from(0, cut_edges=cut):
                ok = True
        rep.check("C14.a", f"validated/{t['cname']}/{i}", ok, where=where(NS, bb),
                  what=f"NodeStreamer::next: the name handed to {t['cname']} passed a single-normal-component check" if ok else
                       f"NodeStreamer::next: Node::name() flows into {t['cname']} UNVALIDATED: a tree node named `..`, `../x` or `/abs` yields a path outside the destination")
    # ---- C14.b -------------------------------------------------------------------------------------
    CP = prog.find1(r"^rustic_core::commands::restore::collect_and_prepare$")
    fam = [CP] + prog.closures_of(CP)
    rm = [(f, bb, t) for f in fam for bb, t in f.calls() if "callee" in t and re.search(r"local_destination::LocalDestination::remove_(dir|file)$", callee(t))]
    rep.floor("C14.b", "destination removal sites", len(rm), 1)

    for (f, bb, t) in rm:
        r1 = pathsens.reachable_under(f, force_flag("delete", False), eval_expr=flag_eval("delete", False))
        r2 = pathsens.reachable_under(f, force_flag("dry_run", True), eval_expr=flag_eval("dry_run", True))
        ok = bb not in r1 and bb not in r2
        rep.check("C14.b", f"{t['cname']}/{fn_key(f).rsplit('::', 1)[-1]}", ok, where=where(f, bb),
                  what=f"{t['cname']} is unreachable unless opts.delete && !dry_run" if ok else f"{t['cname']} is reachable with delete = false or in dry-run: extra entries of the destination are removed without being asked")
    # ---- C14.c -------------------------------------------------------------------------------------
    for fn in ("set_length", "write_at"):
        F = prog.find1(rf"^rustic_core::backend::local_destination::LocalDestination::{fn}$")
        opens = [bb for bb, t in F.calls() if "callee" in t and callee(t) == "std::fs::OpenOptions::open"]
        guard = any("callee" in t and re.search(r"std::fs::symlink_metadata$|OpenOptionsExt>::custom_flags$|::custom_flags$", callee(t)) for _, t in F.calls())
        rep.check("C14.c", f"no-follow/{fn}", bool(opens) and guard, where=F.loc(),
                  what=f"LocalDestination::{fn} opens without following a symlink" if guard else
                       f"LocalDestination::{fn} opens the path for writing (create, no truncate) and follows a pre-existing symlink: content is written THROUGH the link to a file outside the destination")
    # ---- C14.d -------------------------------------------------------------------------------------
    RC = prog.find1(r"^rustic_core::commands::restore::restore_contents$")
    fam = [RC] + prog.closures_of(RC)
    wr = [(f, bb) for f in fam for bb, t in f.calls() if "callee" in t and callee(t).endswith("LocalDestination::write_at")]
    sl_ = [(f, bb) for f in fam for bb, t in f.calls() if "callee" in t and callee(t).endswith("LocalDestination::set_length")]
    rep.require("C14.d", "sites", len(wr) >= 1 and len(sl_) >= 1, where=RC.loc(), what="restore_contents sizes files with set_length and writes blobs with write_at")
    if wr and sl_:
        f, wbb = wr[0]
        skip_conds = []
        for (sw, succ) in C.transitive_control_deps(f, wbb):
            e = flow.expr_of(f, f.term(sw)["discr"])
            nm, neg = cond_name(f, e)
            if nm and "sparse" in nm:
                skip_conds.append(sw)
        # the file is truncated to zero before (set_len(0) / truncate(true)) ?
        SL = prog.find1(r"^rustic_core::backend::local_destination::LocalDestination::set_length$")
        trunc = False
        for bb, t in SL.calls():
            if "callee" in t and callee(t) == "std::fs::OpenOptions::truncate":
                v = const_val(t["args"][1]) if is_const(t["args"][1]) else None
                trunc = trunc or v is True
        rep.check("C14.d", "sparse-over-zeroed-file", (not skip_conds) or trunc, where=where(f, wbb),
                  what="all-zero blobs are skipped only in files that were truncated to zero first" if (not skip_conds) or trunc else
                       "an all-zero blob is not written (sparse restore) although the existing file is only resized, not truncated: old non-zero bytes survive where the snapshot has zeros")
    # ---- C14.e -------------------------------------------------------------------------------------
    fl = [(bb, t) for bb, t in CP.calls() if "callee" in t and callee(t) == "walkdir::WalkDir::follow_links"]
    okl = all(is_const(t["args"][1]) and const_val(t["args"][1]) is False for _, t in fl)
    rep.check("C14.e", "walk-no-follow", okl, where=where(CP, fl[0][0]) if fl else CP.loc(), what="the destination is walked without following symlinks" if okl else "the destination walk FOLLOWS symlinks: entries behind a link pointing outside the destination are compared, overwritten and deleted")
    cmps = [(bb, t) for bb, t in CP.calls() if "callee" in t and re.search(r"as std::cmp::Ord>::cmp$", callee(t))]
    pathcmp = [(bb, t) for bb, t in cmps if re.search(r"^<std::path::(Path|PathBuf) as std::cmp::Ord>::cmp$", callee(t))]
    other = [callee(t) for bb, t in cmps if (bb, t) not in pathcmp and re.search(r"OsStr|OsString|\[u8\]|str as", callee(t))]
    rep.check("C14.e", "path-order", len(pathcmp) >= 1 and not other, where=where(CP, pathcmp[0][0]) if pathcmp else CP.loc(),
              what="destination entries and snapshot paths are merged with Path's component-wise ordering" if pathcmp and not other else
                   f"destination and snapshot paths are compared with {other or 'no Path::cmp'}: byte order differs from the component order of the two sorted walks (e.g. `data/` vs `data.txt`), entries get mis-paired")
    # ---- C14.f -------------------------------------------------------------------------------------
    CO = prog.find1(r"^rustic_core::commands::restore::PackInfo::coalesce$")
    aggs = [(bi, s) for bi, blk in enumerate(CO.blocks) for s in blk["s"] if s[0] == "=" and s[2][0] == "agg" and s[2][1][0] == "adt" and s[2][1][1].endswith("restore::PackInfo")]
    tests = [(bb, t) for bb, t in CO.calls() if "callee" in t and re.search(r"Option::<T>::is_(none|some)$", callee(t))]
    okc = False
    if len(aggs) == 1 and tests:
        idx = aggs[0][1][2][1][3].index("from_file")
        src = flow.place_path(CO, op_place(aggs[0][1][2][2][idx])) if op_place(aggs[0][1][2][2][idx]) else None
        for bb, t in tests:
            tp = flow.place_path(CO, op_place(t["args"][0])) if op_place(t["args"][0]) else None
            if src and tp and src[0] == tp[0] and "from_file" in tp[1]:
                okc = C.dominates(CO, bb, aggs[0][0])
    rep.check("C14.f", "coalesce-from_file", okc, where=CO.loc(), what="the merged request keeps the from_file of the entry that was tested to have none" if okc else
              "PackInfo::coalesce tests one entry's from_file but keeps the other's: blobs of the merged request are filled from a present file that does not contain them")
    # ---- C14.h -------------------------------------------------------------------------------------
    GM = prog.find1(r"^rustic_core::backend::local_destination::LocalDestination::get_matching_file$")
    fam = [GM] + prog.closures_of(GM)
    opens = [(b, bb) for b in fam for bb, t in b.calls() if "callee" in t and re.search(r"^std::fs::(File::open|OpenOptions::open)$", callee(t))]
    rep.require("C14.h", "open-site", len(opens) >= 1, where=GM.loc(), what="get_matching_file opens the existing destination file for reading")
    for n, (b, bb) in enumerate(opens, 1):
        eq_size = is_file = False
        for (sw, succ) in C.transitive_control_deps(b, bb):
            e = flow.expr_of(b, b.term(sw)["discr"])
            neg = False
            while e[0] == "un" and e[1] == "Not":
                neg = not neg
                e = e[2]
            v = [vv for vv, x in b.term(sw)["targets"] if x == succ]
            took_true = (not v or v[0] != "0") != neg
            if e[0] == "bin" and e[1] in ("Eq", "Ne") and "Metadata::len" in repr(e):
                # the other operand is the requested size (closure capture / parameter)
                if (e[1] == "Eq") == took_true:
                    eq_size = True
            if e[0] == "call" and re.search(r"Metadata::is_file$|FileType::is_file$", e[1]) and took_true:
                is_file = True
        rep.check("C14.h", f"reuse-only-exact-size/{n}", eq_size, where=where(b, bb), what="an existing destination file is offered for block reuse only if its length EQUALS the snapshot's file size" if eq_size else
                  "an existing destination file is offered for reuse without an exact length match: a longer file whose prefix matches is accepted as restored and keeps its tail")
        ev = only_via(b, bb, lambda x: x[0] == "bin" and x[1] == "Eq" and "Metadata::len" in repr(x), True) or \
            only_via(b, bb, lambda x: x[0] == "bin" and x[1] == "Ne" and "Metadata::len" in repr(x), False)
        rep.check("C14.h", f"reuse-only-exact-size/{n}/every-path", ev, where=where(b, bb), what="every path that opens the existing file for reuse has seen `len == size` hold" if ev else
                  "the existing file can be opened for reuse on a path where `len == size` did not hold")
        rep.check("C14.h", f"reuse-only-regular-file/{n}", is_file, where=where(b, bb), what="... and only if it is a regular file (symlink_metadata().is_file())")
    # ---- C14.i: metadata ---------------------------------------------------------------------------------
    metadata_rules(ctx, rep, "C14.i")
    rep.rule("C14.j", "hardlinks are restored over an existing destination entry")
    hardlink_rule(ctx, rep, "C14.j")
    # ---- C14.g -------------------------------------------------------------------------------------
    AF = prog.find1(r"^rustic_core::commands::restore::RestorePlan::add_file$")
    adv = []
    ln = AF.local_names()
    for bi, blk in enumerate(AF.blocks):
        for s in blk["s"]:
            if s[0] == "=" and s[2][0] == "bin" and s[2][1] in ("AddWithOverflow", "Add") and "u64" in s[2][4]:
                a, b_ = s[2][2], s[2][3]
                la = op_local(a)
                # the running file position, identified by its behaviour (not its name): a u64 local that is re-assigned from
                # `itself + <something derived from BlobLocation::data_length()>`
                if la is not None and op_place(b_):
                    sl = flow.backward_slice(AF, op_place(b_))
                    if not any(c_.endswith("BlobLocation::data_length") for c_ in sl["calls"]):
                        continue
                    t_ = s[1][0]
                    carried = any(s2[0] == "=" and s2[1] == [la] and s2[2][0] == "use" and op_place(s2[2][1]) and op_place(s2[2][1])[0] == t_ for blk2 in AF.blocks for s2 in blk2["s"])
                    if carried:
                        adv.append((bi, {"data_length"}))
    loops = [C.loop_blocks(AF, h, l) for (l, h) in C.back_edges(AF)]
    in_loop = [any(bi in bl for bl in loops) for bi, _ in adv]
    rep.check("C14.g", "file_pos-advances", len(adv) >= 1 and all(in_loop) and any(("length" in n or "data_length" in n) for _, n in adv), where=AF.loc(),
              what="file_pos advances by the blob's data length once per content blob")


def _names(body, e, depth=0):
    from rules.C18 import expr_names
    return expr_names(body, e)


def _upvar_name(body, idx):
    for n, p in body.dbg:
        if isinstance(p, list) and p[0] == 1 and any(isinstance(e, list) and e[0] == "f" and e[1] == idx for e in p[1:]):
            return n
    return None


def metadata_rules(ctx, rep, R):
    prog = ctx.prog
    SM = prog.find1(r"^rustic_core::commands::restore::set_metadata$")
    cg = ctx.cg
    SETTERS = ("set_permission", "set_times", "set_uid_gid", "set_user_group", "set_extended_attributes", "create_special")
    calls = {}
    for (bb, t, kind, tgts, info) in cg.sites(SM):
        if t is None or "callee" not in t:
            continue
        m = re.search(r"LocalDestination::(" + "|".join(SETTERS) + r")$", callee(t))
        if m:
            calls.setdefault(m.group(1), []).append(bb)
            continue
        # a local helper (e.g. `restore_ownership(..)`) counts as a site of every setter it can reach
        if tgts and all(x.crate == "rustic_core" for x in tgts):
            seen = cg.reachable(tgts)
            for nm in SETTERS:
                if any(p_.endswith("LocalDestination::" + nm) for p_ in seen):
                    calls.setdefault(nm, []).append(bb)
    for name in ("set_permission", "set_times"):
        sites_ = calls.get(name, [])
        ok = len(sites_) == 1 and C.dominates(SM, sites_[0], [bi for bi in range(len(SM.blocks)) if SM.term(bi)["k"] == "return"][0]) if sites_ else False
        rep.check(R, f"set_metadata/{name}-always", ok, where=SM.loc(), what=f"set_metadata calls {name} on every path (for every node kind and option combination)" if ok else
                  f"set_metadata does not call {name} on every path: some restored entries keep default {'permissions' if name == 'set_permission' else 'time stamps'}")
    own = sorted(set(calls.get("set_uid_gid", []) + calls.get("set_user_group", [])))
    oko = len(own) >= 1 and bool(calls.get("set_uid_gid")) and bool(calls.get("set_user_group"))
    if oko:
        # the only way around both ownership setters is no_ownership == true
        ret = [bi for bi in range(len(SM.blocks)) if SM.term(bi)["k"] == "return"][0]
        reach = pathsens.reachable_under(SM, force_flag("no_ownership", False), eval_expr=flag_eval("no_ownership", False))
        cut = SM.reachable_from(0, cut_blocks=own)
        # with no_ownership == false, the return is not reachable when both setters are cut
        r2 = {b_ for b_ in cut if b_ in reach}
        oko = ret not in _reach_under(SM, own, force_flag("no_ownership", False))
    rep.check(R, "set_metadata/ownership-unless-no_ownership", oko, where=SM.loc(), what="ownership is restored (by id or by name) unless no_ownership is set")
    st = calls.get("set_times", [])
    others = [b_ for k_, v in calls.items() if k_ != "set_times" for b_ in v]
    okl = len(st) == 1 and all(not C.can_reach(SM, st[0], o) for o in others)
    rep.check(R, "set_metadata/times-last", okl, where=SM.loc(), what="set_times is the last metadata operation (later chmod/chown/xattr calls cannot disturb the restored times)" if okl else
              "another metadata operation can run after set_times")
    perm = calls.get("set_permission", [])
    okpo = len(perm) == 1 and all(not C.can_reach(SM, perm[0], o) for o in own)
    rep.check(R, "set_metadata/permission-after-ownership", okpo, where=SM.loc(), what="the mode is set after ownership (chown clears setuid/setgid bits, so chmod must come last of the two)" if okpo else
              "an ownership change can run after set_permission: chown clears the setuid/setgid bits that were just restored")
    RM_ = prog.find1(r"^rustic_core::commands::restore::restore_metadata$")
    sm_calls = [bb for bb, t in RM_.calls() if "callee" in t and callee(t).endswith("commands::restore::set_metadata")]
    pushes = [bb for bb, t in RM_.calls() if "callee" in t and callee(t).endswith("Vec::<T, A>::push")]
    pops = [bb for bb, t in RM_.calls() if "callee" in t and callee(t).endswith("Vec::<T, A>::pop")]
    revs = [bb for bb, t in RM_.calls() if "callee" in t and re.search(r"Iterator::rev$", callee_decl(t))]
    rep.require(R, "restore_metadata/sites", len(sm_calls) >= 3 and len(pushes) == 1 and len(pops) >= 1, where=RM_.loc(), what=f"restore_metadata applies metadata at {len(sm_calls)} sites, defers directories with one push, pops finished ones")
    if len(sm_calls) >= 3 and len(pushes) == 1:
        # the node-kind switch
        # the node-kind test: a `match node.node_type` or a (possibly negated) `node.is_dir()` test
        dirv = str([v["discr"] for v in prog.adt("backend::node::NodeType")["variants"] if v["name"] == "Dir"][0])
        kind_sw = []
        for bi in range(len(RM_.blocks)):
            tt = RM_.term(bi)
            if tt["k"] != "switch":
                continue
            if any(s_[0] == "=" and s_[2][0] == "discr" and place_has_field(s_[2][1], "node_type") for s_ in RM_.blocks[bi]["s"]) or ("node_type" in repr(flow.expr_of(RM_, tt["discr"], bi)) and tt["discr_ty"] != "bool"):
                d_ = [x for v, x in tt["targets"] if v == dirv]
                kind_sw.append((bi, d_[0] if d_ else tt["otherwise"], [x for x in RM_.succ(bi) if not d_ or x != d_[0]]))
            elif tt["discr_ty"] == "bool":
                e_ = flow.expr_of(RM_, tt["discr"], bi)
                neg_ = False
                while e_[0] == "un" and e_[1] == "Not":
                    neg_ = not neg_
                    e_ = e_[2]
                if e_[0] == "call" and e_[1].endswith("node::Node::is_dir"):
                    zero_ = [x for v, x in tt["targets"] if v == "0"]
                    if zero_:
                        t_true, t_false = tt["otherwise"], zero_[0]
                        kind_sw.append((bi, t_false if neg_ else t_true, [t_true if neg_ else t_false]))
        sws = [x[0] for x in kind_sw]
        okk = False
        okd = False
        if sws:
            sw, dir_first, other_t = kind_sw[0]
            dir_t = [dir_first]
            t = RM_.term(sw)
            backs = C.back_edges(RM_)
            loops = [(h, C.loop_blocks(RM_, h, l)) for (l, h) in backs]
            inner = sorted([(h, bl) for (h, bl) in loops if sw in bl], key=lambda x: len(x[1]))
            h0, loop = inner[-1] if inner else (None, set())
            loop = set().union(*[bl for (h, bl) in loops if h == h0]) if inner else set()
            hdr_edges = [(l, h) for (l, h) in backs if h == h0]
            # non-directory nodes: every way round the loop from the non-Dir edge passes a set_metadata call
            okk = bool(other_t) and all(not _reaches_any(RM_, x, [l for (l, h) in hdr_edges], cut_blocks=sm_calls, within=loop) for x in other_t)
            # directories: the Dir edge pushes on every way round the loop, and the directory just entered does not get
            # set_metadata before the push
            if dir_t:
                okd = not _reaches_any(RM_, dir_t[0], [l for (l, h) in hdr_edges], cut_blocks=pushes, within=loop)
        rep.check(R, "restore_metadata/non-dir-nodes-get-metadata", okk, where=RM_.loc(), what="every non-directory node gets set_metadata in its loop iteration")
        rep.check(R, "restore_metadata/dirs-deferred", okd, where=RM_.loc(), what="every directory node is pushed on the stack (its metadata is applied after its content)")
        # popped directories are applied; the final drain is reversed (children before parents)
        okp = all(any(C.can_reach(RM_, p_, c_) for c_ in sm_calls) for p_ in pops)
        rep.check(R, "restore_metadata/popped-dirs-applied", okp, where=RM_.loc(), what="directories popped from the stack get set_metadata")
        # innermost first: `into_iter().rev()` over the stack, or a drain loop of its own (outside the per-node loop) that pops
        # (LIFO) and applies what it popped
        byh_ = {}
        for (l_, h_) in C.back_edges(RM_):
            byh_.setdefault(h_, set()).update(C.loop_blocks(RM_, h_, l_))
        main_loops = [bl for bl in byh_.values() if sws and sws[0] in bl]
        drain_pop = any(p_ not in set().union(*main_loops) and any(p_ in bl and any(c_ in bl for c_ in sm_calls) for bl in byh_.values()) for p_ in pops) if main_loops else False
        rep.check(R, "restore_metadata/final-drain-reversed", len(revs) == 1 or drain_pop, where=RM_.loc(), what="the remaining stack is drained in reverse (innermost directory first)")


def _reach_under(body, cut_blocks, forced):
    reach = pathsens.reachable_under(body, forced)
    # plain reachability restricted to blocks reachable under the forcing, with cut blocks removed
    seen, work = set(), [0]
    while work:
        b = work.pop()
        if b in seen or b in cut_blocks or b not in reach:
            continue
        seen.add(b)
        f = forced(body, b)
        for x in ([f] if f is not None else body.succ(b)):
            work.append(x)
    return seen


def _reaches_any(body, start, targets, cut_blocks=(), within=None):
    seen, work = set(), [start]
    while work:
        b = work.pop()
        if b in seen or b in cut_blocks or (within is not None and b not in within):
            continue
        seen.add(b)
        if b in targets:
            return True
        work.extend(body.succ(b))
    return False


def hardlink_rule(ctx, rep, R):
    """C14.j hardlinks over an existing destination: fs::hard_link fails with EEXIST if the link path exists, so
    LocalDestination::hard_link must clear an existing (non-directory) entry first - otherwise restoring a snapshot with
    hardlinks into a destination that already holds them (e.g. a second restore) aborts (D19)."""
    prog = ctx.prog
    HL = prog.find1(r"^rustic_core::backend::local_destination::LocalDestination::hard_link$")
    fam = [HL] + prog.closures_of(HL)
    links = [(bb, t) for bb, t in HL.calls() if "callee" in t and callee(t) == "std::fs::hard_link"]
    rep.require(R, "hard_link/site", len(links) == 1, where=HL.loc(), what="LocalDestination::hard_link creates the link with std::fs::hard_link")
    if len(links) != 1:
        return
    lb, lt = links[0]
    target = flow.base_local(HL, op_place(lt["args"][1])) if op_place(lt["args"][1]) else None
    rms = [(bb, t) for bb, t in HL.calls() if "callee" in t and re.search(r"^std::fs::(remove_file|remove_dir_all|remove_dir)$", callee(t))
           and op_place(t["args"][0]) and flow.base_local(HL, op_place(t["args"][0])) == target]
    probes = [(bb, t) for bb, t in HL.calls() if "callee" in t and re.search(r"^std::fs::(symlink_metadata|metadata)$|Path::(exists|try_exists|is_file|is_symlink|symlink_metadata)$", callee(t))
              and op_place(t["args"][0]) and flow.base_local(HL, op_place(t["args"][0])) == target]
    ok = bool(rms) and bool(probes) and all(C.can_reach(HL, p_, lb) for p_, _ in probes) and all(C.can_reach(HL, r_, lb) for r_, _ in rms)
    # the removal is propagated (a failed removal must not be ignored: the link would fail anyway, with a worse message)
    okp = all(ok_cut(HL, r_)[0] in ("?", "return") for r_, _ in rms) if rms else False
    rep.check(R, "hard_link/replaces-existing-entry", ok and okp, where=where(HL, lb),
              what="an existing entry at the link path is probed and removed before std::fs::hard_link" if ok and okp else
                   "std::fs::hard_link is called without clearing an existing entry at the link path: restoring hardlinks over a destination that already has them fails with EEXIST")
