"""C08 - Pack files, their headers and the index always agree; the index is rebuildable.

C08.a header codec is an involution on its finite domain: HeaderEntry::from_blob followed by into_blob/into_location is
  the identity over (blob type x compressed?) [exact, by concrete interpretation of the MIR]; HeaderEntry::length()
  equals the serialised size computed from the variant's field types and ENTRY_LEN/ENTRY_LEN_COMPRESSED; LENGTH_LEN is
  the size of PackHeaderLength's field.
C08.b writer order: RawPacker::save = header_bytes -> encrypt -> write_header -> take_data -> send (R-ORDER 17, in C03);
  write_header appends the header bytes, then the little-endian length OF THOSE BYTES.
C08.c index entry = what was appended: BasicPacker::add_raw records offset = self.size read BEFORE write_data, length =
  write_data's return value, type = self.blob_type; the duplicate check precedes any mutation; write_data advances
  self.size by the length appended.
C08.d pack name = hash of the bytes written: the PackId handed on in the writer pipeline is hash_reader over a clone of
  the very BytesList that FileWriterHandle::process passes to write_bytes; index.id is that id.
C08.f trailer framing (symbolic lengths): in PackHeader::from_file and check_pack the slice decoded as length field has
  exactly LENGTH_LEN bytes, the slice handed to decrypt has exactly the length stored in that field on every path
  (header already read / re-read), and the ranged reads end at the end of the pack.
C08.g the index entry of a pack is stored as handed over (Indexer::add_with does not mutate its IndexPack).
C08.k an index entry rebuilt from a re-read pack header (repair index, checked index) lists every blob of that header.
C08.j reader limits: a constant upper limit on the header length in PackHeader::from_file is at least the largest header the
  packer writes (COMP_OVERHEAD + MAX_COUNT * max entry length); take_data resets the running size (offsets restart at 0).
C08.l storage-derived sizes (R-ARITH with storage sources): in PackHeader::from_file the listed pack size, the header-size
  guess and the decoded trailer length - none of them covered by a MAC - reach no subtraction/addition that can trap or wrap:
  a truncated, extended or bit-flipped pack is reported as an error (interval analysis with guards, min/checked_sub facts).
C08.e reader side: PackHeader::from_file compares the decoded header's size with the trailer length and its pack_size
  with the listed size before returning Ok; from_binary advances the offset by each blob's length.
"""
import re
from rules.common import *
from rules.order import ok_cut
import findom

TECHNIQUE = ("static analysis over rustc MIR: finite-domain concrete interpretation of the header codec, symbolic byte-container lengths "
             "(forward abstract interpretation with linear expressions) for the trailer framing, interval analysis with guard refinement over the "
             "storage-derived sizes of the pack reader (every overflow assertion they reach is discharged), ordering / provenance rules for packer and indexer")

LEVEL = "other"
EXHAUSTIVE = True
EXPLANATION = (
    "The pack-header codec is evaluated exhaustively over its 4-point domain by concrete interpretation of the MIR of "
    "from_blob / into_blob / into_location / length; entry lengths are recomputed from the ADT's field types and compared "
    "with the evaluated constants; provenance rules tie index entries, header length and pack id to the bytes actually "
    "appended. Decides writer/reader agreement of the format - not that repair_index restores every snapshot (runtime).")
NOT_DECIDED = ["restore equality after deleting all index files and running repair_index (runtime)"]

SIZES = {"u8": 1, "u16": 2, "u32": 4, "u64": 8, "rustic_core::id::Id": 32}


def run(ctx, rep):
    prog = ctx.prog
    wiring_rule(ctx, rep, "C08")
    for r, tx in (("C08.a", "header codec involution and entry lengths"), ("C08.b", "trailer length = length of the header bytes written"),
                  ("C08.c", "index entry = what was appended"), ("C08.d", "pack id = hash of the bytes written"), ("C08.e", "reader cross-checks header, trailer and listed size"),
                  ("C08.f", "trailer framing lengths agree on every reader path"), ("C08.g", "index entries are stored as handed over")):
        rep.rule(r, tx)
    PF = "rustic_core::repofile::packfile::"
    FB = prog.fn(PF + "HeaderEntry::from_blob")
    IB = prog.fn(PF + "HeaderEntry::into_blob")
    IL = prog.fn(PF + "HeaderEntry::into_location")
    LN = prog.fn(PF + "HeaderEntry::length")
    BT = "rustic_core::blob::BlobType"
    he = prog.adt("repofile::packfile::HeaderEntry")
    # entry lengths from field types (+1 magic byte)
    var_len = {}
    for v in he["variants"]:
        n = 1
        for (fname, fty) in v["fields"]:
            if fty not in SIZES:
                raise AnchorError(f"HeaderEntry.{v['name']}.{fname}: unknown field type {fty}")
            n += SIZES[fty]
        var_len[v["name"]] = n
    cl = prog.consts.get(PF + "HeaderEntry::ENTRY_LEN")
    cc = prog.consts.get(PF + "HeaderEntry::ENTRY_LEN_COMPRESSED")
    if not cl or not cc:
        raise AnchorError("HeaderEntry::ENTRY_LEN constants not found")
    ID = findom.Enum("rustic_core::id::Id", "X")
    for comp in (False, True):
        for tpe in ("Data", "Tree"):
            ul = ("adt", "std::option::Option", "Some", (7,)) if comp else findom.Enum("std::option::Option", "None")
            blob = {"id": {"0": "ID"}, "tpe": findom.Enum(BT, tpe), "location": {"offset": 0, "length": 11, "uncompressed_length": ul}}
            it = findom.Interp(prog, FB, {1: blob}, call_model=_model)
            it.run()
            ent = it.return_value()
            k = f"{tpe}/{'compressed' if comp else 'plain'}"
            okv = isinstance(ent, tuple) and ent[0] == "adt" and ent[1].endswith("HeaderEntry")
            rep.check("C08.a", f"from_blob/{k}", okv, where=FB.loc(), what=f"from_blob({k}) = HeaderEntry::{ent[2] if okv else ent}")
            if not okv:
                continue
            # into_blob: type; into_location: compressed?
            it2 = findom.Interp(prog, IB, {1: ent, 2: 0}, call_model=_model)
            it2.run()
            back = it2.return_value()
            tp2 = None
            if isinstance(back, tuple) and back[0] == "adt":
                names = _agg_fields(prog, "repofile::indexfile::IndexBlob")
                vals = dict(zip(names, back[3]))
                tp2 = vals.get("tpe")
            it3 = findom.Interp(prog, IL, {1: ent, 2: 0}, call_model=_model)
            it3.run()
            loc = it3.return_value()
            comp2 = None
            if isinstance(loc, tuple) and loc[0] == "adt":
                names = _agg_fields(prog, "blob::BlobLocation")
                vals = dict(zip(names, loc[3]))
                ulv = vals.get("uncompressed_length")
                comp2 = not (isinstance(ulv, findom.Enum) and ulv.name == "None")
            ok = isinstance(tp2, findom.Enum) and tp2.name == tpe and comp2 == comp
            rep.check("C08.a", f"roundtrip/{k}", ok, where=IB.loc(), what=f"into_blob/into_location(from_blob({k})) = ({tp2}, compressed={comp2})")
            it4 = findom.Interp(prog, LN, {1: ent}, call_model=_model)
            it4.run()
            ln = it4.return_value()
            want = var_len[ent[2]]
            rep.check("C08.a", f"length/{k}", ln == want, where=LN.loc(), what=f"HeaderEntry::{ent[2]}.length() = {ln}; serialised size from field types = {want}")
    rep.check("C08.a", "consts", cl["val"] == var_len["Data"] == var_len["Tree"] and cc["val"] == var_len["CompData"] == var_len["CompTree"], where=span_str(cl["span"]),
              what=f"ENTRY_LEN = {cl['val']} and ENTRY_LEN_COMPRESSED = {cc['val']} equal the serialised sizes {var_len}")
    magics = len({v["discr"] for v in he["variants"]}) == len(he["variants"])
    rep.check("C08.a", "variants-distinct", magics and len(he["variants"]) == 4, where=span_str(he["span"]), what="the four header entry kinds are distinct variants")
    ll = prog.consts.get(PF + "constants::LENGTH_LEN")
    phl = prog.adt("repofile::packfile::PackHeaderLength")
    rep.check("C08.a", "length-len", ll is not None and ll["val"] == SIZES.get(phl["variants"][0]["fields"][0][1]), where=span_str(phl["span"]), what=f"LENGTH_LEN = {ll['val'] if ll else None} = size of PackHeaderLength's field ({phl['variants'][0]['fields'][0][1]})")
    # ---- C08.b -------------------------------------------------------------------------------------
    WH = prog.find1(r"^rustic_core::blob::packer::BasicPacker::write_header$")
    wds = [(bb, t) for bb, t in WH.calls() if "callee" in t and callee(t).endswith("BasicPacker::write_data")]
    fu = [(bb, t) for bb, t in WH.calls() if "callee" in t and callee(t).endswith("PackHeaderLength::from_u32")]
    okb = False
    if len(wds) == 2 and len(fu) == 1:
        first, second = wds
        # first write: the header parameter (arg 2); length: derived from header.len(); second write derives from from_u32(len)
        s1 = flow.backward_slice(WH, op_place(first[1]["args"][1]))
        s2 = flow.backward_slice(WH, op_place(second[1]["args"][1]))
        sl = flow.backward_slice(WH, op_place(fu[0][1]["args"][0]))
        okb = (2 in s1["args"] and fu[0][0] not in s1["call_sites"] and fu[0][0] in s2["call_sites"] and 2 in sl["args"]
               and any(c.endswith("::len") for c in sl["calls"]) and C.can_reach(WH, first[0], second[0]) and not C.can_reach(WH, second[0], first[0]))
    rep.check("C08.b", "header-then-its-length", okb, where=WH.loc(), what="write_header appends the header bytes and then PackHeaderLength::from_u32(header.len())")
    # ---- C08.c -------------------------------------------------------------------------------------
    AR = prog.find1(r"^rustic_core::blob::packer::BasicPacker::add_raw$")
    wd = [(bb, t) for bb, t in AR.calls() if "callee" in t and callee(t).endswith("BasicPacker::write_data")]
    ia = [(bb, t) for bb, t in AR.calls() if "callee" in t and callee(t).endswith("indexfile::IndexPack::add")]
    hs = [(bb, t) for bb, t in AR.calls() if "callee" in t and callee(t).endswith("BasicPacker::has")]
    okc = len(wd) == 1 and len(ia) == 1 and len(hs) == 1
    rep.require("C08.c", "add_raw/sites", okc, where=AR.loc(), what="add_raw: one duplicate check, one write_data, one IndexPack::add")
    if okc:
        t = ia[0][1]
        # args: self.index, id, blob_type, offset, len, uncompressed_length
        off = flow.expr_of(AR, t["args"][3])
        off_ok = off[0] == "path" and off[1] == ("arg", 1) and off[2] == ["size"]
        # the read of self.size happens before write_data: the defining statement's block dominates the write_data call and is not after it
        # locate the statement that READS self.size (follow plain copies of locals back to the field read)
        curp = op_place(t["args"][3])
        read_bb = None
        for _ in range(16):
            if curp is None:
                break
            cur = curp[0]
            proj = [e[1] for e in curp[1:] if isinstance(e, list) and e[0] == "f"]
            ds = [d for d in AR.defs().get(cur, []) if d[0] == "stmt" and len(d[3]) == 1]
            if len(ds) != 1:
                break
            rv = ds[0][4]
            if rv[0] == "agg" and rv[1][0] == "tuple" and proj and proj[0] < len(rv[2]):
                # destructured tuple `let (offset, ..) = (self.size, ..)`: follow the selected component
                nxt = op_place(rv[2][proj[0]])
                if nxt is not None and "size" in place_fields(nxt) and nxt[0] == 1:
                    read_bb = ds[0][1]
                    break
                curp = nxt
                continue
            if rv[0] != "use" or not op_place(rv[1]):
                break
            src = op_place(rv[1])
            if "size" in place_fields(src) and src[0] == 1:
                read_bb = ds[0][1]
                break
            curp = src
        before = read_bb is not None and C.dominates(AR, read_bb, wd[0][0]) and (read_bb == wd[0][0] or not C.can_reach(AR, wd[0][0], read_bb))
        rep.check("C08.c", "add_raw/offset", off_ok and before, where=where(AR, ia[0][0]), what="the offset recorded in the index is self.size as it was BEFORE the blob was appended" if off_ok and before else "the recorded offset is not the pack size before appending (offsets in index and header point to the wrong bytes)")
        ln = flow.backward_slice(AR, op_place(t["args"][4]))
        rep.check("C08.c", "add_raw/length", wd[0][0] in ln["call_sites"], where=where(AR, ia[0][0]), what="the length recorded is the length write_data appended")
        bt = flow.expr_of(AR, t["args"][2])
        rep.check("C08.c", "add_raw/type", bt[0] == "path" and bt[1] == ("arg", 1) and bt[2] == ["blob_type"], where=where(AR, ia[0][0]), what="the type recorded is the packer's blob type")
        # duplicate check before any mutation: no store to (*self).* and no write_data reachable before `has`
        stores = [bi for bi, blk in enumerate(AR.blocks) for s in blk["s"] if s[0] == "=" and s[1][0] == 1 and len(s[1]) > 2]
        early = [bi for bi in stores if not C.dominates(AR, hs[0][0], bi)]
        rep.check("C08.c", "add_raw/dedup-first", not early, where=where(AR, hs[0][0]), what="the in-pack duplicate check precedes every mutation of the packer")
    WD = prog.find1(r"^rustic_core::blob::packer::BasicPacker::write_data$")
    adds = [s for blk in WD.blocks for s in blk["s"] if s[0] == "=" and s[2][0] == "bin" and s[2][1] in ("AddWithOverflow", "Add")]
    okw = False
    for s in adds:
        a = flow.expr_of(WD, s[2][2])
        sl = flow.backward_slice(WD, op_place(s[2][3])) if op_place(s[2][3]) else {"calls": set()}
        if a[0] == "path" and a[2] == ["size"] and any(c.endswith("::len") for c in sl["calls"]):
            okw = True
    rep.check("C08.c", "write_data/advance", okw, where=WD.loc(), what="write_data advances self.size by the number of bytes appended (R-ACCUM)")
    # offsets restart at 0 with every pack: wherever the pack's bytes are taken out of the packer (mem::take of `file`) the
    # running size is reset to 0 on every path to the return (whole-struct replacement counts too)
    TD_ = prog.find1(r"^rustic_core::blob::packer::BasicPacker::take_data$")
    takes_ = [bb for bb, t in TD_.calls() if "callee" in t and callee(t).endswith("std::mem::take") and op_place(t["args"][0]) and "file" in (flow.backward_slice(TD_, op_place(t["args"][0]))["fields"])]
    resets_ = [bi for bi, blk in enumerate(TD_.blocks) for s_ in blk["s"] if s_[0] == "=" and ((place_fields(s_[1]) == ["size"] and s_[2][0] == "use" and s_[2][1][0] == "k" and s_[2][1][1].get("v") == 0) or (s_[1][0] == 1 and s_[1][1:] == ["*"]))]
    rets_ = TD_.returns()
    okr_ = bool(takes_) and bool(resets_) and not any(r_ in TD_.reachable_from(0, cut_blocks=resets_) for r_ in rets_ if r_ not in resets_)
    rep.check("C08.c", "take_data/size-reset", okr_, where=TD_.loc(), what="taking a finished pack out of the packer resets the running size: offsets of the next pack start at 0" if okr_ else
              "take_data hands out the pack's bytes without resetting self.size: the offsets recorded for the next pack's blobs start behind the previous pack's length")
    # ---- C08.d -------------------------------------------------------------------------------------
    AN = prog.find1(r"^rustic_core::blob::packer::Actor::new$")
    cls = list(prog.closures_of(AN))
    # ... or a named fn handed to the pipeline as a value (`.map(Self::with_pack_id)`)
    for f_ in [AN] + list(cls):
        for blk in f_.blocks:
            ops = []
            for s_ in blk["s"]:
                if s_[0] == "=" and s_[2][0] == "use":
                    ops.append(s_[2][1])
            if blk["t"]["k"] == "call":
                ops += blk["t"]["args"]
            for o in ops:
                if o[0] == "k" and "fn" in o[1]:
                    pth = (o[1]["fn"].get("resolved") or {}).get("path") or o[1]["fn"]["callee"]
                    if pth.startswith("rustic_core::blob::packer::") and pth in prog.bodies and prog.bodies[pth] not in cls:
                        cls.append(prog.bodies[pth])
    hr = [(c, bb, t) for c in cls for bb, t in c.calls() if "callee" in t and callee(t).endswith("crypto::hasher::hash_reader")]
    okd = False
    if len(hr) == 1:
        c, bb, t = hr[0]
        sl = flow.backward_slice(c, op_place(t["args"][0]))
        # hashed reader derives from (a clone of) the closure's item parameter; the tuple returned carries the same item
        ret = flow.backward_slice(c, [0])
        ITEM = 2 if c.is_closure() else 1      # a closure's first parameter is its environment
        okd = ITEM in sl["args"] and ITEM in ret["args"] and bb in ret["call_sites"] and any(x.endswith("Clone>::clone") or x.endswith("BytesList::reader") for x in sl["calls"])
        # component-precise: the reader hashed is built from the FILE component of the item (a BytesList), nothing else

        def arg_components(e, acc):
            if isinstance(e, (tuple, list)):
                if len(e) >= 3 and e[0] == "path" and e[1] == ("arg", ITEM):
                    acc.add(e[2][0] if e[2] else "*")
                for y in e:
                    arg_components(y, acc)
            return acc
        comps = arg_components(flow.expr_of(c, t["args"][0]), set())
        tys = c.locals[ITEM] if len(c.locals) > ITEM else ""
        m = re.match(r"^\((.*)\)$", tys)
        first_is_file = bool(m) and m.group(1).split(",")[0].strip().endswith("BytesList")
        okd = okd and comps == {"0"} and first_is_file
    rep.check("C08.d", "id-is-hash-of-file", okd, where=AN.loc(), what="the pack id is hash_reader over (a clone of) the very BytesList that is passed on to be written")
    PR = prog.find1(r"^rustic_core::blob::packer::FileWriterHandle::<BE>::process$")
    wb = [(bb, t) for bb, t in PR.calls() if "callee" in t and is_method_of(t, RE_WRITE_BYTES)]
    okp = False
    if len(wb) == 1:
        t = wb[0][1]
        ida = flow.backward_slice(PR, op_place(t["args"][2]))
        ca = flow.backward_slice(PR, op_place(t["args"][4]))
        idstore = [s for blk in PR.blocks for s in blk["s"] if s[0] == "=" and place_has_field(s[1], "id", "indexfile::IndexPack")]
        okp = 2 in ida["args"] and 2 in ca["args"] and len(idstore) >= 1
    rep.check("C08.d", "process-writes-under-that-id", okp, where=PR.loc(), what="process writes the file under the id from the pipeline item and stores that id in the index entry")
    # the reader through which the pack's bytes are hashed (and copied) covers the whole list (C20.d)
    from rules import C20
    C20.reader_no_gap_rule(ctx, rep, "C08.d")
    # ---- C08.e -------------------------------------------------------------------------------------
    FF = prog.find1(r"^rustic_core::repofile::packfile::PackHeader::from_file$")
    okret = [bi for bi, blk in enumerate(FF.blocks) for s in blk["s"] if s[0] == "=" and s[1] == [0] and s[2][0] == "agg" and s[2][1][0] == "adt" and s[2][1][2] == "Ok"]
    def guarded(rx_a, rx_b, desc, key):
        """evaluated: with the comparison of the two quantities answering "they differ" (in from_file itself or in a Result helper
        it calls with `?`), no Ok return is reachable; with "equal" one is"""
        def mk(equal):
            def ev(body, e):
                if isinstance(e, tuple) and e and e[0] == "bin" and e[1] in ("Ne", "Eq"):
                    txt = repr(e)
                    if re.search(rx_a, txt) and re.search(rx_b, txt):
                        return (e[1] == "Eq") == equal
                if isinstance(e, tuple) and e and e[0] == "call" and re.search(r"PartialEq(<.*>)?(>)?::(eq|ne)$", e[1]):
                    txt = repr(e)
                    if re.search(rx_a, txt) and re.search(rx_b, txt):
                        return e[1].endswith("::eq") == equal
                return None
            return ev
        r_diff = reachable_eval(prog, FF, mk(False), depth=2)
        r_same = reachable_eval(prog, FF, mk(True), depth=2)
        ok = bool(okret) and not any(bi in r_diff for bi in okret) and any(bi in r_same for bi in okret)
        rep.check("C08.e", key, ok, where=FF.loc(), what=f"from_file returns Ok only if {desc}")
    guarded(r"PackHeader::size", r"PackHeaderLength::to_u32", "the decoded header's size equals the trailer length", "from_file/header-size")
    guarded(r"PackHeader::pack_size", r"\('arg', 4\)", "the pack size computed from the header equals the listed pack size", "from_file/pack-size")
    FBn = prog.find1(r"^rustic_core::repofile::packfile::PackHeader::from_binary$")
    adv = False
    for blk in FBn.blocks:
        for s in blk["s"]:
            if s[0] == "=" and s[2][0] == "bin" and s[2][1] in ("AddWithOverflow", "Add"):
                sl = flow.backward_slice(FBn, op_place(s[2][3])) if op_place(s[2][3]) else {"fields": set()}
                if "length" in sl["fields"]:
                    adv = True
    rep.check("C08.e", "from_binary/offset-advance", adv, where=FBn.loc(), what="from_binary advances the running offset by each blob's length (R-ACCUM)")
    framing_rule(ctx, rep, "C08.f")
    index_entry_rule(ctx, rep, "C08.g")
    # ---- C08.i: rebuilding the index reads every pack header it needs - also on repositories that need warm-up (from C16.c)
    from rules import C16
    from rules.C10 import borrow
    rep.rule("C08.i", "repair-index warms up and reads the complete set of packs whose headers it needs (shared with C16.c)")
    n_ = borrow(rep, ctx, C16, lambda o: o.rule == "C16.c" and "repair::index" in o.key, "C08.i")
    rep.floor("C08.i", "borrowed obligations", n_, 1)
    reader_limits_rule(ctx, rep, "C08.j")
    from rules import arith
    arith.run_storage_sizes(ctx, rep, "C08.l")
    # ---- C08.k: an index entry rebuilt from a pack header lists ALL blobs of that header ---------------------------------------
    rep.rule("C08.k", "index entries rebuilt from a re-read pack header list every blob of the header (no filtering / de-duplication)")
    DROPV = re.compile(r"Vec::<T, A>::(retain|retain_mut|dedup|dedup_by|dedup_by_key|truncate|drain|pop|remove|swap_remove|split_off|clear)$|Iterator::(filter|filter_map|skip|take|step_by|take_while|skip_while)$")
    nk = 0
    for b in prog.by_crate["rustic_core"]:
        if not b.path.startswith("rustic_core::commands::repair::index::"):
            continue
        for bi, blk in enumerate(b.blocks):
            for s_ in blk["s"]:
                if s_[0] == "=" and s_[2][0] == "agg" and s_[2][1][0] == "adt" and s_[2][1][1].endswith("indexfile::IndexPack") and "blobs" in s_[2][1][3]:
                    op = s_[2][2][s_[2][1][3].index("blobs")]
                    pl = op_place(op)
                    if pl is None:
                        continue
                    sl = flow.backward_slice(b, pl)
                    if not any(c.endswith("PackHeader::into_blobs") for c in sl["calls"]):
                        continue
                    nk += 1
                    aliases, consumers, _ = flow.forward_aliases(b, flow.base_local(b, pl))
                    drops = sorted({callee_decl(ct).rsplit("::", 1)[-1] for (cb, ct, ai) in consumers if ai == 0 and (DROPV.search(callee(ct)) or DROPV.search(callee_decl(ct)))} |
                                   {c.rsplit("::", 1)[-1] for c in sl["calls"] if DROPV.search(c)})
                    rep.check("C08.k", f"{fn_key(b)}/blobs-of-header-unfiltered/{nk}", not drops, where=span_str(s_[3]),
                              what=f"{fn_key(b)}: the rebuilt index entry takes the header's blob list as it is" if not drops else
                                   f"{fn_key(b)}: the blob list of a re-read pack header is reduced ({drops}) before it becomes the index entry: index entry and pack header (and the pack size computed from the entry) disagree")
    rep.floor("C08.k", "index entries rebuilt from pack headers", nk, 1)
    # ---- C08.h: sizes computed from index data add up the length of EACH entry (entries of one pack may differ: a pack
    # can mix compressed and uncompressed blobs, e.g. after a fast repack across a compression change)
    rep.rule("C08.h", "computed header/pack sizes sum the individual entry lengths")
    for fname in ("size", "pack_size"):
        F0 = prog.find1(rf"^rustic_core::repofile::packfile::PackHeaderRef::<'a>::{fname}$|^rustic_core::repofile::packfile::PackHeaderRef::<'_>::{fname}$|^rustic_core::repofile::packfile::PackHeaderRef::{fname}$")
        famh = [F0] + prog.closures_of(F0)
        # local helpers of the packfile module called from here
        for f_ in list(famh):
            for _, t_ in f_.calls():
                if "callee" in t_ and callee(t_).startswith("rustic_core::repofile::packfile::PackHeaderRef") and callee(t_) in prog.bodies and prog.bodies[callee(t_)] not in famh and callee(t_) != F0.path:
                    hb = prog.bodies[callee(t_)]
                    famh += [hb] + prog.closures_of(hb)
        lens_ = [(f_, bb) for f_ in famh for bb, t_ in f_.calls() if "callee" in t_ and callee(t_).endswith("packfile::HeaderEntry::length")]
        mul = []
        per_item = False
        for (f_, bb) in lens_:
            sites = [(f_, bb)]
            in_loop = any(bb in C.loop_blocks(f_, h, l) for (l, h) in C.back_edges(f_))
            if f_.is_closure():
                # where is the closure consumed? an iterating adaptor (fold/map/sum/..) evaluates it per blob, `Option::map_or`
                # (e.g. on `first()`) evaluates it once
                for P in famh:
                    for cb, ct in P.calls():
                        if "callee" not in ct:
                            continue
                        uses = any(d_[0] == "stmt" and d_[4][0] == "agg" and d_[4][1][0] == "closure" and d_[4][1][1] == f_.path for a_ in ct["args"] for d_ in P.defs().get(op_local(a_), []))
                        if uses:
                            sites.append((P, cb))
                            if re.search(r"Iterator::(fold|try_fold|map|for_each|try_for_each|sum|filter_map|flat_map|scan)$", callee_decl(ct)):
                                in_loop = True
            per_item = per_item or in_loop
            for (g_, gb) in sites:
                for bi, blk in enumerate(g_.blocks):
                    for s_ in blk["s"]:
                        if s_[0] == "=" and s_[2][0] == "bin" and s_[2][1] in ("Mul", "MulWithOverflow"):
                            for o in (s_[2][2], s_[2][3]):
                                if op_place(o) and gb in flow.backward_slice(g_, op_place(o))["call_sites"]:
                                    mul.append(where(g_, bi))
        okh = bool(lens_) and not mul and per_item
        rep.check("C08.h", f"{fname}/sums-each-entry", okh, where=F0.loc(), what=f"PackHeaderRef::{fname} adds HeaderEntry::length() of every blob" if okh else
                  f"PackHeaderRef::{fname} does not add up the length of each entry (length() multiplied at {sorted(set(mul))} / not evaluated per blob): sizes are wrong for packs mixing compressed and uncompressed blobs")


def reader_limits_rule(ctx, rep, R):
    """the reader accepts every header the writer can produce: a constant upper limit that PackHeader::from_file puts on the
    header length read from the trailer is at least COMP_OVERHEAD + MAX_COUNT * max(entry lengths) - the largest header the
    packer writes before it closes a pack. (Today there is no such limit; the rule guards any that is introduced.)"""
    prog = ctx.prog
    rep.rule(R, "constant limits on the header length in the reader are not below the largest header the writer produces")

    def cv(name):
        c = prog.consts.get(name)
        v = c.get("val") if c else None
        if not isinstance(v, int):
            raise AnchorError(f"constant {name} not evaluated")
        return v
    need = cv("rustic_core::repofile::packfile::constants::COMP_OVERHEAD") + cv("rustic_core::blob::packer::constants::MAX_COUNT") * max(
        cv("rustic_core::repofile::packfile::HeaderEntry::ENTRY_LEN"), cv("rustic_core::repofile::packfile::HeaderEntry::ENTRY_LEN_COMPRESSED"))
    FF = prog.find1(r"^rustic_core::repofile::packfile::PackHeader::from_file$")
    n = 0
    for sw in range(len(FF.blocks)):
        t = FF.term(sw)
        if t["k"] != "switch" or t["discr_ty"] != "bool":
            continue
        e = flow.expr_of(FF, t["discr"], sw)
        while e[0] == "un" and e[1] == "Not":
            e = e[2]
        if e[0] != "bin" or e[1] not in ("Gt", "Ge", "Lt", "Le"):
            continue
        a, b = e[2], e[3]
        k = other = None
        if b[0] == "const" and isinstance(b[1], int) and not isinstance(b[1], bool):
            k, other, op = b[1], a, e[1]
        elif a[0] == "const" and isinstance(a[1], int) and not isinstance(a[1], bool):
            k, other, op = a[1], b, {"Gt": "Lt", "Ge": "Le", "Lt": "Gt", "Le": "Ge"}[e[1]]
        if k is None or not re.search(r"PackHeaderLength|to_u32|from_binary", repr(other)):
            continue
        if op not in ("Gt", "Ge"):
            continue                      # a lower limit (e.g. at least the length field) cannot refuse a large header
        n += 1
        limit = k if op == "Gt" else k - 1          # largest accepted value
        ok = limit >= need
        rep.check(R, f"from_file/length-limit/{n}", ok, where=where(FF, sw), what=f"header lengths up to {limit} are accepted (largest header the writer produces: {need})" if ok else
                  f"PackHeader::from_file refuses header lengths above {limit}, but the packer writes headers of up to {need} bytes (MAX_COUNT blobs with compressed-entry length): such packs cannot be read back / re-indexed")
    rep.count(f"{R}: constant upper limits on the header length", n)


def _length_len(prog):
    cj = prog.consts.get("rustic_core::repofile::packfile::constants::LENGTH_LEN")
    v = cj["val"] if cj else None
    if not isinstance(v, int):
        raise AnchorError("constants::LENGTH_LEN not evaluated")
    return v


def framing_rule(ctx, rep, R, which=("from_file", "check_pack")):
    """trailer framing, decided with symbolic lengths (engine/symlen.py): the readers cut the pack's tail into exactly
    [encrypted header of the length stored in the length field][LENGTH_LEN bytes length field] on every path"""
    import symlen
    from symlen import Lin
    prog = ctx.prog
    LL = _length_len(prog)
    SINKS = [("lenfield", r"PackHeaderLength::from_binary$", 0, "blen"), ("decrypt", r"DecryptReadBackend(>)?::decrypt$", 1, "blen"),
             ("read_off", r"ReadBackend(>)?::read_partial$", 4, "ival"), ("read_len", r"ReadBackend(>)?::read_partial$", 5, "ival")]
    if "from_file" in which:
        FF = prog.find1(r"^rustic_core::repofile::packfile::PackHeader::from_file$")
        a = symlen.Analysis(FF, SINKS, arg_names={4: "pack_size"}).run()
        real = [Lin.sym(n) for bb, n in a.call_syms.items() if n.startswith("to_u32@")]
        rep.require(R, "from_file/length-field-read", len(real) == 1, where=FF.loc(), what="from_file decodes the header length from the length field once")
        lf = [v for (n, bb, v) in a.found if n == "lenfield"]
        rep.check(R, "from_file/length-field-is-LENGTH_LEN-bytes", bool(lf) and all(v == Lin(LL) for v in lf), where=FF.loc(),
                  what=f"the bytes decoded as the length field are exactly the last LENGTH_LEN = {LL} bytes that were read ({lf})")
        dec = [v for (n, bb, v) in a.found if n == "decrypt"]
        okd = bool(dec) and len(real) == 1 and all(v == real[0] for v in dec)
        rep.check(R, "from_file/decrypt-gets-header-only", okd, where=FF.loc(),
                  what="on every path (header already read / re-read) the bytes handed to decrypt have exactly the length stored in the length field" if okd else
                       f"the bytes handed to decrypt have length {dec}, not the header length read from the length field: the trailing length field or stray bytes are included / header bytes are cut (authentication of the header fails, repair-index drops the pack)")
        offs = {bb: v for (n, bb, v) in a.found if n == "read_off"}
        lens = {bb: v for (n, bb, v) in a.found if n == "read_len"}
        ends = sorted([(offs[bb] + lens[bb]) if offs.get(bb) is not None and lens.get(bb) is not None else None for bb in offs], key=repr)
        ps = Lin.sym("pack_size")
        oke = bool(ends) and all(e is not None and (e == ps or e == ps - Lin(LL)) for e in ends) and any(e == ps for e in ends)
        rep.check(R, "from_file/reads-the-tail", oke, where=FF.loc(), what=f"every ranged read ends at the end of the pack (or right before the length field): offset + length = {ends}" if oke else
                  f"a ranged read of the trailer does not end at pack_size / pack_size - LENGTH_LEN: offset + length = {ends}")
    if "check_pack" in which:
        CPK = prog.find1(r"^rustic_core::commands::check::check_pack$")
        # a per-blob helper of the check module that hands one of its parameters straight to decrypt counts as a decrypt sink
        # at its call site (`check_pack_blob(be, id, &blob, &raw_blob, collector)`)
        sinks_cp = list(SINKS)
        for _, t_ in CPK.calls():
            if "callee" in t_ and callee(t_).startswith("rustic_core::commands::check::") and callee(t_) in prog.bodies and callee(t_) != CPK.path:
                H_ = prog.bodies[callee(t_)]
                for _, th in H_.calls():
                    if "callee" in th and re.search(r"DecryptReadBackend(>)?::decrypt$", callee(th) + " " + callee_decl(th)) and len(th["args"]) > 1:
                        e_ = flow.expr_of(H_, th["args"][1])
                        if e_[0] == "path" and e_[1][0] == "arg" and not e_[2]:
                            sinks_cp.append(("decrypt", "^" + re.escape(callee(t_)) + "$", e_[1][1] - 1, "blen"))
        a = symlen.Analysis(CPK, sinks_cp).run()
        lf = [v for (n, bb, v) in a.found if n == "lenfield"]
        rep.check(R, "check_pack/length-field-is-LENGTH_LEN-bytes", bool(lf) and all(v == Lin(LL) for v in lf), where=CPK.loc(),
                  what=f"check_pack decodes the last LENGTH_LEN = {LL} bytes of the pack as the length field ({lf})")
        hdr = [Lin.sym(n) for bb, n in a.call_syms.items() if n.startswith("size@")]
        dec = [v for (n, bb, v) in sorted(a.found, key=lambda f: f[1]) if n == "decrypt"]
        okh = len(dec) >= 2 and len(hdr) >= 1 and dec[0] in hdr
        rep.check(R, "check_pack/header-slice", okh, where=CPK.loc(), what="the header handed to decrypt is exactly the header length computed from the index entry (compared with the length field before)" if okh else
                  f"check_pack hands decrypt a header slice of length {dec[:1]}, not the computed header length")
        okb = len(dec) >= 2 and all(v is not None and set(v.t) == {"field:location.length"} and v.c == 0 for v in dec[1:])
        rep.check(R, "check_pack/blob-slices", okb, where=CPK.loc(), what="every blob handed to decrypt is cut with exactly its indexed length")


def index_entry_rule(ctx, rep, R):
    """the pack's index entry is recorded as it was handed over: Indexer::add_with passes its `pack` argument to
    IndexFile::add without mutating it (dropping 'already seen' blobs from the entry makes index and pack header
    disagree: offset gaps, wrong computed pack size)"""
    prog = ctx.prog
    AW = prog.find1(r"^rustic_core::index::indexer::Indexer::<BE>::add_with$")
    adds = [(bb, t) for bb, t in AW.calls() if "callee" in t and callee(t).endswith("repofile::indexfile::IndexFile::add")]
    rep.require(R, "add_with/records", len(adds) == 1, where=AW.loc(), what="add_with records the pack in the index file being built")
    if len(adds) != 1:
        return
    bb, t = adds[0]
    root = flow.base_local(AW, op_place(t["args"][1])) if op_place(t["args"][1]) else None
    okroot = root == 2
    muts = []
    fam = [AW]
    for bi, blk in enumerate(AW.blocks):
        for s_ in blk["s"]:
            if s_[0] == "=" and s_[2][0] == "refmut" and s_[2][1][0] == 2:
                muts.append(where(AW, bi))
            if s_[0] == "=" and s_[1][0] == 2 and len(s_[1]) > 1:
                muts.append(where(AW, bi))
    rep.check(R, "add_with/entry-unmodified", okroot and not muts, where=where(AW, bb),
              what="the IndexPack handed to add_with is stored unmodified" if okroot and not muts else
                   f"add_with modifies the pack's index entry before storing it (mutable access at {sorted(set(muts))}): the index no longer lists exactly the pack's blobs")


def _agg_fields(prog, adt):
    return [f[0] for f in prog.adt(adt)["variants"][0]["fields"]]


def _model(interp, env, t, c, args):
    # Deref of newtype ids, NonZero::get / new: keep values opaque but known
    if re.search(r"NonZero<.*>::get$|NonZeroU32::get$|num::NonZero::<u32>::get$", c):
        return 7
    if re.search(r"as std::ops::Deref>::deref$|as std::convert::From<.*>>::from$|Into<.*>>::into$|as std::clone::Clone>::clone$", c):
        return args[0] if args else findom.UNKNOWN
    return NotImplemented
