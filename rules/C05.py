"""C05 - Check is sound and complete with respect to restorability.

C05.a severity table: every construction of a CheckError variant is handed to add_error, except the three documented
  warnings (PackNotReferenced, HotDataPack, HotPackNotReferenced); no constructed CheckError is dropped.
C05.b check_pack verifies every layer, each failing comparison leading to add_error: size vs index, hash(data) vs pack
  id, trailer length vs computed header size, decrypted header vs sorted index blobs, and per blob decrypt,
  decompressed length, hash(plaintext) vs blob id; the cursor consumes exactly the indexed length per blob.
C05.c read-data covers what restore reads: check_trees records the pack of every tree/data blob it resolves; the read
  loop iterates index packs filtered only by missing packs, used packs and the read-data subset; a tree-walk error
  becomes ErrorCheckingTrees.
C05.d index/listing comparison: check_packs_list has error arms for 'indexed but absent' and 'size differs'.
C05.b also: the size and hash comparisons dominate every slicing/decrypt of the pack bytes (a truncated or replaced pack is
  reported, not tripped over).
C05.e check resolves blobs in an index fed like restore's: only unmarked packs (shared with C17.c/C10.a).
C05.f unreadable repository files are not skipped: no iterator over repository reads drops Err items (flatten,
  filter_map(Result::ok)), and every loop over such items propagates the Err case (R-ERRITER).
C05.g check_pack cuts the pack into length field, header and blobs with exactly the recorded lengths (symbolic lengths,
  shared with C08.f).
C05.i what check accepts, restore accepts (name validator): backup stores every name the platform allows and check does not
  look at names, so the reader-side validator (blob::tree::check_node_name) may refuse a name only for its PATH STRUCTURE
  (not a single normal component) - any byte-level guard may only reject '/' or NUL, the two bytes no unix file name contains.
"""
import re
from rules.common import *

TECHNIQUE = ('static analysis over rustc MIR: severity table of CheckError constructions, layer-by-layer control dependence of check_pack (through helpers), truth table of the read-data pack filter, symbolic lengths of the trailer slices, read-error propagation and strict-reader reachability on the call graph')
LEVEL = "other"
EXPLANATION = (
    "Table and must-call rules over the MIR of commands/check.rs: which collector method receives each CheckError "
    "variant, that each verification layer of check_pack exists with its failing edge leading to add_error, and that the "
    "read-data loop covers the packs the tree walk touched. Decides that the verification layers exist and report as "
    "errors - not that they are sufficient for restorability (the equivalence itself is a runtime statement).")
NOT_DECIDED = ["both directions of 'check ok <=> every snapshot restores' (runtime)", "whether the verified layers are sufficient for restorability"]

WARN_OK = {"PackNotReferenced", "HotDataPack", "HotPackNotReferenced"}


def run(ctx, rep):
    prog = ctx.prog
    wiring_rule(ctx, rep, "C05")
    for r, tx in (("C05.a", "severity table of CheckError constructions"), ("C05.b", "check_pack verifies every layer"),
                  ("C05.c", "read-data covers the packs the tree walk uses"), ("C05.d", "index vs listing comparison has error arms"),
                  ("C05.e", "check's lookup index is fed like restore's (unmarked packs only)"), ("C05.f", "unreadable repository files are not skipped")):
        rep.rule(r, tx)
    rep.rule("C05.i", "the name validator refuses only names that backup cannot have stored")
    name_validator_rule(ctx, rep, "C05.i")
    variants = prog.variants("commands::check::CheckError")
    rep.floor("C05.a", "CheckError variants", len(variants), 30)
    ADD_ERR = "rustic_core::commands::check::CheckResultsCollector::add_error"
    ADD_WARN = "rustic_core::commands::check::CheckResultsCollector::add_warn"
    cons = []
    for b in prog.by_crate["rustic_core"]:
        if "commands::check" not in b.path:
            continue
        if (b.impl or {}).get("trait"):
            continue
        for bi, blk in enumerate(b.blocks):
            for s in blk["s"]:
                if s[0] == "=" and s[2][0] == "agg" and s[2][1][0] == "adt" and s[2][1][1].endswith("commands::check::CheckError"):
                    cons.append((b, bi, s))
    rep.floor("C05.a", "CheckError construction sites", len(cons), 20)
    seen_variants = set()
    ordn = {}
    for (b, bi, s) in cons:
        var = s[2][1][2]
        seen_variants.add(var)
        aliases, consumers, ret = flow.forward_aliases(b, s[1][0])
        sinks = [callee(ct) for (cb, ct, ai) in consumers]
        to_err = ADD_ERR in sinks
        to_warn = ADD_WARN in sinks
        k = (fn_key(b), var)
        ordn[k] = ordn.get(k, 0) + 1
        if var in WARN_OK:
            ok = to_err or to_warn
            what = f"{var} (documented warning) is reported via {'add_error' if to_err else 'add_warn' if to_warn else 'NOTHING'}"
        else:
            ok = to_err
            what = (f"{var} is reported with add_error" if ok else
                    f"{var} indicates missing or altered data but is {'only a WARNING (add_warn): check would report success' if to_warn else 'constructed and not reported'}")
        rep.check("C05.a", f"{fn_key(b)}/{var}/{ordn[k]}", ok, where=span_str(s[3]), what=what)
    # ---- C05.b -------------------------------------------------------------------------------------
    CP = prog.find1(r"^rustic_core::commands::check::check_pack$")

    def err_var_blocks(var):
        return [bi for (b, bi, s) in cons if b.path == CP.path and s[2][1][2] == var]
    # private helpers of the check module that check_pack calls directly (a per-blob verification extracted into a fn)
    HELPERS = {}
    for bb_, t_ in CP.calls():
        if "callee" in t_ and callee(t_).startswith("rustic_core::commands::check::") and callee(t_) in prog.bodies and callee(t_) != CP.path:
            HELPERS.setdefault(callee(t_), []).append(bb_)

    def err_var_sites(var):
        """[(body, block, [call-site blocks in check_pack])] of the constructions of CheckError::var in check_pack or a direct helper"""
        out = []
        for (b, bi, s) in cons:
            if s[2][1][2] != var:
                continue
            if b.path == CP.path:
                out.append((CP, bi, []))
            elif b.path in HELPERS:
                out.append((b, bi, HELPERS[b.path]))
        return out

    LAYERS = []

    def layer(var, cond_rx, desc):
        LAYERS.append((var, cond_rx, desc))

    def cond_kind(e):
        txt = repr(e)
        for (var, cond_rx, desc) in LAYERS:
            if all(re.search(rx, txt) for rx in cond_rx):
                return "layer:" + var
        if e[0] == "discr":
            inner = repr(e[1])
            if "ops::Try>::branch" in inner:
                return "try"
            if "Iterator>::next" in inner or "iter::Iterator::next" in inner:
                return "loop"
            if "uncompressed_length" in inner:
                return "has-uncompressed-length"
        return "other"

    def check_layers():
        for (var, cond_rx, desc) in LAYERS:
            sites_ = err_var_sites(var)
            ok = False
            extra = []
            for (B, bi, callers) in sites_:
                for (sw, succ) in C.transitive_control_deps(B, bi):
                    e = flow.expr_of(B, B.term(sw)["discr"])
                    k = cond_kind(e)
                    if k == "layer:" + var:
                        ok = True
                    elif k == "other":
                        extra.append(where(B, sw) if B.term(sw).get("span") else f"bb{sw}")
                for cb in callers:
                    for (sw, succ) in C.transitive_control_deps(CP, cb):
                        if cond_kind(flow.expr_of(CP, CP.term(sw)["discr"])) == "other":
                            extra.append(where(CP, sw) if CP.term(sw).get("span") else f"bb{sw}")
            rep.check("C05.b", f"layer/{var}", ok and bool(sites_), where=CP.loc(), what=f"check_pack: {desc} -> {var} reported on mismatch" if ok else f"check_pack no longer compares {desc} (no {var} on mismatch)")
            rep.check("C05.b", f"unconditional/{var}", not extra, where=CP.loc(),
                      what=f"check_pack: the {var} verification depends only on the earlier layers having passed" if not extra else
                           f"check_pack: the {var} verification is additionally guarded by an unrelated condition at {sorted(set(extra))}: it is skipped for some packs/blobs")

    layer("PackSizeMismatch", [r"'Ne'|'Eq'", r"::len", r"pack_size"], "length of the data read vs the indexed pack size")
    layer("PackHashMismatch", [r"PartialEq|'Ne'|'Eq'", r"crypto::hasher::hash", r"PackId"], "hash(pack bytes) vs the pack id")
    layer("PackHeaderLengthMismatch", [r"'Ne'|'Eq'", r"PackHeaderLength::to_u32|from_binary", r"PackHeaderRef::size|from_index_pack"], "trailer length vs the header size computed from the index")
    layer("PackHeaderMismatchIndex", [r"PartialEq|'Ne'|'Eq'", r"into_blobs"], "decrypted pack header vs the sorted index blobs")
    layer("PackBlobLengthMismatch", [r"'Ne'|'Eq'", r"::len", r"NonZero.*::get|uncompressed_length"], "decompressed blob length vs the recorded uncompressed length")
    layer("PackBlobHashMismatch", [r"PartialEq|'Ne'|'Eq'", r"crypto::hasher::hash", r"BlobId"], "hash(blob plaintext) vs the blob id")
    check_layers()
    # every blob is decrypted (authenticated) and the cursor advances by the indexed length
    dec = [bb for bb, t in CP.calls() if "callee" in t and re.search(r"DecryptReadBackend(>)?::decrypt$", callee(t) + " " + callee_decl(t))]
    # ... or in a per-blob helper called from check_pack: the call of such a helper is the blob's decrypt site
    for hp_, sites_ in HELPERS.items():
        if any("callee" in t_ and re.search(r"DecryptReadBackend(>)?::decrypt$", callee(t_) + " " + callee_decl(t_)) for _, t_ in prog.bodies[hp_].calls()):
            dec += sites_
    rep.check("C05.b", "decrypts-header-and-blobs", len(dec) >= 2, where=CP.loc(), what=f"check_pack decrypts (authenticates) the header and every blob ({len(dec)} decrypt sites)")
    split = []
    for bb, t in CP.calls():
        if "callee" in t and callee(t).endswith("bytes::Bytes::split_to"):
            sl = flow.backward_slice(CP, op_place(t["args"][1])) if op_place(t["args"][1]) else {"fields": set()}
            split.append("length" in sl["fields"] and "location" in sl["fields"])
    rep.check("C05.b", "cursor", split == [True], where=CP.loc(), what="the blob cursor consumes exactly blob.location.length bytes per indexed blob (split_to)")
    # size and hash of the pack are verified before any byte of it is sliced or decrypted: a truncated or replaced pack
    # is reported through the collector instead of tripping a slice bound
    gate = {}
    for sw in range(len(CP.blocks)):
        t = CP.term(sw)
        if t["k"] == "switch":
            k = cond_kind(flow.expr_of(CP, t["discr"]))
            if k in ("layer:PackSizeMismatch", "layer:PackHashMismatch"):
                gate.setdefault(k[6:], []).append(sw)
    users = [(bb, callee(t)) for bb, t in CP.calls() if "callee" in t and (re.search(r"bytes::Bytes::split_(to|off)$", callee(t)) or bb in dec)]
    for var in ("PackSizeMismatch", "PackHashMismatch"):
        sws = gate.get(var, [])
        bad = [where(CP, bb) for bb, c in users if not any(C.dominates(CP, sw, bb) for sw in sws)]
        # and the failing edge of the gate cannot reach a user
        for sw in sws:
            errb = err_var_blocks(var)
            for x in CP.succ(sw):
                if any(e in CP.reachable_from(x) for e in errb) and not all(e in CP.reachable_from(y) for y in CP.succ(sw) for e in errb):
                    bad += [where(CP, bb) for bb, c in users if bb in CP.reachable_from(x)]
        rep.check("C05.b", f"gate-before-slicing/{var}", bool(sws) and bool(users) and not bad, where=CP.loc(),
                  what=f"check_pack: the {var} comparison dominates every split/decrypt of the pack bytes and its failing edge returns" if (sws and not bad) else
                       f"check_pack slices or decrypts the pack bytes at {sorted(set(bad))} before/without the {var} comparison: a truncated or substituted pack trips a bound instead of being reported")
    # ---- C05.c -------------------------------------------------------------------------------------
    CR = prog.find1(r"^rustic_core::commands::check::check_repository$")
    # tree-walk error -> ErrorCheckingTrees
    has = any(b.path.startswith(CR.path) and s[2][1][2] == "ErrorCheckingTrees" for (b, bi, s) in cons)
    rep.check("C05.c", "tree-walk-error-reported", has, where=CR.loc(), what="an error of the tree walk is converted into ErrorCheckingTrees (not dropped)")
    # filters of the read-data pack set: exactly two `filter` adaptors + read_data_subset.apply
    filt = [(bb, t) for bb, t in CR.calls() if "callee" in t and re.search(r"Iterator::filter$", callee_decl(t))]
    appl = [bb for bb, t in CR.calls() if "callee" in t and callee(t).endswith("commands::check::ReadSubsetOption::apply")]
    fc = []
    for bb, t in filt:
        for a in t["args"][1:]:
            e = flow.expr_of(CR, a)
            fc.append(e)
    # the filter predicates, whatever their number and spelling: evaluated as a truth table over (listed as missing, used by a
    # checked tree) the conjunction of all filter closures keeps a pack exactly when it is not missing and used
    fcl = []
    for bb, t in filt:
        for a_ in t["args"][1:]:
            l_ = op_local(a_)
            for _ in range(5):
                ds_ = CR.defs().get(l_, [])
                hit = [d_ for d_ in ds_ if d_[0] == "stmt" and d_[4][0] == "agg" and d_[4][1][0] == "closure" and d_[4][1][1] in prog.bodies]
                if hit:
                    fcl.append(prog.bodies[hit[0][4][1][1]])
                    break
                # a closure bound to a name first (`let is_present_and_used = |p| ..; .filter(is_present_and_used)`): follow the copy
                cp = [d_ for d_ in ds_ if d_[0] == "stmt" and d_[4][0] == "use" and op_local(d_[4][1]) is not None]
                if len(cp) != 1:
                    break
                l_ = op_local(cp[0][4][1])
    table = {}
    for ck in (False, True):
        for cu in (False, True):
            def ev(b_, e, ck=ck, cu=cu):
                if isinstance(e, tuple) and e and e[0] == "call":
                    if re.search(r"::contains_key$", e[1]):
                        return ck
                    if re.search(r"::contains$", e[1]):
                        return cu
                return None
            keep = True
            for c_ in fcl:
                vals = bool_result_under(c_, ev)
                if vals == {True}:
                    continue
                if vals == {False}:
                    keep = False if keep is not None else None
                else:
                    keep = None if keep is not False else False
            table[(ck, cu)] = keep
    want = {(ck, cu): ((not ck) and cu) for ck in (False, True) for cu in (False, True)}
    okf = bool(fcl) and len(fcl) == len(filt) and table == want
    # no other adaptor between the index and the subset selection drops packs
    drops = []
    if len(appl) == 1:
        ap = CR.term(appl[0])
        pl = op_place(ap["args"][1]) if len(ap["args"]) > 1 else None
        if pl:
            drops = sorted(c for c in flow.backward_slice(CR, pl)["calls"] if re.search(r"Iterator::(take|skip|step_by|take_while|skip_while|filter_map|flat_map|map_while|scan)$", c))
    rep.check("C05.c", "read-data-filters", okf and len(appl) == 1 and not drops, where=CR.loc(),
              what=f"the packs read are the index packs kept exactly when 'not listed missing' and 'used by a checked tree' (truth table of {len(fcl)} filter closure(s)), then the read-data subset" if okf and not drops else
                   f"the set of packs whose data is read is not exactly 'not missing and used' (truth table (missing, used) -> keep: {sorted(table.items())}; other dropping adaptors: {drops})")
    # check_trees inserts the pack of every resolved blob
    CT = prog.find1(r"^rustic_core::commands::check::check_trees$")
    fam = [CT] + prog.closures_of(CT)
    gets = 0
    ins = 0
    for f in fam:
        for bb, t in f.calls():
            if "callee" in t and re.search(r"ReadIndex(>)?::get_(data|tree|id)$", callee(t) + " " + callee_decl(t)):
                gets += 1
            if "callee" in t and re.search(r"(BTreeSet|HashSet)<.*>::insert$|::insert$", callee(t)) and "Set" in callee(t):
                sl = flow.backward_slice(f, op_place(t["args"][1])) if len(t["args"]) > 1 and op_place(t["args"][1]) else {"fields": set()}
                if "pack" in sl["fields"]:
                    ins += 1
    rep.check("C05.c", "used-packs-recorded", gets >= 2 and ins >= gets, where=CT.loc(), what=f"check_trees records entry.pack for every index lookup it resolves ({gets} lookups, {ins} pack insertions)")
    # every file node's chunks and every directory's subtree are looked up: the lookups depend on nothing but the node
    # kind, the loop over nodes/chunks and the presence of the content/subtree itself
    from rules.C18 import cd_conditions

    def allowed(e):
        x = e
        while x[0] == "un" and x[1] == "Not":
            x = x[2]
        txt = repr(x)
        if x[0] == "discr":
            return any(k in txt for k in ("node_type", "Iterator>::next", "iter::Iterator::next", "ops::Try>::branch", "subtree", "content", "transpose", "Enumerate", "get_data", "get_tree"))
        if x[0] == "call" and re.search(r"::is_null$|::is_none$|::is_some$", x[1]):
            return True
        return False

    for f in fam:
        for bb, t in f.calls():
            if "callee" in t and re.search(r"ReadIndex(>)?::get_(data|tree)$", callee(t) + " " + callee_decl(t)):
                kind = "data" if re.search(r"get_data$", callee(t) + " " + callee_decl(t)) else "tree"
                chain = [(f, bb)]
                # if the lookup sits in a closure, continue with the site in check_trees that consumes the closure
                cur = f
                extra = []
                hops = 0
                while cur is not None and hops < 4:
                    site = chain[-1][1]
                    extra += [(cur, c) for c in cd_conditions(cur, site)]
                    if not cur.is_closure():
                        break
                    parent = prog.bodies.get(cur.parent) if getattr(cur, "parent", None) else None
                    if parent is None:
                        parents = [g for g in fam if any(s_[0] == "=" and s_[2][0] == "agg" and s_[2][1][0] == "closure" and s_[2][1][1] == cur.path for blk in g.blocks for s_ in blk["s"])]
                        parent = parents[0] if parents else None
                    if parent is None:
                        break
                    cl_locals = [s_[1][0] for blk in parent.blocks for s_ in blk["s"] if s_[0] == "=" and s_[2][0] == "agg" and s_[2][1][0] == "closure" and s_[2][1][1] == cur.path]
                    cons_sites = [cb for cb, ct in parent.calls() if any(op_local(a) in cl_locals for a in ct["args"])]
                    if not cons_sites:
                        break
                    chain.append((parent, cons_sites[0]))
                    cur = parent
                    hops += 1
                bad = [(g, c) for (g, c) in extra if not allowed(c[0])]
                rep.check("C05.c", f"lookup-unconditional/{kind}", not bad, where=where(f, bb),
                          what=f"check_trees looks up every {'chunk of every file node' if kind == 'data' else 'subtree of every directory node'} (the lookup depends only on the node kind and the presence of the {'content' if kind == 'data' else 'subtree'})" if not bad else
                               f"check_trees skips the index lookup of {'file chunks' if kind == 'data' else 'subtrees'} under an extra condition ({[str(c[0])[:90] for g, c in bad][:2]}): blobs of such nodes are neither verified nor read by --read-data")
    # ---- C05.e: check looks blobs up in the same index contents as restore does; unreadable files are errors ------
    from rules import C17, errprop
    C17.check_extend_sites(ctx, rep, "C05.e")
    errprop.run_iter(ctx, rep, "C05.f")
    errprop.run_strict_readers(ctx, rep, "C05.f", r"^rustic_core::repository::Repository::<S>::check(_with_trees)?$|^rustic_core::commands::check::check_repository$", "check")
    from rules import C08
    rep.rule("C05.g", "check_pack cuts the pack into length field, header and blobs with exactly the recorded lengths (symbolic lengths)")
    C08.framing_rule(ctx, rep, "C05.g", which=("check_pack",))
    # ---- C05.d -------------------------------------------------------------------------------------
    for fn, need in (("check_packs_list", {"NoPack", "PackSizeMismatchIndex"}), ("check_packs_list_hot", {"NoHotPack", "HotPackSizeMismatchIndex"})):
        F = prog.find1(rf"^rustic_core::commands::check::{fn}$")
        have = {s[2][1][2] for (b, bi, s) in cons if b.path == F.path or b.path.startswith(F.path + "::")}
        rep.check("C05.d", fn, need <= have, where=F.loc(), what=f"{fn} reports {sorted(need)} ('indexed but absent', 'size differs'): found {sorted(have)}")


STRUCT_API = re.compile(r"Components(<'\w+>)? as std::iter::Iterator>::next$|std::path::Path::(new|components|is_absolute|has_root|file_name|parent|is_relative)$|OsStr::(is_empty|len)$|Iterator>::(next|count)$|Option::<T>::(is_some|is_none)$")


def name_validator_rule(ctx, rep, R):
    import cfg as C
    prog = ctx.prog
    V = prog.find1(r"^rustic_core::blob::tree::check_node_name$")
    fam = [V] + prog.closures_of(V)
    oks = [bi for bi, blk in enumerate(V.blocks) for s_ in blk["s"] if s_[0] == "=" and s_[1] == [0] and s_[2][0] == "agg" and s_[2][1][0] == "adt" and s_[2][1][2] == "Ok"]
    rep.require(R, "check_node_name/ok-exit", len(oks) >= 1, where=V.loc(), what="check_node_name has an accepting exit")
    nonstruct = []
    n_guard = 0
    for ob in oks:
        for (sw, succ) in C.transitive_control_deps(V, ob):
            t = V.term(sw)
            if t.get("k") != "switch" and "discr" not in t:
                continue
            n_guard += 1
            e = flow.expr_of(V, t["discr"], sw)
            _, calls = flow.expr_mentions(e)
            if any(not STRUCT_API.search(c) for c in calls):
                nonstruct.append((sw, sorted(c for c in calls if not STRUCT_API.search(c))))
    rep.floor(R, "guards in front of the accepting exit", n_guard, 1)
    # bytes a content-level guard may test: '/' (47) and NUL (0) cannot occur in a stored unix name
    bad = set()
    if nonstruct:
        for b in fam:
            for bi, blk in enumerate(b.blocks):
                t = blk["t"]
                if "targets" in t and t.get("discr_ty") in ("u8", "char", "u16", "u32"):
                    for v, _ in t["targets"]:
                        if int(v) not in (0, 47):
                            bad.add(int(v))
                for s_ in blk["s"]:
                    if s_[0] == "=" and s_[2][0] == "bin" and s_[2][1] in ("Eq", "Ne"):
                        for o in (s_[2][2], s_[2][3]):
                            if o[0] == "k" and o[1].get("ty") in ("u8", "char") and isinstance(o[1].get("v"), int) and o[1]["v"] not in (0, 47):
                                bad.add(o[1]["v"])
        if not bad and not any(True for _ in nonstruct if False):
            # a content-level guard whose tested bytes could not be identified: undecided shapes are reported, not assumed fine
            ident = any("targets" in blk["t"] and blk["t"].get("discr_ty") in ("u8", "char") for b in fam for blk in b.blocks)
            if not ident:
                bad.add(-1)
    ok = not nonstruct or not bad
    rep.check(R, "check_node_name/refuses-only-by-structure", ok, where=where(V, nonstruct[0][0]) if nonstruct else V.loc(),
              what="check_node_name refuses a name only for its path structure (every guard in front of Ok tests the component iterator)" + (" or for the bytes '/' and NUL" if nonstruct else "") if ok else
                   f"check_node_name refuses names by content: a guard through {nonstruct[0][1]} tests byte(s) {sorted(chr(b) if 32 <= b < 127 else b for b in bad)} that unix file names may contain - backup stores such names and check accepts them, but ls / dump / restore of the snapshot abort")
