"""C01 - Backup followed by restore reproduces the source exactly.

Byte-for-byte equality is a runtime statement; decided are structural necessary conditions, each of which loses or
corrupts data for some input when broken:
C01.a typed blob identity in the backup pipeline's shared indexer (R-TYPEDID).
C01.b every chunker variant's size parameters are validated (shared with C18.e).
C01.c the filename escape/unescape tables are inverse: every escape the writer emits is decoded by the reader to the
  byte it stands for (exhaustive over the writer's arms + the \\xNN form).
C01.d blob encode/decode pairing: encrypt_data records an uncompressed length exactly on the path that compresses, and
  read_encrypted_from_partial decompresses exactly when one is recorded.
C01.e offsets: file offsets advance by each blob's length (restore plan) and pack offsets by each appended length.
C01.g (also) metadata is applied to every restored node completely and to directories after their content (C14.i).
C01.g restore reuses existing destination content only for exact-size regular files and keeps read-back sources
  attached to the request they were verified for (C14.f, C14.h).
C01.h backup-side metadata wiring (see backup_metadata_rule): mode, mtime (untruncated), uid/gid/user/group, inode, links,
  size each come from the matching fs::Metadata accessor; symlink targets from read_link(entry.path()) on the is_symlink edge.
C01.k symlink targets are read only through NodeType::to_link(): the `linktarget` field is the LOSSY (UTF-8) form, the exact
  bytes of a non-UTF-8 target live in `linktarget_raw`; outside backend::node (to_link, the constructors, the derived codecs)
  nothing reads the lossy field, and restore's create_special hands symlink() the result of to_link().
C01.i ranged reads (OpenFile::read_at): per loop round the appended bytes = min(len(blob) - offset, remaining), then
  offset := 0, index += 1, remaining -= appended (symbolic one-iteration summary).
C01.f restore writes each blob at the offset recorded for it, taken from the read of the matching range.
"""
import re
from rules.common import *

TECHNIQUE = ('static analysis over rustc MIR (rustc_private driver): symbolic byte-length tracking of ranged reads (symlen), provenance of stored metadata fields, interval analysis of chunker arithmetic, call-graph who-may-write rules shared with C14/C08; decides structural necessary conditions, not the round trip')
LEVEL = "other"
EXPLANATION = (
    "Writer/reader table agreement (extracted from the match arms in MIR), Option-discriminant pairing of the compress/"
    "decompress paths, typed-key and offset-accumulation rules across archiver, packer, decrypt backend, node codec and "
    "restore. These are necessary conditions for an exact round trip; equality of restored bytes and metadata for all "
    "trees and configurations is not decided.")
NOT_DECIDED = ["equality of restored bytes, names, types, link targets, permissions and times with the source (runtime)"]


def run(ctx, rep):
    prog = ctx.prog
    wiring_rule(ctx, rep, "C01")
    for r, tx in (("C01.a", "typed blob identity in the shared indexer"), ("C01.b", "chunker parameters validated for every variant"), ("C01.c", "filename escape tables are inverse"),
                  ("C01.d", "compress/decompress pairing"), ("C01.e", "offsets advance by the appended/processed length"), ("C01.f", "restore writes blobs at their recorded offsets"),
                  ("C01.g", "restore reuses existing destination bytes only where they are known to match")):
        rep.rule(r, tx)
    from rules import typedid, C18, C14, C08
    from rules.C10 import borrow
    typedid.run(ctx, rep, "C01.a", owners=["index::indexer::Indexer.indexed"])
    n = borrow(rep, ctx, C18, lambda o: o.rule == "C18.e", "C01.b")
    rep.floor("C01.b", "borrowed obligations", n, 1)
    n = borrow(rep, ctx, C14, lambda o: o.rule == "C14.g", "C01.e")
    n += borrow(rep, ctx, C08, lambda o: o.rule == "C08.c", "C01.e")
    rep.floor("C01.e", "borrowed obligations", n, 4)
    # restore-side necessary conditions for byte equality (decided in C14)
    n = borrow(rep, ctx, C14, lambda o: o.rule in ("C14.f", "C14.h", "C14.i"), "C01.g")
    rep.floor("C01.g", "borrowed obligations", n, 4)
    rep.rule("C01.k", "symlink targets are read through NodeType::to_link() only (non-UTF-8 targets survive)")
    lossy_link_rule(ctx, rep, "C01.k")
    rep.rule("C01.i", "ranged reads: one-iteration summary of OpenFile::read_at (symbolic lengths)")
    ranged_read_rule(ctx, rep, "C01.i")
    rep.rule("C01.h", "backup records each metadata field from the matching file-system accessor; symlink targets via read_link")
    backup_metadata_rule(ctx, rep, "C01.h")
    # ---- C01.c -------------------------------------------------------------------------------------
    ESC = prog.find1(r"^rustic_core::backend::node::escape_filename$")
    UNE = prog.find1(r"^rustic_core::backend::node::unescape_filename$")
    writer = {}
    for c in prog.closures_of(ESC):
        for bi in range(len(c.blocks)):
            t = c.term(bi)
            if t["k"] == "switch" and t["discr_ty"] == "char":
                for v, x in t["targets"]:
                    s = _first_const_str_call(c, x, r"String::push_str$")
                    if s is not None:
                        writer[int(v)] = s
    rep.floor("C01.c", "writer escape arms", len(writer), 6)
    reader = {}
    for bi in range(len(UNE.blocks)):
        t = UNE.term(bi)
        if t["k"] == "switch" and t["discr_ty"] == "char" and len(t["targets"]) >= 8:
            for v, x in t["targets"]:
                b_ = _first_const_int_call(UNE, x, r"Vec::<T, A>::push$")
                if b_ is not None:
                    reader[int(v)] = b_
                else:
                    reader.setdefault(int(v), "complex")
    rep.floor("C01.c", "reader escape arms", len(reader), 12)
    for ch, esc in sorted(writer.items()):
        ok = len(esc) == 2 and esc[0] == "\\" and reader.get(ord(esc[1])) == ch
        rep.check("C01.c", f"escape/{ch}", ok, where=ESC.loc(), what=f"byte {ch} is written as {esc!r} and read back as {reader.get(ord(esc[1])) if len(esc) == 2 else None}")
    # the \xNN form: writer emits it, reader has an 'x' arm
    wx = any(s[0] == "=" and False for blk in ESC.blocks for s in blk["s"]) or any(isinstance(v, dict) and "\\x" in v.get("str", "") for blk in ESC.blocks for s in blk["s"] if s[0] == "=" and s[2][0] == "use" and s[2][1][0] == "k" for v in [s[2][1][1].get("v")]) or \
        any(isinstance(v, dict) and "\\x" in str(v.get("str", "")) for p in ESC.promoted for blk in p.blocks for s in blk["s"] if s[0] == "=" and s[2][0] == "use" and s[2][1][0] == "k" for v in [s[2][1][1].get("v")])
    rep.check("C01.c", "hex-form", reader.get(ord("x")) == "complex", where=UNE.loc(), what="the reader decodes the \\xNN form the writer uses for bytes that are not valid UTF-8")
    # ---- C01.d -------------------------------------------------------------------------------------
    ED = prog.find1(r"^rustic_core::backend::decrypt::DecryptBackend::<C>::encrypt_data$")
    enc = [bb for bb, t in ED.calls() if "callee" in t and callee(t).endswith("encode_all")]
    nz = [bb for bb, t in ED.calls() if "callee" in t and re.search(r"NonZero.*::new$", callee(t))]
    none_assign = [bi for bi, blk in enumerate(ED.blocks) for s in blk["s"] if s[0] == "=" and s[2][0] == "agg" and s[2][1][0] == "adt" and s[2][1][1].endswith("option::Option") and s[2][1][2] == "None" and "NonZero" in ED.locals[s[1][0]]]
    okd = len(enc) == 1 and len(nz) == 1 and len(none_assign) >= 1
    if okd:
        # same arm: Some(level) arm contains both encode_all and NonZero::new; the None arm contains neither
        okd = C.can_reach(ED, enc[0], nz[0]) or C.can_reach(ED, nz[0], enc[0])
        okd = okd and not any(C.can_reach(ED, n_, enc[0]) or C.can_reach(ED, enc[0], n_) for n_ in none_assign)
    rep.check("C01.d", "encode-records-length", okd, where=ED.loc(), what="encrypt_data records Some(uncompressed length) exactly on the path that compresses, None otherwise")
    RP = prog.find1(r"^rustic_core::backend::decrypt::DecryptReadBackend::read_encrypted_from_partial$")
    dec = [bb for bb, t in RP.calls() if "callee" in t and callee(t).endswith("decode_all")]
    okr = False
    for d in dec:
        for (sw, succ) in C.transitive_control_deps(RP, d):
            e = flow.expr_of(RP, RP.term(sw)["discr"])
            if e[0] == "discr" and e[1][0] == "path" and e[1][1] == ("arg", 3):
                v = [vv for vv, x in RP.term(sw)["targets"] if x == succ]
                okr = bool(v) and v[0] == "1"
    rep.check("C01.d", "decode-iff-length", len(dec) == 1 and okr, where=RP.loc(), what="read_encrypted_from_partial decompresses exactly when an uncompressed length is recorded")
    # the other direction as a must-pass rule: once a length is recorded (Some edge), no successful return avoids decode_all
    oka = False
    if len(dec) == 1:
        okret = [bi for bi, blk in enumerate(RP.blocks) for s_ in blk["s"] if s_[0] == "=" and s_[1] == [0] and s_[2][0] == "agg" and s_[2][1][0] == "adt" and s_[2][1][2] == "Ok"]
        for sw in range(len(RP.blocks)):
            tt = RP.term(sw)
            if tt["k"] != "switch":
                continue
            e = flow.expr_of(RP, tt["discr"], sw)
            if e[0] == "path" and e[1][0] == "local" and not e[2]:
                for s_ in RP.blocks[sw]["s"]:
                    if s_[0] == "=" and s_[1] == [e[1][1]] and s_[2][0] == "discr":
                        e = ("discr", flow.place_expr(RP, s_[2][1]))
            if e[0] == "discr" and e[1][0] == "path" and e[1][1] == ("arg", 3):
                some = [x for v, x in tt["targets"] if v == "1"] or [tt["otherwise"]]
                reach = RP.reachable_from(some[0], cut_blocks=[dec[0]])
                oka = bool(okret) and not any(r in reach for r in okret)
    rep.check("C01.d", "length-recorded-implies-decode", oka, where=RP.loc(), what="whenever an uncompressed length is recorded, the data is decompressed before it is returned (no successful return avoids decode_all)" if oka else
              "data with a recorded uncompressed length can be returned WITHOUT being decompressed on some path")
    # ---- C01.f -------------------------------------------------------------------------------------
    RC = prog.find1(r"^rustic_core::commands::restore::restore_contents$")
    fam = [RC] + prog.closures_of(RC)
    wr = [(f, bb, t) for f in fam for bb, t in f.calls() if "callee" in t and callee(t).endswith("LocalDestination::write_at")]
    okf = len(wr) == 1
    if okf:
        f, bb, t = wr[0]
        # the offset and the file (path index) of a write belong to the same (file_idx, file_start) pair of the plan: both derive
        # from the same iterated item (one Iterator::next call site, in this body or - through the closure's captures - in the
        # body that spawns it). Decided from provenance, not from variable names.
        def provenance(F, operand):
            """(call sites of Iterator::next the operand derives from, body they are in)"""
            pl = op_place(operand)
            if pl is None:
                return set()
            sl = flow.backward_slice(F, pl)
            out = {(F.path, cs) for cs in sl["call_sites"] if "callee" in F.term(cs) and re.search(r"Iterator(>)?::next$", callee(F.term(cs)) + " " + callee_decl(F.term(cs)))}
            e = flow.expr_of(F, operand)
            if F.is_closure():
                # captured values: follow the capture into the creating body
                ups = {int(m_) for m_ in re.findall(r"\('path', \('arg', 1\), \['(\d+)'", repr(e))} | {fl_ for fl_ in () }
                for l_ in sl["locals"]:
                    for d_ in F.defs().get(l_, []):
                        if d_[0] == "stmt" and d_[4][0] in ("use", "ref") :
                            pp = op_place(d_[4][1]) if d_[4][0] == "use" else d_[4][1]
                            if pp and pp[0] == 1:
                                for el in pp[1:]:
                                    if isinstance(el, list) and el[0] == "f":
                                        ups.add(el[1])
                                        break
                for P in fam:
                    for blk in P.blocks:
                        for s_ in blk["s"]:
                            if s_[0] == "=" and s_[2][0] == "agg" and s_[2][1][0] == "closure" and s_[2][1][1] == F.path:
                                for k_ in ups:
                                    if k_ < len(s_[2][2]):
                                        out |= provenance(P, s_[2][2][k_])
            return out
        po = provenance(f, t["args"][2])
        pp_ = provenance(f, t["args"][1])
        # every item the path derives from (inner and outer loop) also feeds the offset: a value of the outer loop only (a size,
        # a counter) is not the recorded file offset
        okf = bool(pp_) and pp_ <= po
    rep.check("C01.f", "write-at-recorded-offset", okf, where=RC.loc(), what="restore_contents writes each blob at the file offset recorded for it in the restore plan")
    rd = [(f, bb, t) for f in fam for bb, t in f.calls() if "callee" in t and re.search(r"read_encrypted_from_partial$", callee(t))]
    oks = False
    for (f, bb, t) in rd:
        sl = flow.backward_slice(f, op_place(t["args"][1]))
        # the slice bounds derive from bl.offset / bl.length relative to the read's start offset
        oks = oks or ({"offset", "length"} <= sl["fields"] and any(c.endswith("Index<I>>::index") or "index" in c for c in sl["calls"]))
    rep.check("C01.f", "blob-range", oks, where=RC.loc(), what="each blob is decrypted from the sub-range [offset - start, offset + length - start) of the bytes read for the pack")


def _follow(body, bb, limit=6):
    seen = []
    while bb is not None and len(seen) < limit:
        seen.append(bb)
        t = body.term(bb)
        if t["k"] == "goto":
            bb = t["to"]
        else:
            break
    return seen


def _first_const_str_call(body, bb, rx):
    for b_ in _follow(body, bb):
        t = body.term(b_)
        if t["k"] == "call" and "callee" in t and re.search(rx, callee(t)):
            for a in t["args"][1:]:
                e = flow.expr_of(body, a)
                if e[0] == "const" and isinstance(e[1], dict) and "str" in e[1]:
                    return e[1]["str"]
            return None
    return None


def _first_const_int_call(body, bb, rx):
    for b_ in _follow(body, bb):
        t = body.term(b_)
        if t["k"] == "call" and "callee" in t and re.search(rx, callee(t)):
            for a in t["args"][1:]:
                e = flow.expr_of(body, a)
                if e[0] == "const" and isinstance(e[1], int):
                    return e[1]
            return None
    return None


def backup_metadata_rule(ctx, rep, R):
    """C01.h backup-side wiring: each field of the node metadata recorded for a local file is built from exactly the
    file-system accessor that carries that information (helper functions inlined): mode<-mode(), mtime<-modified(),
    uid/user<-uid(), gid/group<-gid(), inode<-ino(), links<-nlink(), size<-len(); symlink targets come from read_link
    of the entry's path; the node kind follows is_dir / is_symlink / the file type."""
    prog = ctx.prog
    ME = prog.bodies.get("rustic_core::backend::ignore::mapper::LocalSourceSaveOptions::map_entry")
    if ME is None:
        raise AnchorError("LocalSourceSaveOptions::map_entry not found")
    WANT = {"mode": {"mode"}, "mtime": {"modified"}, "uid": {"uid"}, "gid": {"gid"}, "user": {"uid"}, "group": {"gid"}, "inode": {"ino"}, "links": {"nlink"}, "size": {"len"}}
    ACC = re.compile(r"^std::fs::Metadata::(\w+)$|^<std::fs::Metadata as std::os::unix::fs::MetadataExt>::(\w+)$")
    aggs = [(bi, s_) for bi, blk in enumerate(ME.blocks) for s_ in blk["s"] if s_[0] == "=" and s_[2][0] == "agg" and s_[2][1][0] == "adt" and s_[2][1][1].endswith("backend::node::Metadata")]
    rep.require(R, "metadata-construction", len(aggs) == 1, where=ME.loc(), what="map_entry builds the node metadata once")
    if len(aggs) != 1:
        return
    bi, s_ = aggs[0]
    names = s_[2][1][3]
    for n, o in zip(names, s_[2][2]):
        if n not in WANT:
            continue
        e = flow.inline_expr(prog, flow.expr_of(ME, o, bi))
        _, cs = flow.expr_mentions(e)
        cs = set(cs)
        # closures handed to adaptors inside the expression (`.and_then(|t| ..)`): their callees count too
        for cp in set(re.findall(r"\['closure', '([^']+)'\]", repr(e))):
            cb = prog.bodies.get(cp)
            for fb in ([cb] + prog.closures_of(cb)) if cb is not None else []:
                cs |= {callee(t) for _, t in fb.calls() if "callee" in t}
        acc = set()
        for c in cs:
            m = ACC.search(c)
            if m:
                acc.add(m.group(1) or m.group(2))
        acc -= {"is_dir", "is_file", "is_symlink", "file_type"}
        ok = acc == WANT[n]
        rep.check(R, f"field/{n}", ok, where=span_str(s_[3]), what=f"Metadata.{n} is built from fs::Metadata::{sorted(WANT[n])[0]}()" if ok else
                  f"Metadata.{n} is built from {sorted(acc)} instead of {sorted(WANT[n])}: the recorded {n} is not the source's")
        if n == "mtime":
            trunc = sorted(c for c in cs if re.search(r"as_secs|from_second|as_second|timestamp$|::round|::trunc", c))
            rep.check(R, "field/mtime/full-resolution", not trunc, where=span_str(s_[3]), what="the modification time is converted without truncation (SystemTime -> Timestamp)" if not trunc else f"the modification time is truncated ({trunc})")
    TN = prog.find1(r"^rustic_core::backend::ignore::mapper::LocalSourceSaveOptions::to_node$")
    rl = [(bb, t) for bb, t in TN.calls() if "callee" in t and callee(t) == "std::fs::read_link"]
    fl = [(bb, t) for bb, t in TN.calls() if "callee" in t and callee(t).endswith("node::NodeType::from_link")]
    okl = len(rl) == 1 and len(fl) == 1
    if okl:
        src = flow.backward_slice(TN, op_place(fl[0][1]["args"][0]))["call_sites"] if op_place(fl[0][1]["args"][0]) else set()
        pth = flow.backward_slice(TN, op_place(rl[0][1]["args"][0]))["calls"] if op_place(rl[0][1]["args"][0]) else set()
        okl = rl[0][0] in src and any(c.endswith("DirEntry::path") for c in pth)
        okl = okl and only_via(TN, fl[0][0], lambda x: x[0] == "call" and x[1].endswith("Metadata::is_symlink"), True)
    rep.check(R, "symlink-target", okl, where=TN.loc(), what="a symlink node records read_link(entry.path()), and only entries whose metadata says is_symlink() become symlinks")
    nn = [(bb, t) for bb, t in TN.calls() if "callee" in t and callee(t).endswith("node::Node::new_node")]
    dirs = []
    for bb, t in nn:
        e = flow.expr_of(TN, t["args"][1], bb)
        if e[0] == "agg" and e[1][0] == "adt" and e[1][2] == "Dir":
            dirs.append(bb)
    okd = len(dirs) == 1 and only_via(TN, dirs[0], lambda x: x[0] == "call" and x[1].endswith("Metadata::is_dir"), True)
    rep.check(R, "dir-kind", okd, where=TN.loc(), what="an entry becomes a directory node exactly on the is_dir() edge")


def ranged_read_rule(ctx, rep, R):
    """C01.i ranged reads (OpenFile::read_at), one-iteration summary by symbolic evaluation (engine/symlen.py): in each
    round of the loop the bytes appended are min(len(blob) - offset, length) taken from blob[offset..]; afterwards the
    offset is 0, the remaining length shrinks by exactly the bytes appended and the blob index advances by one."""
    import symlen
    from symlen import Lin
    prog = ctx.prog
    RA = prog.find1(r"^rustic_core::vfs::OpenFile::read_at$")
    a = symlen.Analysis(RA, [("append", r"BytesMut::extend_from_slice$", 1, "blen"), ("min0", r"cmp::Ord::min$", 0, "ival"), ("min1", r"cmp::Ord::min$", 1, "ival"),
                             ("slice_from", r"impl std::ops::Index<I> for \[T\]>::index$", 1, "ival")], arg_names={3: "offset", 4: "length"}).run()
    app = [(bb, v) for (n, bb, v) in a.found if n == "append"]
    rep.require(R, "read_at/append-site", len(app) == 1, where=RA.loc(), what="read_at appends blob bytes at one site")
    if len(app) != 1:
        return
    abb = app[0][0]
    loops = [(h, l, C.loop_blocks(RA, h, l)) for (l, h) in C.back_edges(RA)]
    mine = sorted([x for x in loops if abb in x[2]], key=lambda x: len(x[2]))
    rep.require(R, "read_at/loop", bool(mine), where=RA.loc(), what="the append happens in the loop over the file's blobs")
    if not mine:
        return
    h, l, blocks = mine[0]
    hs, ls = a.instate.get(h), a.instate.get(l)
    mins = [Lin.sym(n) for bb, n in a.call_syms.items() if n.startswith("min@") and bb in blocks]
    lens = [Lin.sym(n) for bb, n in a.call_syms.items() if n.startswith("len@") and bb in blocks]
    # identify the loop-carried integers by their behaviour at the latch
    carried = {k: (hs.ival.get(k), ls.ival.get(k)) for k in (ls.ival if ls else {}) if hs and k in hs.ival and hs.ival[k].is_const() is False and set(hs.ival[k].t) == {f"join{h}_ival{k}"}}
    off = [k for k, (hv, lv) in carried.items() if lv == Lin(0)]
    idx = [k for k, (hv, lv) in carried.items() if lv == hv + Lin(1)]
    rem = [k for k, (hv, lv) in carried.items() if mins and lv == hv - mins[0]]
    # the blob index advances by one per round: an explicit counter, or the loop is driven by Iterator::next (a `for` over the
    # content from the start index): one next() call in the loop that dominates the append
    iter_driven = [bb for bb, t in RA.calls() if bb in blocks and "callee" in t and re.search(r"Iterator(>)?::next$", callee(t) + " " + callee_decl(t)) and C.dominates(RA, bb, abb)]
    ok_sum = len(off) == 1 and len(rem) == 1 and (len(idx) == 1 or (not idx and len(iter_driven) == 1))
    rep.check(R, "read_at/iteration-summary", ok_sum, where=where(RA, abb),
              what="per round: offset := 0, blob index += 1, remaining length -= bytes appended" if ok_sum else
                   f"the loop-carried values do not follow (offset := 0, index += 1, remaining -= appended): {[(k, str(v[0]), str(v[1])) for k, v in carried.items()]}")
    ok_app = bool(mins) and app[0][1] == mins[0]
    rep.check(R, "read_at/appended-is-min", ok_app, where=where(RA, abb), what="the bytes appended in a round are exactly the min(..) computed for it" if ok_app else f"the appended slice has length {app[0][1]}, not the computed minimum")
    if ok_sum and mins and lens:
        m0 = [v for (n, bb, v) in a.found if n == "min0"]
        m1 = [v for (n, bb, v) in a.found if n == "min1"]
        want0 = lens[-1] - hs.ival[off[0]]
        okm = bool(m0) and bool(m1) and {repr(m0[0]), repr(m1[0])} == {repr(want0), repr(hs.ival[rem[0]])} or (bool(m0) and bool(m1) and any(m0[0] == ln - hs.ival[off[0]] for ln in lens) and m1[0] == hs.ival[rem[0]])
        rep.check(R, "read_at/min-operands", okm, where=where(RA, abb), what="min is taken over (len(blob) - offset, remaining length)" if okm else f"min is taken over ({m0}, {m1})")
        sf = [v for (n, bb, v) in a.found if n == "slice_from"]


def _mentions_field(x, field, owner_suffix):
    if isinstance(x, list):
        if len(x) >= 5 and x[0] == "f" and x[2] == field and isinstance(x[4], str) and x[4].endswith(owner_suffix):
            return True
        return any(_mentions_field(y, field, owner_suffix) for y in x)
    if isinstance(x, dict):
        return any(_mentions_field(y, field, owner_suffix) for y in x.values())
    if isinstance(x, tuple):
        return any(_mentions_field(y, field, owner_suffix) for y in x)
    return False


def lossy_link_rule(ctx, rep, R):
    """who-may-read rule for NodeType::Symlink.linktarget (the lossy form of a link target)"""
    prog = ctx.prog
    readers = []
    n_in_node = 0
    for b in prog.by_crate["rustic_core"]:
        hit = None
        for bi, blk in enumerate(b.blocks):
            for s_ in blk["s"]:
                # a read: the field occurs on the right-hand side (or as a reference taken of it)
                if s_[0] == "=" and _mentions_field(s_[2], "linktarget", "NodeType"):
                    hit = bi
            t = blk["t"]
            if _mentions_field(t.get("args", []), "linktarget", "NodeType") or _mentions_field(t.get("discr", []), "linktarget", "NodeType"):
                hit = bi
        if hit is None:
            continue
        if re.search(r"(^|<)rustic_core::backend::node::", b.path):
            n_in_node += 1
            continue
        readers.append((b, hit))
    for b, bi in readers:
        rep.check(R, f"{fn_key(b)}/reads-lossy-linktarget", False, where=where(b, bi),
                  what=f"{fn_key(b)} reads NodeType::Symlink.linktarget directly: for a non-UTF-8 target this is the lossy form (U+FFFD), the exact bytes are only returned by NodeType::to_link()")
    rep.check(R, "lossy-linktarget-read-only-in-node-module", not readers, where="crates/core/src/backend/node.rs", what=f"the lossy `linktarget` field is read only inside backend::node ({n_in_node} bodies: to_link, constructors, codecs)")
    rep.floor(R, "bodies of backend::node reading the linktarget field", n_in_node, 1)
    CS = prog.find1(r"^rustic_core::backend::local_destination::LocalDestination::create_special$")
    sym = [(bb, t) for bb, t in CS.calls() if "callee" in t and re.search(r"(^|::)symlink$", callee(t))]
    rep.require(R, "create_special/symlink-call", len(sym) >= 1, where=CS.loc(), what="create_special creates symlinks with std::os::unix::fs::symlink")
    oks = bool(sym)
    for bb, t in sym:
        sl = flow.backward_slice(CS, op_place(t["args"][0])) if op_place(t["args"][0]) else {"calls": []}
        oks = oks and any(c.endswith("NodeType::to_link") for c in sl["calls"])
    rep.check(R, "create_special/target-from-to_link", oks, where=CS.loc(), what="the target handed to symlink() comes from NodeType::to_link() (raw bytes honoured)" if oks else
              "the target handed to symlink() does not come from NodeType::to_link(): non-UTF-8 link targets are restored lossily")
