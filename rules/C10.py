"""C10 - Backups running concurrently with prune or each other stay intact.

The library takes no locks; what protects an overlapping backup is a protocol whose structural invariants are decided
here (each one, when broken, loses data for some overlap):
C10.a only unmarked packs feed the index a backup deduplicates against (all IndexCollector::extend sites; the prune
  planner's OnlyTrees collector is the documented exception).
C10.b decisions: Delete only for marked packs without used blobs after the keep-delete window; marked packs with used
  blobs are recovered (= C02.c).
C10.c without instant-delete, packs that are repacked / marked / kept-marked are never removed in that run but listed
  as to-delete - with time = now when newly marked, with their original time when they stay marked (= executor table).
C10.d PrunePlan::new drops from the marked list every pack that is also listed unmarked.
C10.g safe defaults: PruneOptions::default() has instant_delete = false, early_delete_index = false and a keep-delete span
  of at least an hour.
C10.f deletion marks are persisted: Indexer::save writes the file unless both pack lists are empty.
C10.h used-blob bookkeeping of prune (= C02.f): a used blob whose other copy sits in a pack that stays marked is still repacked.
C10.e new index before old index removal; index removal before pack removal (R-ORDER 13/14).
"""
import re
from rules.common import *
import runner
from rules.C18 import cd_conditions

TECHNIQUE = ('static analysis over rustc MIR: exact decision/executor tables by finite-domain interpretation, who-feeds-the-index rule over all IndexCollector::extend sites, pack-identity rule, default-value evaluation of PruneOptions, index-before-pack removal ordering, reuse-only-if-indexed guard evaluated path-sensitively')
LEVEL = "other"
EXPLANATION = (
    "The lock-free prune/backup protocol is reduced to structural invariants over commands/prune.rs and the index "
    "construction sites, decided with the same table, guard and ordering rules as C02/C03/C17. Interleavings themselves "
    "and the premise 'keep-delete exceeds the backup's duration' are runtime matters and not decided.")
NOT_DECIDED = ["interleavings of a backup with prune or another backup (schedules)", "the premise that keep-delete exceeds the backup's duration"]


def borrow(rep, ctx, module, select, newrule):
    """run another property's rules into a scratch report and adopt the selected obligations under this property's rule id"""
    tmp = runner.Report(rep.prop)
    module.run(ctx, tmp)
    n = 0
    for o in tmp.obs:
        if select(o):
            key = o.key.split("/", 2)[2]
            rep.check(newrule, key, o.ok, where=o.where, what=o.what, detail=o.detail, nontrivial=o.nontrivial)
            n += 1
    return n


def run(ctx, rep):
    prog = ctx.prog
    for r, tx in (("C10.a", "only unmarked packs feed a lookup index"), ("C10.b", "deletion decisions respect used blobs and the keep-delete window"),
                  ("C10.c", "deferred mode never removes packs in the same run and stamps marks correctly"), ("C10.d", "marked entries of packs that are also listed unmarked are dropped"),
                  ("C10.e", "index/pack removal order")):
        rep.rule(r, tx)
    from rules import C17, C02, C03
    rep.rule("C10.h", "used-blob bookkeeping of prune (= C02.f)")
    C02.used_bookkeeping_rule(ctx, rep, "C10.h")
    C17.check_extend_sites(ctx, rep, "C10.a")
    n = borrow(rep, ctx, C02, lambda o: o.rule == "C02.c", "C10.b")
    rep.floor("C10.b", "borrowed obligations", n, 5)
    n = borrow(rep, ctx, C02, lambda o: o.rule == "C02.d" and (("/executor/" in o.key and ("/deferred/" in o.key or "Undecided" in o.key)) or "filter_index_files" in o.key), "C10.c")
    rep.floor("C10.c", "borrowed obligations", n, 4)
    n = borrow(rep, ctx, C03, lambda o: o.rule == "R-ORDER" and re.search(r"/R-ORDER/(13|13b|14)/", o.key), "C10.e")
    rep.floor("C10.e", "borrowed obligations", n, 4)
    # a backup stays self-contained although its parent snapshot came from a backup that overlapped a prune: content is taken
    # over from the parent only if every chunk is in the index the backup reads (packs marked for deletion are not) (= C11.b)
    from rules import C11
    rep.rule("C10.i", "parent content is reused only if every chunk is indexed (blobs living only in marked packs are stored again) (= C11.b)")
    n = borrow(rep, ctx, C11, lambda o: o.rule == "C11.b", "C10.i")
    rep.floor("C10.i", "borrowed obligations", n, 3)
    # the checked index (backup with index verification) never indexes packs that an index file lists as marked (= C17.g)
    rep.rule("C10.j", "the checked index treats packs listed as marked for deletion as known, never as unindexed packs to be read back (= C17.g)")
    n = borrow(rep, ctx, C17, lambda o: o.rule == "C17.g", "C10.j")
    rep.floor("C10.j", "borrowed obligations", n, 1)
    # ---- C10.d -------------------------------------------------------------------------------------
    NW = prog.find1(r"^rustic_core::commands::prune::PrunePlan::new$")
    fam = [NW] + prog.closures_of(NW)
    # a retain over index.packs whose predicate keeps unmarked entries and drops marked ones contained in processed_packs
    rets = [(f, bb, t) for f in fam for bb, t in f.calls() if "callee" in t and callee(t).endswith("Vec::<T, A>::retain")]
    ok = False
    for (f, bb, t) in rets:
        cl = None
        for a in t["args"][1:]:
            l = op_local(a)
            for d in f.defs().get(l, []):
                if d[0] == "stmt" and d[4][0] == "agg" and d[4][1][0] == "closure":
                    cl = prog.bodies.get(d[4][1][1])
        if cl is None:
            continue
        reads_mark = any(s[0] == "=" and ((s[2][0] == "use" and op_place(s[2][1]) and "delete_mark" in place_fields(op_place(s[2][1]))) or (s[2][0] in ("ref",) and "delete_mark" in place_fields(s[2][1]))) for blk in cl.blocks for s in blk["s"]) or \
            any(cl.term(i)["k"] == "switch" and op_place(cl.term(i)["discr"]) and "delete_mark" in place_fields(op_place(cl.term(i)["discr"])) for i in range(len(cl.blocks)))
        contains = [tt for _, tt in cl.calls() if "callee" in tt and re.search(r"BTreeSet<.*>::contains$|BTreeSet::<T, A>::contains$", callee(tt))]
        if reads_mark and contains:
            ok = True
    # pack identity is the pack id alone: the processed-pack sets are not split by the (derived) blob type - a pack listed
    # once with an empty blob list (type defaults to Data) and once as a tree pack is still the same pack
    typed = []
    for f in fam:
        for bb, t in f.calls():
            if "callee" in t and re.search(r"BTreeSet::<T, A>::(insert|contains)$|HashSet<.*>::(insert|contains)$", callee(t)) and op_place(t["args"][0]):
                e = flow.expr_of(f, t["args"][0], bb)
                fl, cs = flow.expr_mentions(e)
                if "blob_type" in fl or any(c.endswith("::blob_type") for c in cs) or any(re.search(r"ops::Index(Mut)?<.*BlobType.*>>::index(_mut)?$|BlobTypeMap", c) for c in cs):
                    typed.append(where(f, bb))
    rep.check("C10.d", "pack-identity-is-the-id", not typed, where=NW.loc(), what="the processed-pack sets of PrunePlan::new are keyed by pack id only" if not typed else
              f"PrunePlan::new looks packs up in sets selected by blob type ({sorted(set(typed))}): a pack re-indexed under another (derived) type keeps its stale delete mark and is removed although it is in use")
    rep.check("C10.d", "marked-duplicates-dropped", ok, where=NW.loc(), what="PrunePlan::new retains a marked entry only if the same pack is not also listed unmarked (a pack re-added by a concurrent backup is not deleted)")
    marks_persisted_rule(ctx, rep, "C10.f")
    safe_defaults_rule(ctx, rep, "C10.g")


def marks_persisted_rule(ctx, rep, R):
    """C10.f: deletion marks survive: Indexer::save skips writing the index file only if BOTH lists (packs and
    packs_to_delete) are empty - an index that holds only marked packs must still be written, because prune removes the
    old index files afterwards (otherwise marks and the blob information of marked packs vanish while a concurrent
    backup may still reference those blobs)."""
    prog = ctx.prog
    rep.rule(R, "an index file holding only packs marked for deletion is still written")
    SV = prog.find1(r"^rustic_core::index::indexer::Indexer::<BE>::save$")
    saves = [(bb, t) for bb, t in SV.calls() if "callee" in t and re.search(r"save_file$", callee(t) + " " + callee_decl(t))]
    rep.require(R, "save/site", len(saves) == 1, where=SV.loc(), what="Indexer::save writes the index file at one site")
    if len(saves) != 1:
        return
    bb = saves[0][0]
    conds = cd_conditions(SV, bb)
    fields = set()
    for ex, v, sw in conds:
        f, _ = flow.expr_mentions(ex)
        fields |= f
    ok = (not conds) or {"packs", "packs_to_delete"} <= fields
    rep.check(R, "save/skipped-only-if-both-lists-empty", ok, where=where(SV, bb),
              what="the index file is written unless both `packs` and `packs_to_delete` are empty" if ok else
                   f"the condition that skips writing the index file looks only at {sorted(fields & {'packs', 'packs_to_delete'})}: an index holding only marked packs is dropped although the old index files are removed")


def safe_defaults_rule(ctx, rep, R):
    """C10.g the protocol's safety margin is on by default: PruneOptions::default() does not delete instantly, does not
    remove index files early and uses a non-zero keep-delete span (a concurrent backup that still references a pack
    marked by this prune is protected for that long)."""
    prog = ctx.prog
    rep.rule(R, "default prune options keep the safety margin (no instant delete, no early index removal, non-zero keep-delete)")
    D = prog.find1(r"^<rustic_core::commands::prune::PruneOptions as std::default::Default>::default$")
    ag = [(bi, s_) for bi, blk in enumerate(D.blocks) for s_ in blk["s"] if s_[0] == "=" and s_[2][0] == "agg" and s_[2][1][0] == "adt" and s_[2][1][1].endswith("prune::PruneOptions")]
    rep.require(R, "default/construction", len(ag) == 1, where=D.loc(), what="PruneOptions::default builds the options once")
    if len(ag) != 1:
        return
    bi, s_ = ag[0]
    names = s_[2][1][3]
    vals = {n: flow.expr_of(D, o, bi) for n, o in zip(names, s_[2][2])}
    for f in ("instant_delete", "early_delete_index"):
        ok = vals.get(f) == ("const", False)
        rep.check(R, f"default/{f}-off", ok, where=D.loc(), what=f"{f} is off by default" if ok else f"{f} is ON by default: a prune with default options removes files a concurrent backup may still rely on")
    kd = vals.get("keep_delete")
    okk = False
    if kd and kd[0] == "call" and re.search(r"jiff::Span::(hours|days|minutes|weeks)$", kd[1]) and len(kd[2]) == 2 and kd[2][1][0] == "const" and isinstance(kd[2][1][1], int):
        unit = kd[1].rsplit("::", 1)[-1]
        mins = kd[2][1][1] * {"minutes": 1, "hours": 60, "days": 1440, "weeks": 10080}[unit]
        okk = mins >= 60
    rep.check(R, "default/keep-delete-nonzero", okk, where=D.loc(), what=f"the default keep-delete span is at least an hour ({kd[1].rsplit('::', 1)[-1]}({kd[2][1][1]}))" if okk else f"the default keep-delete span is not a span of at least an hour: {str(kd)[:120]}")
