"""C03 - Every crash point or failed write leaves only fully readable snapshots.

Decided (structure): R-ORDER - in each repository-changing command the durable write of what a file refers to
dominates the write that makes it visible, and the earlier step's Result is `?`-propagated (so a failed write
stops the command with an error): packs before index, index before snapshot, replacement before removal,
index removal before pack removal. R-ERRPROP - no Result of a storage-effect call is dropped.
R-FLUSH - what was staged in a packer/indexer is flushed before Ok is returned.
Not decided: the per-prefix repository state as a state predicate; atomicity of one backend write (C20)."""
import re
from rules.common import *
from rules.order import *

LEVEL = "other"
EXPLANATION = (
    "Must-pass-through rules on the MIR control-flow graph of each command's entry function: after deleting the Ok "
    "continuation edges of the `?`-propagated durable step(s) A, no visible step B may be reachable from the entry. "
    "18 (+2) instances cover backup, copy, merge, rewrite, repair snapshots/index, prune, the tree modifier, the pack "
    "writer pipeline and config; plus an error-propagation rule over every call site of the storage-effect API and a "
    "flush rule for packers/indexers. This decides the ORDER in which storage effects can occur on every path (which is "
    "what a crash-point quantifier ranges over), not the repository state after a prefix.")
NOT_DECIDED = ["readability of the repository state after each prefix of storage operations (runtime)",
               "atomicity of a single backend write_bytes (see C20 for the local backend)",
               "linearisations of the concurrent packer threads beyond the pipeline-shape rule #16/#17"]
TECHNIQUE = "static analysis: must-pass-through (dominance with `?`-edge cuts) over rustc MIR CFGs; error-propagation and flush typestate rules over resolved call sites"

IDX_FINALIZE = call_pred(r"^rustic_core::index::indexer::Indexer::<BE>::finalize$")
PACKER_FINALIZE = call_pred(r"^rustic_core::blob::packer::Packer::<BE>::finalize$")
COPIER_FINALIZE = call_pred(r"^rustic_core::blob::packer::BlobCopier::<BE>::finalize$")


def SAVE_FILE(tyrx):
    return call_pred(r"DecryptWriteBackend(>)?::(save_file|save_file_uncompressed)$", tyrx)


def SAVE_LIST(tyrx):
    return call_pred(r"DecryptWriteBackend(>)?::save_list$", tyrx)


def DELETE_LIST(tyrx):
    return call_pred(r"DecryptWriteBackend(>)?::delete_list$", tyrx)


def backward_locals(E, place, limit=400):
    return backward_names(E, place, limit, want_locals=True)


def backward_names(E, place, limit=400, want_locals=False):
    """names (fields and debug names of locals) in the backward data-dependence closure of a place, following every
    operand of every definition (calls: all arguments)"""
    names = set()
    seen = set()
    work = [place[0]]
    for e in place[1:]:
        if isinstance(e, list) and e[0] == "f" and e[2]:
            names.add(e[2])
    ln = E.local_names()
    n = 0
    while work and n < limit:
        l = work.pop()
        if l in seen:
            continue
        seen.add(l)
        n += 1
        for nm in ln.get(l, []):
            names.add(nm)
        for d in E.defs().get(l, []):
            ops = []
            if d[0] == "stmt":
                rv = d[4]
                k = rv[0]
                if k == "use":
                    ops = [rv[1]]
                elif k in ("ref", "refmut", "rawptr", "discr"):
                    ops = [("c", rv[1])]
                elif k == "cast":
                    ops = [rv[2]]
                elif k == "bin":
                    ops = [rv[2], rv[3]]
                elif k == "un":
                    ops = [rv[2]]
                elif k == "agg":
                    ops = list(rv[2])
            elif d[0] == "call":
                ops = list(d[2]["args"])
            for o in ops:
                p = op_place(o)
                if p is None:
                    continue
                for e in p[1:]:
                    if isinstance(e, list) and e[0] == "f" and e[2]:
                        names.add(e[2])
                work.append(p[0])
        # mutation through &mut: calls that take &mut of l (e.g. push) - follow their other args
        for bb, t in E.calls():
            if t["args"] and op_local(t["args"][0]) is not None:
                a0 = op_local(t["args"][0])
                # is a0 a (re)borrow of l ?
                for d in E.defs().get(a0, []):
                    if d[0] == "stmt" and d[4][0] in ("refmut",) and d[4][1][0] == l:
                        for o in t["args"][1:]:
                            p = op_place(o)
                            if p is not None:
                                for e in p[1:]:
                                    if isinstance(e, list) and e[0] == "f" and e[2]:
                                        names.add(e[2])
                                work.append(p[0])
    if want_locals:
        return seen
    return names


def run(ctx, rep):
    prog = ctx.prog
    R = "R-ORDER"
    rep.rule(R, "in entry E every B-site is unreachable once the Ok continuations of the `?`-propagated A-sites are removed (A durable before B visible)")

    # 1/2 backup
    E = prog.find1(r"^rustic_core::archiver::Archiver::<'a, BE, I>::archive$")
    must_precede_each(ctx, rep, R, "01", E, call_pred(r"archiver::file_archiver::FileArchiver::<'a, BE, I>::finalize$"), IDX_FINALIZE, "FileArchiver::finalize (data packs flushed)", "Indexer::finalize (index written)")
    must_precede_each(ctx, rep, R, "01", E, call_pred(r"archiver::tree_archiver::TreeArchiver::<'a, BE, I>::finalize$"), IDX_FINALIZE, "TreeArchiver::finalize (tree packs flushed)", "Indexer::finalize (index written)")
    must_precede(ctx, rep, R, "02", E, IDX_FINALIZE, SAVE_FILE(r"SnapshotFile"), what_a="Indexer::finalize", what_b="save_file::<SnapshotFile>")
    # 3/4 copy
    E = prog.find1(r"^rustic_core::commands::copy::copy$")
    must_precede_each(ctx, rep, R, "03", E, call_pred(r"^rustic_core::commands::copy::copy_blobs$"), IDX_FINALIZE, "copy_blobs (-> BlobCopier::finalize)", "Indexer::finalize")
    Ecb = prog.find1(r"^rustic_core::commands::copy::copy_blobs$")
    fin = sites(ctx, Ecb, COPIER_FINALIZE)
    rep.require(R, "03/commands::copy::copy_blobs/finalizes", len(fin) >= 1 and all(ok_cut(Ecb, a)[0] in ("?", "return") for a in fin), where=Ecb.loc(),
                what="copy_blobs flushes its BlobCopier (finalize called and propagated) before returning")
    must_precede(ctx, rep, R, "04", E, IDX_FINALIZE, SAVE_LIST(r"SnapshotFile"), what_a="Indexer::finalize", what_b="save_list::<SnapshotFile>")
    # 5/6 merge
    E = prog.find1(r"^rustic_core::commands::merge::merge_trees$")
    must_precede(ctx, rep, R, "05", E, PACKER_FINALIZE, IDX_FINALIZE, what_a="Packer::finalize", what_b="Indexer::finalize")
    E = prog.find1(r"^rustic_core::commands::merge::merge_snapshots$")
    must_precede(ctx, rep, R, "06", E, call_pred(r"^rustic_core::commands::merge::merge_trees$"), SAVE_FILE(r"SnapshotFile"), what_a="merge_trees (trees + index durable)", what_b="save_file::<SnapshotFile>")
    # 7/8 rewrite
    E = prog.find1(r"^rustic_core::commands::rewrite::rewrite_snapshots_and_trees$")
    must_precede(ctx, rep, R, "07", E, call_pred(r"blob::tree::rewrite::Rewriter::<.*>::finalize$"), call_pred(r"^rustic_core::commands::rewrite::process_snapshots$"),
                 what_a="Rewriter::finalize", what_b="process_snapshots (saves snapshots)")
    E = prog.find1(r"^rustic_core::commands::rewrite::process_snapshots$")
    must_precede(ctx, rep, R, "08", E, call_pred(r"repository::Repository::<S>::save_snapshots$"), call_pred(r"repository::Repository::<S>::delete_snapshots$"),
                 what_a="save_snapshots (replacement)", what_b="delete_snapshots (original)")
    # 9/10 repair snapshots
    E = prog.find1(r"^rustic_core::commands::repair::snapshots::repair_snapshots$")
    must_precede(ctx, rep, R, "09", E, call_pred(r"blob::tree::modify::TreeModifier::<'a, BE, I>::finalize$"), SAVE_FILE(r"SnapshotFile"),
                 what_a="TreeModifier::finalize (new trees + index durable)", what_b="save_file::<SnapshotFile> (repaired snapshot visible)")
    must_precede(ctx, rep, R, "10", E, SAVE_FILE(r"SnapshotFile"), DELETE_LIST(r"SnapshotId"), weak=True, what_a="save_file::<SnapshotFile>", what_b="delete_list::<SnapshotId>")
    # 11/12 repair index
    E = prog.find1(r"^rustic_core::commands::repair::index::repair_index$")
    RM_INDEX = lambda t: "callee" in t and is_method_of(t, RE_REMOVE)
    _rule11(ctx, rep, R, E, SAVE_FILE(r"IndexFile"), RM_INDEX)
    must_precede(ctx, rep, R, "12", E, IDX_FINALIZE, RM_INDEX, what_a="Indexer::finalize (re-read pack headers persisted)", what_b="remove(Index)")
    # 13/14 prune
    E = prog.find1(r"^rustic_core::commands::prune::prune_repository$")

    def early(E_, b):
        return dominated_by_true_edge_of_local(E_, b, lambda l: implies_field_true(E_, l, "early_delete_index"))
    must_precede(ctx, rep, R, "13", E, IDX_FINALIZE, DELETE_LIST(r"IndexId"), exempt_B=early, what_a="Indexer::finalize (new index durable)", what_b="delete_list::<IndexId> (old index files)")
    must_precede_each(ctx, rep, R, "13b", E, COPIER_FINALIZE, IDX_FINALIZE, "BlobCopier::finalize (repacked packs flushed)", "Indexer::finalize")

    def unindexed(E_, b):
        t = E_.term(b)
        if "callee" in t and not DELETE_LIST(r"PackId")(t):
            # the step extracted into a helper of the module: the exemption is decided inside the helper, its parameters
            # standing for the arguments given here (the list of packs and the instant-delete flag)
            H = prog.bodies.get(callee(t))
            if H is None:
                return False
            inner = [bb for bb, ht in H.calls() if DELETE_LIST(r"PackId")(ht)]
            if not inner:
                return False
            for ib in inner:
                ht = H.term(ib)
                pl = op_place(ht["args"][2])
                if pl is None:
                    return False
                names, locs = backward_names(H, pl), backward_names(H, pl, want_locals=True)
                for prm in [l for l in locs if 1 <= l <= H.argc and l - 1 < len(t["args"])]:
                    ap = op_place(t["args"][prm - 1])
                    if ap is not None:
                        names = names | backward_names(E_, ap)
                if "existing_packs" not in names or {"data_packs_remove", "tree_packs_remove"} & names:
                    return False
                under = False
                for (sw, succ) in C.transitive_control_deps(H, ib):
                    r = field_bool_test(H, sw, "instant_delete")
                    if r and r[0] == succ:
                        under = True
                    ht_sw = H.term(sw)
                    if ht_sw["k"] == "switch" and ht_sw["discr_ty"] == "bool":
                        e_ = flow.expr_of(H, ht_sw["discr"], sw)
                        if e_[0] == "path" and e_[1][0] == "arg" and not e_[2] and e_[1][1] - 1 < len(t["args"]):
                            nm, neg = cond_name(E_, flow.expr_of(E_, t["args"][e_[1][1] - 1], b))
                            taken_true = [v for v, x in ht_sw["targets"] if x == succ] != ["0"]
                            if nm == "instant_delete" and (taken_true != neg):
                                under = True
                if not under:
                    return False
            return True
        names = backward_names(E_, op_place(t["args"][2])) if op_place(t["args"][2]) else set()
        if "existing_packs" not in names or {"data_packs_remove", "tree_packs_remove"} & names:
            return False
        # must be under opts.instant_delete
        for (sw, succ) in C.transitive_control_deps(E_, b):
            r = field_bool_test(E_, sw, "instant_delete")
            if r and r[0] == succ:
                return True
        return False
    must_precede(ctx, rep, R, "14", E, DELETE_LIST(r"IndexId"), DELETE_LIST(r"PackId"), exempt_B=unindexed, weak=True,
                 what_a="delete_list::<IndexId>", what_b="delete_list::<PackId> of packs that were indexed")
    # 15 TreeModifier
    E = prog.find1(r"^rustic_core::blob::tree::modify::TreeModifier::<'a, BE, I>::finalize$")
    must_precede(ctx, rep, R, "15", E, PACKER_FINALIZE, IDX_FINALIZE, what_a="Packer::finalize", what_b="Indexer::finalize")
    # 16 pack writer pipeline
    _rule16(ctx, rep, R)
    # 17 RawPacker::save
    E = prog.find1(r"^rustic_core::blob::packer::RawPacker::<BE>::save$")
    HB = call_pred(r"blob::packer::BasicPacker::header_bytes$")
    ENC = call_pred(r"CryptoKey(>)?::encrypt_data$")
    WH = call_pred(r"blob::packer::BasicPacker::write_header$")
    TD = call_pred(r"blob::packer::BasicPacker::take_data$")
    SEND = call_pred(r"blob::packer::Actor::send$")
    must_precede(ctx, rep, R, "17a", E, HB, ENC, what_a="header_bytes", what_b="encrypt_data(header)")
    must_precede(ctx, rep, R, "17b", E, ENC, WH, what_a="encrypt_data(header)", what_b="write_header")
    must_precede(ctx, rep, R, "17c", E, WH, TD, what_a="write_header", what_b="take_data")
    must_precede(ctx, rep, R, "17d", E, TD, SEND, what_a="take_data", what_b="Actor::send (pack handed to the writer)")
    # 18 config
    E = prog.find1(r"^rustic_core::commands::config::save_config$")
    must_precede(ctx, rep, R, "18", E, SAVE_FILE(r"ConfigFile"), call_pred(r"^rustic_core::commands::config::save_config_hot$"),
                 what_a="save_file_uncompressed (cold config)", what_b="save_config_hot")
    rep.floor(R, "instances evaluated", len({o.key.split('/')[2] for o in rep.obs if o.rule == R}), 18)
    config_never_removed(ctx, rep, R)

    from rules import errprop, flush
    # the packer's finalize waits for the asynchronous pack writer on every path (a failed write of the last full pack must
    # fail the command before index and snapshot are written)
    from rules import C13
    C13.writer_joined_rule(ctx, rep, "R-FLUSH")
    errprop.run(ctx, rep, "R-ERRPROP")
    errprop.run_iter(ctx, rep, "R-ERRITER")
    flush.run(ctx, rep, "R-FLUSH")


def _rule11(ctx, rep, R, E, A, B):
    """per index file: the replacement index is saved (or would be empty) before the original is removed - either in
    the same loop iteration, or the original's id is queued for removal (Vec::push) only after the replacement was saved"""
    a_sites = sites(ctx, E, A)
    b_sites = sites(ctx, E, B)
    key = f"11/{fn_key(E)}"
    wa, wb = "save_file::<IndexFile> (replacement; skipped only if it would be empty)", "remove(Index) of the file it replaces"
    rep.require(R, key + "/A-present", len(a_sites) >= 1, where=E.loc(), what=f"{fn_key(E)}: {wa}: {len(a_sites)} site(s)")
    rep.require(R, key + "/B-present", len(b_sites) >= 1, where=E.loc(), what=f"{fn_key(E)}: {wb}: {len(b_sites)} site(s)")
    if not a_sites or not b_sites:
        return
    cut = []
    for a in a_sites:
        kind, edges = ok_cut(E, a)
        rep.check(R, key + f"/A-propagated/{a_sites.index(a) + 1}", kind in ("?", "return"), where=where(E, a), what=f"{fn_key(E)}: result of {wa} is `?`-propagated")
        cut.extend(edges)
    cut.extend(_empty_skip_edges(A)(E, a_sites))
    # innermost loop around the A-sites
    loops = [(h, C.loop_blocks(E, h, l)) for (l, h) in C.back_edges(E)]
    la = [(h, bl) for (h, bl) in loops if all(a in bl for a in a_sites)]
    la.sort(key=lambda x: len(x[1]))
    rep.require(R, key + "/loop", bool(la), where=E.loc(), what=f"{fn_key(E)}: the replacement is written inside the per-index-file loop")
    if not la:
        return
    header, blocks = la[0]
    backs = [(l, h) for (l, h) in C.back_edges(E) if h == header]
    targets = []
    for b in b_sites:
        if b in blocks:
            targets.append(("remove", b))
        else:
            # deferred: ids are queued with Vec::push inside the loop and removed later
            t = E.term(b)
            locs = set()
            for ar in t["args"]:
                if op_place(ar):
                    locs |= backward_locals(E, op_place(ar))
            pushes = []
            for bb in blocks:
                tt = E.term(bb)
                if tt["k"] == "call" and re.search(r"^std::vec::Vec::<T, A>::push$|^std::collections::.*::(insert|push_back)$", callee(tt)) and tt["args"]:
                    root = op_local(tt["args"][0])
                    src = set()
                    for d in E.defs().get(root, []):
                        if d[0] == "stmt" and d[4][0] in ("refmut", "ref"):
                            src.add(d[4][1][0])
                    if src & locs:
                        pushes.append(bb)
            rep.require(R, key + f"/queued/{b_sites.index(b) + 1}", len(pushes) >= 1, where=where(E, b),
                        what=f"{fn_key(E)}: ids removed after the loop are queued inside the loop ({len(pushes)} push site(s))")
            for p in pushes:
                targets.append(("queue-for-removal", p))
    for kind, b in targets:
        reach = E.reachable_from(header, cut_edges=cut + backs)
        ok = b not in reach
        rep.check(R, key + f"/order/{kind}/{[x for _, x in targets].index(b) + 1}", ok, where=where(E, b),
                  what=(f"{fn_key(E)}: within one iteration every path to the {kind} of an index file passes its successful {wa}" if ok else
                        f"{fn_key(E)}: an index file can be {'removed' if kind == 'remove' else 'queued for removal'} WITHOUT its replacement having been saved in that iteration"))


def config_never_removed(ctx, rep, R):
    """19: the repository config is the one file that is replaced in place: it is only ever (over)written, never removed -
    a remove-then-write sequence leaves a window (or a failed write) with no config at all and every snapshot unreadable.
    Expected count zero: no removal effect with file type Config is reachable from any function of rustic_core."""
    from rules.C15 import SiteEffects
    prog, cg = ctx.prog, ctx.cg
    rm = SiteEffects(prog, cg, kinds=("RM",))
    rm.compute()
    bad = []
    nsites = 0
    for b in prog.by_crate["rustic_core"]:
        for e in rm.summ.get(b.path, frozenset()):
            nsites += 1
            if e[1] == "Config":
                bad.append((fn_key(b), e[2], e[3]))
    # positive control: the machinery sees the typed removals it is supposed to see (snapshots are removed somewhere)
    seen_types = {e[1] for b in prog.by_crate["rustic_core"] for e in rm.summ.get(b.path, frozenset()) if isinstance(e[1], str)}
    rep.require(R, "19/positive-control", "Snapshot" in seen_types or "Index" in seen_types, where="", what=f"typed removal effects are visible to the analysis (types seen: {sorted(seen_types)})")
    first = sorted(bad)[0] if bad else None
    rep.check(R, "19/config-never-removed", not bad, where=first[2] if first else "crates/core/src/commands/config.rs",
              what="no function removes the repository config file (it is replaced by overwriting only)" if not bad else
                   f"{first[0]} can remove the repository config file (site {first[1]}): between removal and rewrite - or after a failed rewrite - the repository has no config")


def must_precede_each(ctx, rep, rule, name, E, A, B, what_a, what_b):
    """every A-site individually must precede every B-site it is CFG-related to (A then B on some path, or vice versa)"""
    a_sites = sites(ctx, E, A)
    b_sites = sites(ctx, E, B)
    key = f"{name}/{fn_key(E)}"
    rep.require(rule, key + f"/A-present/{what_a.split(' ')[0]}", len(a_sites) >= 1, where=E.loc(), what=f"{fn_key(E)}: durable step present ({what_a}): {len(a_sites)} site(s)")
    rep.require(rule, key + f"/B-present/{what_a.split(' ')[0]}", len(b_sites) >= 1, where=E.loc(), what=f"{fn_key(E)}: visible step present ({what_b}): {len(b_sites)} site(s)")
    for ai, a in enumerate(a_sites, 1):
        kind, edges = ok_cut(E, a)
        okp = kind in ("?", "return")
        rep.check(rule, key + f"/A-propagated/{what_a.split(' ')[0]}/{ai}", okp, where=where(E, a),
                  what=f"{fn_key(E)}: result of {what_a} is " + ("`?`-propagated" if okp else "NOT propagated"))
        rel = [b for b in b_sites if C.can_reach(E, a, b) or C.can_reach(E, b, a) or a == b]
        rep.require(rule, key + f"/related/{what_a.split(' ')[0]}/{ai}", len(rel) >= 1, where=where(E, a), what=f"{fn_key(E)}: {what_a} is followed by {what_b} on some path")
        reach = E.reachable_from(0, cut_edges=edges)
        for b in rel:
            ok = b not in reach
            rep.check(rule, key + f"/order/{what_a.split(' ')[0]}/{ai}/{b_sites.index(b) + 1}", ok, where=where(E, b),
                      what=(f"{fn_key(E)}: every path to {what_b} passes a successful {what_a}" if ok else
                            f"{fn_key(E)}: {what_b} reachable WITHOUT a preceding successful {what_a}"))


def _obj_sig(e):
    """(root, fields) of an expression denoting an object or a part of it"""
    if e[0] == "path":
        return (e[1], tuple(e[2]))
    if e[0] == "proj" and e[1][0] == "call":
        return (("call", e[1][3]), tuple(e[2]))
    if e[0] == "call":
        return (("call", e[3]), ())
    return None


def _switch_leaves(E, sw, depth=0):
    """the non-constant bool expressions a switch's condition is built from (through `!`, copies and the merge locals of
    `&&` / `||`): list of expression trees, or None if the shape is not understood"""
    t = E.term(sw)
    if t["k"] != "switch" or t["discr_ty"] != "bool":
        return None
    l = op_local(t["discr"])
    if l is None:
        return None
    return _bool_leaves(E, l, depth)


def _bool_leaves(E, l, depth=0):
    if depth > 6:
        return None
    ds = [d for d in E.defs().get(l, []) if d[0] in ("stmt", "call") and (d[0] == "call" or len(d[3]) == 1)]
    if not ds:
        return None
    out = []
    for d in ds:
        if d[0] == "call":
            t = d[2]
            out.append(("call", callee(t) if "callee" in t else "?", [flow.expr_of(E, a) for a in t["args"]], d[1]))
            continue
        rv = d[4]
        if rv[0] == "use" and rv[1][0] == "k" and isinstance(rv[1][1].get("v"), bool):
            continue
        if rv[0] == "use" and op_place(rv[1]) is not None and len(op_place(rv[1])) == 1 and E.locals[op_place(rv[1])[0]] == "bool":
            sub = _bool_leaves(E, op_place(rv[1])[0], depth + 1)
        elif rv[0] == "un" and rv[1] == "Not" and op_local(rv[2]) is not None:
            sub = _bool_leaves(E, op_local(rv[2]), depth + 1)
        else:
            return None
        if sub is None:
            return None
        out.extend(sub)
    return out


def _empty_skip_edges(A):
    def f(E, a_sites):
        """edges that skip an A-site because its own argument would be empty: switches on `is_empty()` of a field of
        the very object passed to A, on which A is control-dependent; only their A-avoiding out-edges"""
        out = []
        for a in a_sites:
            t = E.term(a)
            objs = [_obj_sig(flow.expr_of(E, ar)) for ar in t["args"]]
            objs = [o for o in objs if o]
            def on_obj(e):
                if e[0] == "call" and e[1].endswith("::is_empty") and e[2]:
                    x = _obj_sig(e[2][0])
                    return bool(x) and any(x[0] == o[0] and x[1][:len(o[1])] == o[1] for o in objs)
                return False
            for (sw, succ) in C.transitive_control_deps(E, a):
                e = flow.expr_of(E, E.term(sw)["discr"])
                while e[0] == "un":
                    e = e[2]
                leaves = [e] if on_obj(e) else _switch_leaves(E, sw)
                # the switch tests nothing but the emptiness of (parts of) the object handed to A
                if leaves and all(on_obj(x) for x in leaves):
                    for s_ in E.succ(sw):
                        out.append((sw, s_))
        res = []
        sws = {sw for (sw, _) in out}
        for (sw, s_) in set(out):
            r = E.reachable_from(s_, cut_blocks=sws)
            if not any(a in r for a in a_sites):
                res.append((sw, s_))
        return res
    return f


def _rule16(ctx, rep, R):
    prog = ctx.prog
    P = prog.find1(r"^rustic_core::blob::packer::FileWriterHandle::<BE>::process$")
    # (a) in process: write_bytes(Pack) is `?`-propagated and cuts every Ok return
    W = lambda t: "callee" in t and is_method_of(t, RE_WRITE_BYTES)
    ws = sites(ctx, P, W)
    rep.require(R, "16/blob::packer::FileWriterHandle::<BE>::process/A-present", len(ws) == 1, where=P.loc(), what="FileWriterHandle::process writes the pack with write_bytes")
    if len(ws) == 1:
        kind, edges = ok_cut(P, ws[0])
        rep.check(R, "16/blob::packer::FileWriterHandle::<BE>::process/A-propagated", kind == "?", where=where(P, ws[0]), what="write_bytes(Pack) result is `?`-propagated in process")
        reach = P.reachable_from(0, cut_edges=edges)
        okret = [bi for bi, b in enumerate(P.blocks) for s in b["s"] if s[0] == "=" and s[1] == [0] and s[2][0] == "agg" and s[2][1][0] == "adt" and s[2][1][2] == "Ok"]
        rep.check(R, "16/blob::packer::FileWriterHandle::<BE>::process/order", okret and not any(b in reach for b in okret), where=P.loc(),
                  what="process returns Ok(index entry) only after write_bytes(Pack) succeeded")
    # (b) the written pack is registered once, from the Actor::new pipeline, on the `?` of the process result: through
    # FileWriterHandle::index or, when that one-liner is inlined, by Indexer::add directly in the pipeline closure
    IDX = call_pred(r"^rustic_core::blob::packer::FileWriterHandle::<BE>::index$")
    ADDI = call_pred(r"^rustic_core::index::indexer::Indexer::<BE>::add$")
    callers = []
    for b in prog.by_crate["rustic_core"]:
        for bb, t in b.calls():
            if IDX(t) or (ADDI(t) and b.path.startswith("rustic_core::blob::packer::Actor::new::")):
                callers.append((b, bb, t))
    rep.check(R, "16/index-callers", len(callers) == 1 and callers[0][0].path.startswith("rustic_core::blob::packer::Actor::new::"), where=callers[0][0].loc() if callers else "",
              what=f"a written pack is handed to the indexer at exactly one site, inside the Actor::new pipeline ({[fn_key(c[0]) for c in callers]})")
    if len(callers) == 1:
        b, bb, t = callers[0]
        org = flow.origins(b, op_place(t["args"][1])) if op_place(t["args"][1]) else []
        from_param = bool(org) and all(o.kind == "arg" and o.data[0] == 2 for o in org)
        has_try = any(flow.TRY_BRANCH.search(callee(tt)) for _, tt in b.calls() if "callee" in tt)
        pty = b.locals[2] if len(b.locals) > 2 else ""
        rep.check(R, "16/index-arg", from_param and has_try and "Result<" in pty and "IndexPack" in pty, where=where(b, bb),
                  what="the entry handed to the indexer is the `?` of the pipeline item (RusticResult<IndexPack> produced by process): a failed pack write is never indexed")
    # (c) between process and index no stage drops items: the adaptor chain in Actor::new
    A = prog.find1(r"^rustic_core::blob::packer::Actor::new$")
    root_closure = [c for c in prog.closures_of(A, recursive=True)]
    adaptors = []
    for c in root_closure:
        for bb, t in c.calls():
            cn = callee_decl(t)
            if re.search(r"(Iterator|ParallelIterator|IteratorExt|ReadaheadIterator)::|pariter::", cn) or "::readahead" in cn or "::parallel_" in cn:
                adaptors.append(cn)
    allowed = re.compile(r"::(map|readahead_scoped|try_for_each|into_iter|next|parallel_map_scoped)$")
    bad = [a for a in adaptors if not allowed.search(a)]
    rep.check(R, "16/pipeline-adaptors", len(adaptors) >= 4 and not bad, where=A.loc(),
              what=f"Actor::new pipeline uses only order/element preserving adaptors between hash, process and index ({len(adaptors)} adaptor calls)" if not bad else f"Actor::new pipeline contains a filtering/reordering adaptor: {bad}")
