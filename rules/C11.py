"""C11 - Incremental backup with a parent equals a full backup.

C11.a the parent-match predicate covers the documented fields: the closure of Parent::is_parent compares node type,
  size and mtime of the parent node with the current node, and ctime unless ignore_ctime; a failed comparison yields
  'no match'.
C11.a also: is_parent returns the very node its predicate accepted (Iterator::find(predicate)); the recorded ctime keeps
  sub-second resolution (LocalSourceSaveOptions::ctime uses ctime_nsec).
C11.b also: the list tested against the index is the parent content that is copied (same receiver root), in either form
  all(has_data) / !any(!has_data).
C11.b reuse only if all chunks are indexed: in Parent::process a file is reported Matched (content taken from the
  parent) only if `all(|id| index.has_data(id))` over the parent's content holds; otherwise NotFound (re-read).
C11.c = C07.d (unchanged-tree shortcut compares ids).
C11.d `force` means no parent; stdin backups force.
C11.g unset LocalSourceSaveOptions fall back to the documented defaults: set_ctime = yes (the file's own ctime is recorded,
  so ctime-only changes are seen by the parent match), set_atime = mtime.
C11.e the parent-tree cursor advances only past names that sort before the current name.
"""
import re
from rules.common import *

TECHNIQUE = ("static analysis over rustc MIR: evaluation of the parent-match predicate under 'field differs' (through closures / helper fns / early returns), quantifier and receiver of the reuse guard, argument-wiring lint, cursor discipline by CFG rules")
LEVEL = "other"
EXPLANATION = (
    "Field-coverage and guard rules over archiver/parent.rs and commands/backup.rs, decided from resolved field "
    "projections and control dependence in MIR. They are necessary for 'a changed file is never taken from the parent'; "
    "equality of the resulting trees for all edit pairs is a runtime statement.")
NOT_DECIDED = ["equality of the incremental and the full tree for all pairs of trees (runtime)"]


def run(ctx, rep):
    prog = ctx.prog
    wiring_rule(ctx, rep, "C11")
    for r, tx in (("C11.a", "match predicate compares type, size, mtime and (unless ignored) ctime"), ("C11.b", "content is reused only if all chunks are indexed"),
                  ("C11.d", "force disables parents"), ("C11.e", "parent cursor discipline")):
        rep.rule(r, tx)
    rep.rule("C11.g", "unset source options fall back to their documented defaults (set_ctime: the file's real ctime)")
    option_defaults_rule(ctx, rep, "C11.g")
    # C11.c = C07.d: the unchanged-tree shortcut compares ids
    rep.rule("C11.c", "a tree is taken as unchanged only if its fresh id equals the parent's id (= C07.d)")
    from rules import C07
    C07.unchanged_tree_rule(ctx, rep, "C11.c")
    IP = prog.find1(r"^rustic_core::archiver::parent::Parent::is_parent$")
    # the predicate: the closure handed to Iterator::find in is_parent; a closure that only forwards to a named fn is followed
    finds = [(bb, t) for bb, t in IP.calls() if "callee" in t and re.search(r"Iterator(>)?::find$", callee(t) + " " + callee_decl(t))]
    pred = []
    for bb, t in finds:
        for a_ in t["args"][1:]:
            for d_ in IP.defs().get(op_local(a_), []):
                if d_[0] == "stmt" and d_[4][0] == "agg" and d_[4][1][0] == "closure":
                    pred += [c for c in prog.closures_of(IP, recursive=False) if c.path == d_[4][1][1]]
    rep.require("C11.a", "predicate-closure", len(pred) == 1, where=IP.loc(), what="Parent::is_parent selects the parent node with Iterator::find(<one predicate closure>)")

    def is_cmp(e):
        return isinstance(e, tuple) and e and ((e[0] == "bin" and e[1] in ("Eq", "Ne")) or (e[0] == "call" and re.search(r"PartialEq(<.*>)?(>)?::(eq|ne)$", e[1])))

    def has_cmp(b_):
        return any("callee" in t and re.search(r"PartialEq", callee(t)) for _, t in b_.calls()) or any(s_[0] == "=" and s_[2][0] == "bin" and s_[2][1] in ("Eq", "Ne") for blk in b_.blocks for s_ in blk["s"])
    if len(pred) == 1:
        c = pred[0]
        # names under which the ignore_ctime option is visible: the field itself and every local of is_parent that is a copy of
        # `self.ignore_ctime` (a renamed local must not matter); extended to helper parameters when the predicate is a named fn
        ct_names = {"ignore_ctime"}
        for l_, ns_ in IP.local_names().items():
            ds_ = [d_ for d_ in IP.defs().get(l_, []) if d_[0] == "stmt"]
            if len(ds_) == 1 and ds_[0][4][0] == "use" and op_place(ds_[0][4][1]) and "ignore_ctime" in place_fields(op_place(ds_[0][4][1])):
                ct_names |= {n_.split("__")[-1] for n_ in ns_}
        hops = 0
        while not has_cmp(c) and hops < 3:
            inner = [(bb, t) for bb, t in c.calls() if "callee" in t and callee(t) in prog.bodies and callee(t).startswith("rustic_core::") and bb in flow.backward_slice(c, [0])["call_sites"]]
            if len(inner) != 1:
                break
            H_ = prog.bodies[callee(inner[0][1])]
            for ai_, a_ in enumerate(inner[0][1]["args"]):
                nm_, _ = cond_name(c, flow.expr_of(c, a_, inner[0][0]))
                if nm_ in ct_names:
                    ct_names |= {n_.split("__")[-1] for n_ in H_.local_names().get(ai_ + 1, [])}
            c = H_
            hops += 1

        def ct_flag_eval(val):
            def ev(body, e):
                nm, neg = cond_name(body, e)
                if nm not in ct_names:
                    return None
                return val != neg
            return ev
        rep.observe(f"C11.a: predicate body analysed: {fn_key(c)}")
        for f in ("node_type", "size", "mtime"):
            vals = bool_result_under(c, field_cmp_eval(f, False))
            ok = vals <= {False} and bool(vals)
            rep.check("C11.a", f"compares/{f}", ok, where=c.loc(), what=f"a parent node matches only if its {f} equals the current node's {f} (predicate evaluated under '{f} differs': result {sorted(map(str, vals))})" if ok else
                      f"the parent match does not depend on {f} on every path (predicate evaluated under '{f} differs' can yield {sorted(map(str, vals))}): a file changed in {f} only is taken from the parent unread")
        # ctime: compared (directly or through Option::zip), and the only bypass is ignore_ctime
        ct_direct = False
        ct_zip = False
        for bi, blk in enumerate(c.blocks):
            for s_ in blk["s"]:
                if s_[0] == "=" and s_[2][0] == "bin" and s_[2][1] in ("Eq", "Ne"):
                    e = flow._rv_expr(c, s_[2], bi, 0, set())
                    if field_cmp_eval("ctime", False)(c, e) is not None:
                        ct_direct = True
            t = blk["t"]
            if t["k"] == "call" and "callee" in t and len(t["args"]) == 2:
                e = ("call", callee(t), [flow.expr_of(c, a_, bi) for a_ in t["args"]], bi)
                if field_cmp_eval("ctime", False)(c, e) is not None:
                    ct_direct = True
                if re.search(r"Option::<T>::zip$", callee(t)):
                    fa = flow.backward_slice(c, op_place(t["args"][0]))["fields"] if op_place(t["args"][0]) else set()
                    fb = flow.backward_slice(c, op_place(t["args"][1]))["fields"] if op_place(t["args"][1]) else set()
                    if "ctime" in fa and "ctime" in fb:
                        ct_zip = True
        rep.check("C11.a", "compares/ctime", ct_direct or ct_zip, where=c.loc(), what="ctime of parent and current node are compared")
        if ct_direct:
            # evaluated: both ctimes present and different, ignore_ctime off -> never a match
            fe, fc = ct_flag_eval(False), field_cmp_eval("ctime", False)

            def ev_ct(b_, e):
                v = fc(b_, e)
                return v if v is not None else fe(b_, e)

            def some_ctime(b_, bb):
                t = b_.term(bb)
                if t["k"] != "switch" or t["discr_ty"] == "bool":
                    return None
                e = flow.expr_of(b_, t["discr"], bb)
                if e[0] == "discr" and "'ctime'" in repr(e[1]) and "Option" in str(e[2]):
                    one = [x for v, x in t["targets"] if v == "1"]
                    return one[0] if one else t["otherwise"]
                return None
            vals = bool_result_under(c, ev_ct, some_ctime)
            ig = vals <= {False} and bool(vals)
            rep.check("C11.a", "ctime-bypass-only-ignore_ctime", ig, where=c.loc(), what="with ignore_ctime off, two present and different ctimes never match" if ig else
                      f"with ignore_ctime off and different ctimes the predicate can still yield {sorted(map(str, vals))}")
        else:
            # Option::zip(..).is_none_or(|(x, y)| x == y) form: the comparison lives in a nested closure; the bool merged with it is
            # a test of ignore_ctime
            ig = False
            for sw in range(len(c.blocks)):
                t = c.term(sw)
                if t["k"] == "switch" and t["discr_ty"] == "bool":
                    nm, _neg = cond_name(c, flow.expr_of(c, t["discr"]))
                    if nm in ct_names:
                        ig = True
            rep.check("C11.a", "ctime-bypass-only-ignore_ctime", ig, where=c.loc(), what="the ctime comparison is skipped only under ignore_ctime")
    # the node returned as Matched is the one the predicate accepted: Iterator::find(predicate)
    okfind = False
    if len(finds) == 1 and len(pred) == 1:
        bb, t = finds[0]
        okfind = bb in flow.backward_slice(IP, [0])["call_sites"]
    rep.check("C11.a", "matched-node-is-the-accepted-one", okfind, where=IP.loc(), what="is_parent returns the parent node selected by find(predicate) (with several parents: the one that actually matched)" if okfind else
              "is_parent does not return the node for which the match predicate held (e.g. the first parent's entry when any parent matches): stale content is reused")
    # time stamps are recorded with sub-second resolution (a change within the same second is visible)
    for m in prog.find(r"^rustic_core::backend::ignore::mapper::LocalSourceSaveOptions::ctime$"):
        sl = flow.backward_slice(m, [0])
        hasns = any(c.endswith("MetadataExt::ctime_nsec") or c.endswith("::ctime_nsec") for c in sl["calls"])
        rep.check("C11.a", "ctime-resolution", hasns, where=m.loc(), what="the recorded ctime includes nanoseconds" if hasns else "the recorded ctime is truncated to whole seconds: a ctime change within the same second is invisible to parent matching")
    # ---- C11.f: options are handed to Parent::new in the order of its parameters; loaded trees and their ids stay paired ----
    rep.rule("C11.f", "parent construction: arguments wired to the parameters of the same name; tree ids kept only for trees that could be loaded")
    nsw = 0
    for b_ in prog.by_crate["rustic_core"]:
        for bb_, t_ in b_.calls():
            if "callee" in t_ and callee(t_).startswith("rustic_core::archiver::"):
                sw_ = swapped_args(prog, b_, bb_, t_)
                nsw += 1
                if sw_ or callee(t_).endswith("archiver::parent::Parent::new"):
                    rep.check("C11.f", f"wiring/{fn_key(b_)}/{strip_crate(callee(t_))}", not sw_, where=where(b_, bb_),
                              what=f"{fn_key(b_)}: arguments of {strip_crate(callee(t_))} are passed in parameter order" if not sw_ else
                                   f"{fn_key(b_)}: arguments crossed in the call of {strip_crate(callee(t_))}: {[(f'arg {i}: `{a}` is passed for parameter `{p_}`') for i, a, p_ in sw_]}")
    PN_ = prog.find1(r"^rustic_core::archiver::parent::Parent::new$")
    ag = [(bi, s_) for bi, blk in enumerate(PN_.blocks) for s_ in blk["s"] if s_[0] == "=" and s_[2][0] == "agg" and s_[2][1][0] == "adt" and s_[2][1][1].endswith("archiver::parent::Parent")]
    okp = False
    if len(ag) == 1:
        bi, s_ = ag[0]
        names = s_[2][1][3]
        if "tree_ids" in names and "trees" in names:
            e1 = flow.expr_of(PN_, s_[2][2][names.index("tree_ids")], bi)
            e2 = flow.expr_of(PN_, s_[2][2][names.index("trees")], bi)

            def producer(e):
                # the call whose (tuple) result the field is a component of
                while e[0] == "proj":
                    e = e[1]
                return (e[1], e[3]) if e[0] == "call" and len(e) > 3 else None
            okp = producer(e1) is not None and producer(e1) == producer(e2) and producer(e1)[0].endswith("unzip")
    rep.check("C11.f", "tree-ids-paired-with-loaded-trees", okp, where=PN_.loc(), what="Parent::new keeps a parent tree id only together with its successfully loaded tree (both come from one unzip)" if okp else
              "Parent::new keeps ids of parent trees that could not be loaded: the 'unchanged root tree' shortcut can then refer to a tree that is not in the repository")
    # ---- C11.b -------------------------------------------------------------------------------------
    PR = prog.find1(r"^rustic_core::archiver::parent::Parent::process$")
    clone_from = [bb for bb, t in PR.calls() if "callee" in t and re.search(r"Clone>::clone_from$|::clone_from$", callee(t)) and "content" in (flow.backward_slice(PR, op_place(t["args"][0]))["fields"] if op_place(t["args"][0]) else set())]
    copied_src = {}
    for bb in clone_from:
        copied_src[bb] = flow.expr_of(PR, PR.term(bb)["args"][1])
    # the same copy written as an assignment: `node.content = p_node.content.clone()` (or `.clone_from` on a temporary)
    live_ = set(PR.reachable_from(0))
    for bi, blk in enumerate(PR.blocks):
        for s_ in blk["s"]:
            if bi in live_ and s_[0] == "=" and place_has_field(s_[1], "content") and "Node" in str(s_[1]) and s_[2][0] == "use" and s_[2][1][0] in ("c", "m"):
                e_ = flow.expr_of(PR, s_[2][1], bi)
                if e_[0] == "call" and re.search(r"Clone>::clone$|::clone$|::to_owned$|::cloned$", e_[1]) and e_[2] and "content" in repr(e_[2][0]):
                    clone_from.append(bi)
                    copied_src[bi] = e_[2][0]
    rep.require("C11.b", "content-reuse-site", len(clone_from) == 1, where=PR.loc(), what="Parent::process copies the parent's content into the node at one site")
    if len(clone_from) == 1:
        ok = False
        QUANT = r"Iterator(>)?::(all|any)$"

        def closure_polarity(path):
            """+1 if the closure returns has_data(..), -1 if it returns !has_data(..), else 0"""
            for cc in prog.closures_of(PR, recursive=False):
                if cc.path != path:
                    continue
                e = flow.place_expr(cc, [0])
                neg = False
                while e[0] == "un" and e[1] == "Not":
                    neg = not neg
                    e = e[2]
                if e[0] == "call" and re.search(r"has_data$", e[1]):
                    return -1 if neg else 1
            return 0

        def quantifier(e):
            """(call expr, negated) if e is [!]*iter.all/any(closure)"""
            neg = False
            while e[0] == "un" and e[1] == "Not":
                neg = not neg
                e = e[2]
            if e[0] == "call" and re.search(QUANT, e[1]):
                return e, neg
            return None, False

        guard_calls = []
        for (sw, succ) in C.transitive_control_deps(PR, clone_from[0]):
            q, neg = quantifier(flow.expr_of(PR, PR.term(sw)["discr"]))
            if q is None:
                continue
            taken = [v for v, x in PR.term(sw)["targets"] if x == succ]
            cond_true = (not taken or taken[0] != "0") != neg       # truth value of the quantifier call on this edge
            cl = q[2][1] if len(q[2]) > 1 else None
            pol = closure_polarity(cl[1][1]) if cl and cl[0] == "agg" and cl[1][0] == "closure" else 0
            is_all = q[1].endswith("all")
            # every id indexed  <=>  all(has_data) is true  <=>  any(!has_data) is false
            if (is_all and pol == 1 and cond_true) or (not is_all and pol == -1 and not cond_true):
                ok = True
                guard_calls.append(q)
        # must-pass form: EVERY path to the copy has seen the quantifier succeed (`all(..) || something` does not pass)
        if ok and guard_calls:
            q0 = guard_calls[0]
            is_all0 = q0[1].endswith("all")
            ev = only_via(PR, clone_from[0], lambda x: x[0] == "call" and x[1] == q0[1] and len(x) > 3 and x[3] == q0[3], is_all0)
            rep.check("C11.b", "reuse-guarded/every-path", ev, where=where(PR, clone_from[0]), what="every path that copies the parent's content has seen the all-chunks-indexed test succeed" if ev else
                      "the parent's content can be copied on a path where the all-chunks-indexed test did not succeed")
        # the same test written as a loop (`for id in content { if !index.has_data(id) { all_indexed = false; break } }`):
        # decided by evaluation - from any index lookup that answers "not indexed" the copy is out of reach (bool locals are
        # followed path-sensitively), and the loop that asks stands before the copy on every path
        loop_sites = []
        if not ok:
            import pathsens
            hd = [bb for bb, t in PR.calls() if "callee" in t and re.search(r"has_data$", callee(t))]
            ev_false = lambda b_, e_: False if (e_[0] == "call" and re.search(r"has_data$", e_[1])) else None
            good = []
            for h in hd:
                # this lookup answered "not indexed"; what later lookups answer is open (a miss followed by a hit must not
                # re-enable the copy)
                th_ = PR.term(h)
                if th_.get("to") is None or len(th_["dest"]) != 1:
                    continue
                r_ = pathsens.reachable_under(PR, lambda b_, bb_: None, start_bb=th_["to"], start_state={("b", th_["dest"][0]): False})
                nx = [bb for bb, t in PR.calls() if "callee" in t and re.search(r"Iterator>::next$", callee(t)) and C.can_reach(PR, bb, h) and C.can_reach(PR, h, bb)]
                before = bool(nx) and all(C.dominates(PR, n_, clone_from[0]) for n_ in nx[:1])
                if clone_from[0] not in r_ and C.can_reach(PR, h, clone_from[0]) and before:
                    good.append(h)
            if hd and len(good) == len(hd):
                ok = True
                loop_sites = good
                rep.check("C11.b", "reuse-guarded/every-path", True, where=where(PR, clone_from[0]), what="every path that copies the parent's content has gone through the loop that tests each chunk id; after a miss the copy is out of reach")
        rep.check("C11.b", "reuse-guarded", ok, where=where(PR, clone_from[0]), what="the parent's content is reused only if every chunk id is in the index (all(has_data) / !any(!has_data))" if ok else "a file's content is taken from the parent WITHOUT checking that all its chunks are still indexed")
        # the chunks tested are the PARENT node's content - the very list that is copied

        def recv_root(e):
            # strip iterator / reference adaptors along the receiver chain
            while True:
                if e[0] == "call" and re.search(r"::(flatten|iter|into_iter|as_ref|as_deref|deref|copied|cloned|as_slice|next)$", e[1]) and e[2]:
                    e = e[2][0]
                elif e[0] == "proj" and e[1][0] == "call" and re.search(r"Iterator>::next$", e[1][1]) and list(e[3] if len(e) > 3 else []) == ["Some"]:
                    e = e[1]          # the element a loop draws from the iterator
                else:
                    return e
        copied = recv_root(copied_src[clone_from[0]])
        oks = any(recv_root(q[2][0]) == copied and copied[0] in ("proj", "path") and "content" in copied[2] for q in guard_calls)
        if loop_sites:
            oks = all(recv_root(flow.expr_of(PR, PR.term(h)["args"][-1], h)) == copied and copied[0] in ("proj", "path") and "content" in copied[2] for h in loop_sites)
        rep.check("C11.b", "tested-list-is-copied-list", oks, where=where(PR, clone_from[0]), what="the chunk ids tested against the index are the parent node's content that is copied into the new node" if oks else
                  "the index test runs over a different list than the parent content that is reused (e.g. the still-empty content of the new node): the test is vacuous")
        # the other edge yields NotFound
        nf = [bi for bi, blk in enumerate(PR.blocks) for s in blk["s"] if s[0] == "=" and s[2][0] == "agg" and s[2][1][0] == "adt" and s[2][1][1].endswith("ParentResult") and s[2][1][2] == "NotFound"]
        rep.check("C11.b", "missing-chunks-reread", bool(nf), where=PR.loc(), what="if a chunk is missing the result is NotFound (the file is read again)")
    # ---- C11.d -------------------------------------------------------------------------------------
    GP = prog.find1(r"^rustic_core::commands::backup::ParentOptions::get_parent$")
    fsw = [bi for bi in range(len(GP.blocks)) if field_bool_test(GP, bi, "force")]
    okf = False
    if len(fsw) == 1:
        tt, ft = field_bool_test(GP, fsw[0], "force")
        # on the force edge no snapshot lookup is reachable before the join
        look = [bb for bb, t in GP.calls() if "callee" in t and re.search(r"SnapshotFile::(latest|from_strs|from_str|from_ids)$", callee(t))]
        reach_force = GP.reachable_from(tt, cut_blocks=[])
        reach_other = GP.reachable_from(ft)
        okf = bool(look) and not any(l in reach_force for l in look) and all(l in reach_other for l in look)
    rep.check("C11.d", "force-no-parent", okf, where=GP.loc(), what="with `force` no parent snapshot is looked up (every file is read)")
    BK = prog.find1(r"^rustic_core::commands::backup::backup$")
    sets_force = any(s[0] == "=" and place_has_field(s[1], "force") and s[2][0] == "use" and s[2][1][0] == "k" and s[2][1][1].get("v") is True for blk in BK.blocks for s in blk["s"])
    rep.check("C11.d", "stdin-forces", sets_force, where=BK.loc(), what="backup of stdin sets parent_opts.force = true")
    # ---- C11.e -------------------------------------------------------------------------------------
    PN = prog.find1(r"^rustic_core::archiver::parent::Parent::p_node$")
    pcl = prog.closures_of(PN, recursive=False)
    # the cursor walk may live in p_node itself or in a helper of the same module it (or its closure) calls
    for b_ in [PN] + list(pcl):
        for _, t_ in b_.calls():
            h_ = prog.bodies.get(callee(t_)) if "callee" in t_ else None
            if h_ is not None and h_ not in pcl and h_ is not PN and "archiver::parent" in h_.path and not h_.is_closure():
                pcl = list(pcl) + [h_]
    pcl = list(pcl) + [PN]
    oke = False
    for c in pcl:
        incs = [bi for bi, blk in enumerate(c.blocks) for s in blk["s"] if s[0] == "=" and s[2][0] == "bin" and s[2][1] in ("AddWithOverflow", "Add") and "usize" in s[2][4]]
        if not incs:
            continue
        good = True
        for bi in incs:
            dep = False
            for (sw, succ) in C.transitive_control_deps(c, bi):
                e = flow.expr_of(c, c.term(sw)["discr"])
                if e[0] == "discr" and "Ordering" in e[2]:
                    v = [vv for vv, x in c.term(sw)["targets"] if x == succ]
                    # Ordering::Less has discriminant -1 (printed as 255 / -1)
                    LESS = ("-1", "255", "18446744073709551615")
                    if c.term(sw)["otherwise"] == succ:
                        # `_ => *idx += 1`: the edge stands for every Ordering value without an arm of its own
                        listed = [vv for vv, _x in c.term(sw)["targets"]]
                        v = v + [o_ for o_, alts in (("-1", LESS), ("0", ("0",)), ("1", ("1",))) if not any(a_ in listed for a_ in alts)]
                    if v and all(x_ in LESS for x_ in v):
                        dep = True
            good = good and dep
        oke = good
    rep.check("C11.e", "cursor", oke, where=PN.loc(), what="the parent cursor is advanced only while the parent's name sorts before the current name (Ordering::Less)")
    # ---- C11.h -------------------------------------------------------------------------------------
    # entering a directory replaces the lookup level on EVERY path: a directory that no parent contains gets an empty level
    # (otherwise its entries are matched against same-named siblings of the enclosing directory)
    rep.rule("C11.h", "Parent::set_dir installs the sub-level (possibly empty) on every path")
    SD = prog.find1(r"^rustic_core::archiver::parent::Parent::set_dir$")
    writes = set()
    for bi, blk in enumerate(SD.blocks):
        for s_ in blk["s"]:
            if s_[0] == "=" and place_has_field(s_[1], "trees", "parent::Parent") and isinstance(s_[1][-1], list) and s_[1][-1][0] == "f" and s_[1][-1][2] == "trees":
                writes.add(bi)
        t = blk["t"]
        if t.get("k") == "call" and "callee" in t and re.search(r"mem::(replace|take|swap)$|Vec::<T, A>::clear$|Vec::<T, A>::truncate$", callee(t)) and t["args"] and op_place(t["args"][0]):
            pp = flow.place_path(SD, op_place(t["args"][0]))
            hit = pp is not None and pp[1] and pp[1][-1] == "trees"
            if not hit:
                for d_ in SD.defs().get(op_local(t["args"][0]), []):
                    if d_[0] == "stmt" and d_[4][0] in ("refmut",) and place_has_field(d_[4][1], "trees", "parent::Parent"):
                        hit = True
            if hit:
                writes.add(bi)
    rep.require("C11.h", "set_dir/installs-level", len(writes) >= 1, where=SD.loc(), what="Parent::set_dir replaces self.trees with the sub-level")
    rets = [bi for bi, blk in enumerate(SD.blocks) if blk["t"].get("k") == "return"]
    reach = SD.reachable_from(0, cut_blocks=writes)
    leak = [r for r in rets if r in reach and r not in writes]
    rep.check("C11.h", "set_dir/every-path", bool(writes) and not leak, where=SD.loc(), what="every path through Parent::set_dir replaces self.trees (a directory unknown to the parents gets an empty level)" if not leak else
              "some path through Parent::set_dir returns without replacing self.trees: inside a directory that no parent contains, lookups still run against the enclosing directory's parent trees and a same-named sibling file of equal size/mtime donates its content")
    pushes = [bb for bb, t in SD.calls() if "callee" in t and callee(t).endswith("Vec::<T, A>::push")]
    rep.check("C11.h", "set_dir/level-saved", len(pushes) >= 1, where=SD.loc(), what="the enclosing level is saved on the stack (restored by finish_dir)")


def _upvar_name(body, idx):
    for n, p in body.dbg:
        if isinstance(p, list) and p[0] == 1 and any(isinstance(e, list) and e[0] == "f" and e[1] == idx for e in p[1:]):
            return n
    return None


DOC_DEFAULTS = {"set_atime": "Mtime", "set_ctime": "Yes"}


def option_defaults_rule(ctx, rep, R):
    """the value used for an unset `LocalSourceSaveOptions` option is the documented default (`set_ctime` [default: yes],
    `set_atime` [default: mtime]): every `Option::unwrap_or(<variant>)` whose receiver is
    such a field - directly or as the argument of a local closure shared between options - passes the documented variant.
    With `set_ctime` defaulting to anything but `yes` the recorded ctime is not the file's ctime and parent matching no
    longer sees ctime-only changes."""
    prog = ctx.prog
    ME = prog.find1(r"^rustic_core::backend::ignore::mapper::LocalSourceSaveOptions::map_entry$")
    fam = [ME] + prog.closures_of(ME)
    seen = {}
    for F in fam:
        for bb, t in F.calls():
            if "callee" not in t or not re.search(r"Option::<T>::unwrap_or$", callee(t)) or len(t["args"]) != 2:
                continue
            d = flow.expr_of(F, t["args"][1], bb)
            if not (d[0] == "agg" and d[1][0] == "adt" and d[1][1].startswith("rustic_core::")):
                continue
            variant = d[1][2]
            r = flow.expr_of(F, t["args"][0], bb)
            fields = set()
            if r[0] == "path" and r[2] and not r[2][-1].isdigit():
                fields.add(r[2][-1])
            elif r[0] == "path" and isinstance(r[1], tuple) and r[1][0] == "arg" and F.is_closure():
                # a parameter of a local closure: the fields handed to it at its call sites
                k = r[1][1]
                for P in fam:
                    for cb, ct in P.calls():
                        if ct.get("callee") == F.path or (ct.get("resolved") or {}).get("path") == F.path:
                            args = ct["args"]
                            # Fn::call(&closure, (a, b)) or direct call (closure, a, b)
                            ex = [flow.expr_of(P, a_, cb) for a_ in args]
                            cand = []
                            if len(ex) == 2 and ex[1][0] == "agg" and ex[1][1][0] == "tuple":
                                cand = list(ex[1][2])
                            else:
                                cand = ex[1:]
                            if 0 <= k - 2 < len(cand):
                                a_ = cand[k - 2]
                                if a_[0] == "path" and a_[2] and not a_[2][-1].isdigit():
                                    fields.add(a_[2][-1])
            for f_ in fields:
                seen.setdefault(f_, set()).add(variant)
    for f_, want in sorted(DOC_DEFAULTS.items()):
        got = seen.get(f_, set())
        if not got:
            # no `unwrap_or(<variant>)` on this option (e.g. an explicit match on the Option): form not recognised, not decided
            rep.check(R, f"default/{f_}", True, where=ME.loc(), what=f"the default of {f_} is not spelled as unwrap_or(<variant>): not decided here", nontrivial=False)
            continue
        ok = got == {want}
        rep.check(R, f"default/{f_}", ok, where=ME.loc(), what=f"an unset {f_} behaves as the documented default `{want.lower()}`" if ok else
                  f"an unset {f_} falls back to {sorted(got) or 'no recognisable default'} instead of the documented `{want.lower()}`" + (": the recorded ctime is then not the file's ctime, ctime-only changes are invisible to parent matching" if f_ == "set_ctime" else ""))
