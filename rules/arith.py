def run_c18(ctx, rep):
    pass
