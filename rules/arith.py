"""R-ARITH: option-derived arithmetic cannot trap or wrap (C18.a, C06.a).

For the functions that compute with option values (prune limits, pack sizing, chunker parameters) every operation
that can panic - MIR Assert(Overflow / DivisionByZero / RemainderByZero), calls of the arithmetic operator traits on
integer references, clamp - whose operands are tainted by an option value must be proved safe by the interval
analysis (engine/interval.py): operand widths, dominating comparisons, `a >= b` facts, validator summaries (facts
that hold when a validator such as check_rabin_params returned Ok) and struct-field invariants established by the
constructor. Untainted operands (repository data sizes, in-memory lengths) are assumed below 2^60 / 2^47.
"""
import re
from rules.common import *
import interval

# function regex -> description of taint sources (places whose reads are option-derived)
def _src_limit_option(body, p):
    return any(isinstance(e, list) and e[0] == "d" and e[1] in ("Percentage",) for e in p[1:])


def _src_fields(owner_suffix, names):
    def f(body, p):
        for e in p[1:]:
            if isinstance(e, list) and e[0] == "f" and e[2] in names and (e[4] or "").endswith(owner_suffix):
                return True
        return False
    return f


def _src_args(idxs):
    def f(body, p):
        return len(p) == 1 and p[0] in idxs
    return f


PACKSIZER_FIELDS = {"default_size", "grow_factor", "size_limit", "min_packsize_tolerate_percent", "max_packsize_tolerate_percent"}

TARGETS = [
    (r"^rustic_core::commands::prune::PrunePlan::decide_repack$", _src_limit_option, "LimitOption::Percentage payload of max_unused / max_repack"),
    (r"^rustic_core::blob::packer::PackSizer::pack_size$", _src_fields("packer::PackSizer", PACKSIZER_FIELDS), "PackSizer option fields"),
    (r"^rustic_core::blob::packer::PackSizer::size_ok$", _src_fields("packer::PackSizer", PACKSIZER_FIELDS), "PackSizer option fields"),
    (r"^rustic_core::blob::packer::PackSizer::is_too_small$", _src_fields("packer::PackSizer", PACKSIZER_FIELDS), "PackSizer option fields"),
    (r"^rustic_core::blob::packer::PackSizer::is_too_large$", _src_fields("packer::PackSizer", PACKSIZER_FIELDS), "PackSizer option fields"),
    (r"^rustic_core::blob::packer::PackSizer::add_size$", _src_fields("packer::PackSizer", PACKSIZER_FIELDS), "PackSizer option fields"),
    (r"^rustic_core::chunker::rabin::check_rabin_params$", _src_args({1, 2, 3}), "chunk_size, chunk_min_size, chunk_max_size"),
    (r"^rustic_core::chunker::rabin::ChunkIter::<R>::new$", _src_args({2, 3, 4}), "chunk_size, chunk_min_size, chunk_max_size"),
    (r"^<rustic_core::chunker::rabin::ChunkIter<R> as std::iter::Iterator>::next$", _src_fields("rabin::ChunkIter", {"min_size", "max_size", "split_mask"}), "validated chunker parameters stored in the iterator"),
    (r"^<rustic_core::chunker::fixed_size::ChunkIter<R> as std::iter::Iterator>::next$", _src_fields("fixed_size::ChunkIter", {"size"}), "chunk size stored in the iterator"),
]

# internal (non-option) invariants the analysis cannot derive; stated, not proved
LEMMAS = {
    # key part -> (description)
}


def analyse_all(ctx):
    prog = ctx.prog
    # validator summaries
    validators = {}
    V = prog.find1(r"^rustic_core::chunker::rabin::check_rabin_params$")
    vs = interval.validator_summary(prog, V)
    if vs:
        validators[V.path] = interval.apply_summary(vs)
    # field invariants of the rabin ChunkIter from its constructor
    N = prog.find1(r"^rustic_core::chunker::rabin::ChunkIter::<R>::new$")
    field_inv = {}
    an = interval.Analysis(prog, N, sources=_src_args({2, 3, 4}), validators=validators)

    def hook(a, st, place, rv, bb):
        if rv[0] == "agg" and rv[1][0] == "adt" and rv[1][1].endswith("rabin::ChunkIter"):
            for fname, op in zip(rv[1][3], rv[2]):
                iv, k, t = a.read(st, op)
                if iv is not None and fname in ("min_size", "max_size", "split_mask"):
                    old = field_inv.get(("ChunkIter", fname))
                    field_inv[("ChunkIter", fname)] = iv if old is None else (min(old[0], iv[0]), max(old[1], iv[1]))
    an.on_assign = hook
    an.run()
    # length invariant of the carry buffer: created with a constant length and only ever shrunk
    blen = buffer_len_invariant(prog, N)
    if blen is not None:
        field_inv[("ChunkIter.len", "buf")] = (0, blen)
    results = []
    for rx, src, desc in TARGETS:
        b = prog.find1(rx)
        a = interval.Analysis(prog, b, sources=src, validators=validators, field_inv=field_inv if "rabin::ChunkIter" in b.path else {})
        a.run()
        results.append((b, a, desc))
    return results, vs, field_inv


GROW = re.compile(r"Vec::<T, A>::(push|extend_from_slice|resize|resize_with|insert|append|extend|reserve|set_len)$|as std::iter::Extend")


def buffer_len_invariant(prog, N):
    """max length of rabin ChunkIter.buf: the constant it is created with, provided no function ever grows it"""
    cap = None
    for bi, blk in enumerate(N.blocks):
        t = blk["t"]
        if t["k"] == "call" and "callee" in t and callee(t).endswith("std::vec::from_elem"):
            e = flow.expr_of(N, t["args"][1])
            if e[0] == "const" and isinstance(e[1], int):
                cap = e[1]
    if cap is None:
        return None
    for b in prog.by_crate["rustic_core"]:
        if "chunker::rabin" not in b.path:
            continue
        for bb, t in b.calls():
            if "callee" in t and GROW.search(callee(t)) and t["args"] and op_place(t["args"][0]):
                pp = flow.place_path(b, op_place(t["args"][0]))
                if pp and "buf" in pp[1]:
                    return None
        for blk in b.blocks:
            for s in blk["s"]:
                if s[0] == "=" and place_has_field(s[1], "buf", "rabin::ChunkIter") and not (b.path.endswith("ChunkIter::<R>::new")):
                    return None
    return cap


# sinks whose safety rests on an internal (not option-derived) invariant the interval analysis cannot see; each maps
# the sink to the option-derived fact that is still required, with the stated lemma
def _is_len_minus_64(s):
    ops = getattr(s, "ops", None)
    return bool(ops) and ops[0][0] == "call" and ops[0][1].endswith("Vec::<T, A>::len") and ops[1] == ("const", 64)


LEMMAS = {
    # (function, sink kind, shape predicate on the operands) - matched by shape, not by position
    ("<chunker::rabin::ChunkIter<R> as std::iter::Iterator>::next", "Overflow:Sub", _is_len_minus_64):
        ("vec.len() >= self.min_size at the window slice: vec holds the carried bytes plus `size` freshly read bytes and the early return for size < min_size - carried has been passed",
         ("ChunkIter", "min_size"), 64),
}


def run_rule(ctx, rep, rule, select):
    rep.rule(rule, "every panicking operation with an option-derived operand is proved safe by intervals / guards / validator facts")
    results, vs, field_inv = analyse_all(ctx)
    n_t = 0
    for (b, a, desc) in results:
        if not select(b):
            continue
        ordn = {}
        for (bb, kind), s in sorted(a.sinks.items()):
            if not s.tainted:
                continue
            n_t += 1
            ordn[kind] = ordn.get(kind, 0) + 1
            lem = next((v for (f, k, pred), v in LEMMAS.items() if f == fn_key(b) and k == kind and pred(s)), None)
            if lem and not s.ok:
                text, fld, need = lem
                inv = field_inv.get(fld)
                okl = inv is not None and inv[0] >= need
                rep.check(rule, f"{fn_key(b)}/{kind}/{ordn[kind]}", okl, where=span_str(s.span),
                          what=f"{fn_key(b)}: {kind} is safe given the lemma [{text}] and the validated invariant {fld[1]} >= {need} (have {inv})" if okl else
                               f"{fn_key(b)}: {kind} needs {fld[1]} >= {need}, but validation only guarantees {inv}: tiny accepted parameters panic here")
                continue
            rep.check(rule, f"{fn_key(b)}/{kind}/{ordn[kind]}", s.ok, where=span_str(s.span),
                      what=f"{fn_key(b)}: {kind} ({s.detail}) cannot trap for any accepted option value" if s.ok else
                           f"{fn_key(b)}: {kind} with an operand derived from {desc} can panic: {s.detail}")
        rep.count(f"{rule}: sinks in {fn_key(b)} (tainted/all)", f"{sum(1 for s in a.sinks.values() if s.tainted)}/{len(a.sinks)}")
    if vs:
        ivs, ge, _ = vs
        rep.observe(f"validator summary check_rabin_params Ok => chunk_size in {ivs.get(1)}, chunk_min_size in {ivs.get(2)}, chunk_max_size in {ivs.get(3)}, relations {sorted(ge)}")
    rep.observe(f"rabin ChunkIter field invariants from the constructor: {field_inv}")
    rep.floor(rule, "option-tainted panicking operations examined", n_t, 3)


def run_c18(ctx, rep):
    run_rule(ctx, rep, "C18.a", lambda b: True)


def run_c06(ctx, rep):
    run_rule(ctx, rep, "C06.a", lambda b: "chunker::" in b.path)


# ---- sizes that come from storage, not from authenticated repository data (C08.l / C05.h) -----------------------------
# The listed size of a pack file, the header-size guess handed in with it, and the 4-byte trailer length field of a pack are
# NOT covered by any MAC: truncation, extension or a flipped bit changes them freely. Every trapping operation they reach
# must be proved safe; otherwise the reader panics (debug) or wraps (release) instead of reporting the damaged pack.
STORAGE_TARGETS = [
    # (function, argument indexes that carry storage-derived sizes, callees whose result is storage-derived, description)
    (r"^rustic_core::repofile::packfile::PackHeader::from_file$", {3, 4}, r"PackHeaderLength::to_u32$",
     "the listed pack size, the header-size guess and the decoded trailer length field"),
]


def run_storage_sizes(ctx, rep, rule):
    rep.rule(rule, "sizes taken from storage (listed pack size, header-size guess, trailer length field) reach no operation that can trap or wrap")
    prog = ctx.prog
    n_t = 0
    for rx, argset, callrx, desc in STORAGE_TARGETS:
        b = prog.find1(rx)
        a = interval.Analysis(prog, b, sources=_src_args(argset), call_sources=re.compile(callrx))
        a.run()
        ordn = {}
        seen_src = any("callee" in t and re.search(callrx, callee(t)) for _, t in b.calls())
        rep.require(rule, f"{fn_key(b)}/trailer-length-decoded", seen_src, where=b.loc(), what=f"{fn_key(b)} decodes the trailer length field ({callrx})")
        for (bb, kind), s in sorted(a.sinks.items()):
            if not s.tainted:
                continue
            n_t += 1
            ops = getattr(s, "ops", None)
            shape = _shape(ops) if ops else str(ordn.get(kind, 0) + 1)
            ordn[kind] = ordn.get(kind, 0) + 1
            rep.check(rule, f"{fn_key(b)}/{kind}/{shape}", s.ok, where=span_str(s.span),
                      what=f"{fn_key(b)}: {kind} ({s.detail}) cannot trap for any listed size / trailer value" if s.ok else
                           f"{fn_key(b)}: {kind} with an operand derived from {desc} can trap: {s.detail} - a truncated or damaged pack panics (debug) or wraps to a bogus offset (release) instead of being reported")
        rep.count(f"{rule}: sinks in {fn_key(b)} (storage-tainted/all)", f"{sum(1 for s in a.sinks.values() if s.tainted)}/{len(a.sinks)}")
    rep.floor(rule, "storage-tainted panicking operations examined", n_t, 2)


def _shape(ops):
    """position-free description of the operands of a trapping operation (parameters, constants, callees)"""
    def one(e, d=0):
        if not isinstance(e, tuple) or d > 3:
            return "?"
        if e[0] == "const":
            return str(e[1])
        if e[0] == "call":
            return e[1].rsplit("::", 1)[-1] + "()"
        if e[0] == "path":
            root = e[1]
            base = f"{root[0]}{root[1]}" if isinstance(root, tuple) and len(root) > 1 else str(root)
            return base + "".join("." + str(f) for f in e[2])
        if e[0] == "bin":
            return "(" + one(e[2], d + 1) + e[1].replace("WithOverflow", "") + one(e[3], d + 1) + ")"
        return e[0]
    return "~".join(one(e) for e in ops)
