// minimal JSON value + serializer (no dependencies)
use std::cell::RefCell;
use std::fmt;

thread_local! {
    static CRATE: RefCell<String> = RefCell::new(String::new());
}

pub fn set_crate(k: &str) {
    CRATE.with(|c| *c.borrow_mut() = k.to_string());
}

// `crate::` at a path start (not preceded by an identifier character or ':') -> `<name>::`
fn requalify(s: &str, k: &str) -> String {
    let mut out = String::with_capacity(s.len() + 16);
    let b = s.as_bytes();
    let mut i = 0;
    while i < b.len() {
        if s[i..].starts_with("crate::") {
            let prev_ok = i == 0 || !(b[i - 1].is_ascii_alphanumeric() || b[i - 1] == b'_' || b[i - 1] == b':');
            if prev_ok {
                out.push_str(k);
                out.push_str("::");
                i += 7;
                continue;
            }
        }
        let ch = s[i..].chars().next().unwrap();
        out.push(ch);
        i += ch.len_utf8();
    }
    out
}

pub enum J {
    Null,
    Bool(bool),
    Int(i128),
    Str(String),
    Raw(String),
    Arr(Vec<J>),
    Obj(Vec<(&'static str, J)>),
}

impl J {
    pub fn s<S: Into<String>>(s: S) -> J {
        J::Str(s.into())
    }
}

fn esc(s: &str, f: &mut fmt::Formatter<'_>) -> fmt::Result {
    f.write_str("\"")?;
    for c in s.chars() {
        match c {
            '"' => f.write_str("\\\"")?,
            '\\' => f.write_str("\\\\")?,
            '\n' => f.write_str("\\n")?,
            '\r' => f.write_str("\\r")?,
            '\t' => f.write_str("\\t")?,
            c if (c as u32) < 0x20 => write!(f, "\\u{:04x}", c as u32)?,
            c => write!(f, "{c}")?,
        }
    }
    f.write_str("\"")
}

impl fmt::Display for J {
    fn fmt(&self, f: &mut fmt::Formatter<'_>) -> fmt::Result {
        match self {
            J::Null => f.write_str("null"),
            J::Bool(b) => write!(f, "{b}"),
            J::Int(i) => write!(f, "{i}"),
            J::Str(s) => {
                if s.contains("crate::") {
                    let k = CRATE.with(|c| c.borrow().clone());
                    esc(&requalify(s, &k), f)
                } else {
                    esc(s, f)
                }
            }
            J::Raw(s) => esc(s, f),
            J::Arr(v) => {
                f.write_str("[")?;
                for (i, x) in v.iter().enumerate() {
                    if i > 0 {
                        f.write_str(",")?;
                    }
                    write!(f, "{x}")?;
                }
                f.write_str("]")
            }
            J::Obj(v) => {
                f.write_str("{")?;
                for (i, (k, x)) in v.iter().enumerate() {
                    if i > 0 {
                        f.write_str(",")?;
                    }
                    esc(k, f)?;
                    f.write_str(":")?;
                    write!(f, "{x}")?;
                }
                f.write_str("}")
            }
        }
    }
}
