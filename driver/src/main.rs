// rcfacts: rustc_private driver that dumps the type-checked program (items, ADTs,
// impls, traits, evaluated consts, MIR with resolved callees and field names) of
// every local crate as one JSON document per crate. Generic: nothing in here is
// specific to rustic_core; all repository-specific rules live in /verif/rules.
//
// Used as RUSTC_WORKSPACE_WRAPPER (cargo passes the real rustc as argv[1]).
// Output: $RCFACTS_OUT/<crate_name>.<crate_type>.json  (one write per process).
#![feature(rustc_private)]
#![allow(clippy::all)]

extern crate rustc_abi;
extern crate rustc_data_structures;
extern crate rustc_driver;
extern crate rustc_hir;
extern crate rustc_interface;
extern crate rustc_middle;
extern crate rustc_session;
extern crate rustc_span;

use rustc_driver::Compilation;
use rustc_hir::def::DefKind;
use rustc_hir::def_id::{DefId, LocalDefId};
use rustc_middle::mir::{
    self, AggregateKind, BasicBlock, Body, Const, ConstValue, Operand, Place, PlaceElem, Rvalue,
    StatementKind, TerminatorKind,
};
use rustc_middle::ty::print::{with_crate_prefix, with_forced_trimmed_paths, with_no_trimmed_paths};
use rustc_middle::ty::{self, Instance, Ty, TyCtxt, TypingEnv};
use rustc_span::Span;
use std::fmt::Write as _;

mod json;
use json::J;

struct Cb;

impl rustc_driver::Callbacks for Cb {
    fn after_analysis<'tcx>(
        &mut self,
        _c: &rustc_interface::interface::Compiler,
        tcx: TyCtxt<'tcx>,
    ) -> Compilation {
        let out = match std::env::var("RCFACTS_OUT") {
            Ok(o) => o,
            Err(_) => return Compilation::Continue,
        };
        let krate = tcx.crate_name(rustc_hir::def_id::LOCAL_CRATE).to_string();
        // build scripts / proc-macro helpers of the workspace are not interesting
        if krate == "build_script_build" {
            return Compilation::Continue;
        }
        let only = std::env::var("RCFACTS_CRATES").unwrap_or_default();
        if !only.is_empty() && !only.split(',').any(|c| c == krate) {
            return Compilation::Continue;
        }
        let ctype = match tcx.crate_types().first() {
            Some(t) => format!("{t:?}").to_lowercase(),
            None => "none".to_string(),
        };
        let doc = with_crate_prefix!(with_no_trimmed_paths!(dump_crate(tcx, &krate)));
        json::set_crate(&krate);
        let path = format!("{out}/{krate}.{ctype}.json");
        let tmp = format!("{path}.tmp{}", std::process::id());
        std::fs::write(&tmp, doc.to_string()).expect("write facts");
        std::fs::rename(&tmp, &path).expect("rename facts");
        Compilation::Continue
    }
}

fn main() -> std::process::ExitCode {
    let mut args: Vec<String> = std::env::args().collect();
    // under RUSTC_WORKSPACE_WRAPPER argv[1] is the path of the real rustc
    if args.len() > 1 && (args[1].ends_with("rustc") || args[1].contains("/rustc")) {
        args.remove(1);
    }
    let mut cb = Cb;
    // propagate rustc's verdict: a tree that does not compile must fail the cargo invocation (no facts, no verdict)
    rustc_driver::catch_with_exit_code(|| rustc_driver::run_compiler(&args, &mut cb))
}

// ---------------------------------------------------------------------------

fn span_j(tcx: TyCtxt<'_>, sp: Span) -> J {
    // [file, line, expansion-kind or null]; the *call site* of a macro expansion is reported
    let exp = if sp.from_expansion() {
        let d = sp.ctxt().outer_expn_data();
        J::s(match d.kind {
            rustc_span::ExpnKind::Macro(_, name) => format!("m:{name}"),
            rustc_span::ExpnKind::Desugaring(k) => format!("d:{k:?}"),
            rustc_span::ExpnKind::AstPass(k) => format!("a:{k:?}"),
            rustc_span::ExpnKind::Root => "root".to_string(),
        })
    } else {
        J::Null
    };
    let sp0 = sp.source_callsite();
    let sm = tcx.sess.source_map();
    let lo = sm.lookup_char_pos(sp0.lo());
    let file = match &lo.file.name {
        rustc_span::FileName::Real(r) => match r.local_path() {
            Some(p) => p.display().to_string(),
            None => format!("{:?}", lo.file.name),
        },
        other => format!("{other:?}"),
    };
    J::Arr(vec![J::s(file), J::Int(lo.line as i128), exp])
}

fn path_of(tcx: TyCtxt<'_>, did: DefId) -> String {
    // printed under with_crate_prefix!: local paths start with `crate::`, which the serializer
    // rewrites to the crate name, so every path in the facts is crate-qualified.
    tcx.def_path_str(did)
}

fn ty_s<'tcx>(ty: Ty<'tcx>) -> String {
    ty.to_string()
}

fn dump_crate<'tcx>(tcx: TyCtxt<'tcx>, krate: &str) -> J {
    let mut bodies = Vec::new();
    let mut consts = Vec::new();
    let mut const_bodies = Vec::new();
    let mut adts = Vec::new();
    let mut impls = Vec::new();
    let mut traits = Vec::new();

    for ldid in tcx.mir_keys(()).iter().copied() {
        let did = ldid.to_def_id();
        let kind = tcx.def_kind(did);
        match kind {
            DefKind::Fn | DefKind::AssocFn | DefKind::Closure => {
                if tcx.is_constructor(did) {
                    continue;
                }
                let body = tcx.optimized_mir(did);
                let mut b = dump_body(tcx, did, body, None);
                let prom = tcx.promoted_mir(did);
                let mut pj = Vec::new();
                for (i, pb) in prom.iter_enumerated() {
                    pj.push(J::Obj(dump_body(tcx, did, pb, Some(i.as_usize()))));
                }
                b.push(("promoted", J::Arr(pj)));
                bodies.push(J::Obj(b));
            }
            DefKind::Const { .. } | DefKind::AssocConst { .. } => {
                // evaluated value where it is a scalar
                let generics = tcx.generics_of(did);
                let val = if generics.requires_monomorphization(tcx) {
                    J::Null
                } else {
                    eval_const_item(tcx, did)
                };
                // the initializer's MIR (needed for trait-provided defaults, which cannot be evaluated polymorphically)
                let cb = tcx.mir_for_ctfe(did);
                const_bodies.push(J::Obj(dump_body(tcx, did, cb, None)));
                let mut o = vec![
                    ("path", J::s(path_of(tcx, did))),
                    ("kind", J::s(format!("{kind:?}"))),
                    ("ty", J::s(ty_s(tcx.type_of(did).instantiate_identity().skip_norm_wip()))),
                    ("span", span_j(tcx, tcx.def_span(did))),
                    ("val", val),
                ];
                if let Some(p) = tcx.opt_parent(did) {
                    if matches!(tcx.def_kind(p), DefKind::Impl { .. }) {
                        o.push(("impl", impl_header(tcx, p)));
                    }
                }
                consts.push(J::Obj(o));
            }
            _ => {}
        }
    }

    let items = tcx.hir_crate_items(());
    for id in items.definitions() {
        let did = id.to_def_id();
        match tcx.def_kind(did) {
            DefKind::Struct | DefKind::Enum | DefKind::Union => adts.push(dump_adt(tcx, did)),
            DefKind::Impl { .. } => impls.push(dump_impl(tcx, did)),
            DefKind::Trait => traits.push(dump_trait(tcx, did)),
            _ => {}
        }
    }

    J::Obj(vec![
        ("crate", J::s(krate)),
        ("bodies", J::Arr(bodies)),
        ("consts", J::Arr(consts)),
        ("const_bodies", J::Arr(const_bodies)),
        ("adts", J::Arr(adts)),
        ("impls", J::Arr(impls)),
        ("traits", J::Arr(traits)),
    ])
}

fn eval_const_item<'tcx>(tcx: TyCtxt<'tcx>, did: DefId) -> J {
    match tcx.const_eval_poly(did) {
        Ok(v) => const_value_j(tcx, v, tcx.type_of(did).instantiate_identity().skip_norm_wip()),
        Err(_) => J::Null,
    }
}

fn const_value_j<'tcx>(tcx: TyCtxt<'tcx>, v: ConstValue, ty: Ty<'tcx>) -> J {
    match v {
        ConstValue::Scalar(mir::interpret::Scalar::Int(i)) => scalar_int_j(i, ty),
        ConstValue::ZeroSized => J::s("zst"),
        ConstValue::Scalar(mir::interpret::Scalar::Ptr(ptr, _)) => {
            // `&[u8; N]` literals (byte strings, format_args! templates): the bytes of the pointed-to allocation
            if let ty::Ref(_, inner, _) = ty.kind() {
                if let ty::Array(elem, len) = inner.kind() {
                    if matches!(elem.kind(), ty::Uint(ty::UintTy::U8)) {
                        if let Some(n) = len.try_to_target_usize(tcx) {
                            let (prov, off) = ptr.prov_and_relative_offset();
                            if let mir::interpret::GlobalAlloc::Memory(alloc) = tcx.global_alloc(prov.alloc_id()) {
                                let a = alloc.inner();
                                let start = off.bytes_usize();
                                let end = start + n as usize;
                                if end <= a.len() {
                                    let bytes = a.inspect_with_uninit_and_ptr_outside_interpreter(start..end);
                                    return J::Obj(vec![("bytes", J::Arr(bytes.iter().map(|b| J::Int(*b as i128)).collect()))]);
                                }
                            }
                        }
                    }
                }
            }
            // `&STATIC`: a reference to a static item
            {
                let (prov, _off) = ptr.prov_and_relative_offset();
                if let mir::interpret::GlobalAlloc::Static(sdid) = tcx.global_alloc(prov.alloc_id()) {
                    return J::Obj(vec![("static", J::s(path_of(tcx, sdid))), ("mutable", J::Bool(tcx.is_mutable_static(sdid)))]);
                }
            }
            J::Null
        }
        ConstValue::Slice { .. } => {
            if let Some(bytes) = v.try_get_slice_bytes_for_diagnostics(tcx) {
                match std::str::from_utf8(bytes) {
                    Ok(s) => J::Obj(vec![("str", J::Raw(s.to_string()))]),
                    Err(_) => J::Obj(vec![(
                        "bytes",
                        J::Arr(bytes.iter().map(|b| J::Int(*b as i128)).collect()),
                    )]),
                }
            } else {
                J::Null
            }
        }
        _ => J::Null,
    }
}

fn scalar_int_j<'tcx>(i: ty::ScalarInt, ty: Ty<'tcx>) -> J {
    let size = i.size();
    let bits = i.to_bits(size);
    match ty.kind() {
        ty::Bool => J::Bool(bits != 0),
        ty::Int(_) => {
            let sz = size.bits();
            let v = if sz == 128 {
                bits as i128
            } else {
                let shift = 128 - sz;
                ((bits << shift) as i128) >> shift
            };
            J::Int(v)
        }
        ty::Char => J::Obj(vec![("char", J::Int(bits as i128))]),
        _ => {
            if bits > i128::MAX as u128 {
                J::s(format!("{bits}"))
            } else {
                J::Int(bits as i128)
            }
        }
    }
}

fn impl_header<'tcx>(tcx: TyCtxt<'tcx>, impl_did: DefId) -> J {
    let self_ty = tcx.type_of(impl_did).instantiate_identity().skip_norm_wip();
    let tr = tcx
        .impl_opt_trait_ref(impl_did)
        .map(|t| t.instantiate_identity().skip_norm_wip());
    let mut o = vec![("self", J::s(ty_s(self_ty)))];
    if let ty::Adt(adt, _) = self_ty.kind() {
        o.push(("self_adt", J::s(tcx.def_path_str(adt.did()))));
    }
    if let Some(t) = tr {
        o.push(("trait", J::s(tcx.def_path_str(t.def_id))));
        o.push(("trait_ref", J::s(t.to_string())));
    }
    J::Obj(o)
}

fn dump_impl<'tcx>(tcx: TyCtxt<'tcx>, did: DefId) -> J {
    let mut items = Vec::new();
    for it in tcx.associated_items(did).in_definition_order() {
        let mut o = vec![
            ("name", J::s(it.name().to_string())),
            ("kind", J::s(format!("{:?}", it.tag()))),
            ("path", J::s(path_of(tcx, it.def_id))),
        ];
        if let Some(t) = it.trait_item_def_id() {
            o.push(("trait_item", J::s(tcx.def_path_str(t))));
        }
        items.push(J::Obj(o));
    }
    J::Obj(vec![
        ("header", impl_header(tcx, did)),
        ("span", span_j(tcx, tcx.def_span(did))),
        ("items", J::Arr(items)),
    ])
}

fn dump_trait<'tcx>(tcx: TyCtxt<'tcx>, did: DefId) -> J {
    let mut items = Vec::new();
    for it in tcx.associated_items(did).in_definition_order() {
        items.push(J::Obj(vec![
            ("name", J::s(it.name().to_string())),
            ("kind", J::s(format!("{:?}", it.tag()))),
            ("path", J::s(path_of(tcx, it.def_id))),
            ("has_default", J::Bool(it.defaultness(tcx).has_value())),
        ]));
    }
    J::Obj(vec![
        ("path", J::s(path_of(tcx, did))),
        ("items", J::Arr(items)),
    ])
}

fn dump_adt<'tcx>(tcx: TyCtxt<'tcx>, did: DefId) -> J {
    let adt = tcx.adt_def(did);
    let mut variants = Vec::new();
    for (vi, v) in adt.variants().iter_enumerated() {
        let mut fields = Vec::new();
        for f in v.fields.iter() {
            fields.push(J::Arr(vec![
                J::s(f.name.to_string()),
                J::s(ty_s(tcx.type_of(f.did).instantiate_identity().skip_norm_wip())),
            ]));
        }
        let discr = if adt.is_enum() {
            J::s(adt.discriminant_for_variant(tcx, vi).val.to_string())
        } else {
            J::Null
        };
        variants.push(J::Obj(vec![
            ("name", J::s(v.name.to_string())),
            ("discr", discr),
            ("fields", J::Arr(fields)),
        ]));
    }
    J::Obj(vec![
        ("path", J::s(path_of(tcx, did))),
        ("kind", J::s(format!("{:?}", adt.adt_kind()))),
        ("span", span_j(tcx, tcx.def_span(did))),
        ("variants", J::Arr(variants)),
    ])
}

// ---------------------------------------------------------------------------

fn dump_body<'tcx>(
    tcx: TyCtxt<'tcx>,
    did: DefId,
    body: &Body<'tcx>,
    promoted: Option<usize>,
) -> Vec<(&'static str, J)> {
    let kind = tcx.def_kind(did);
    let mut o: Vec<(&'static str, J)> = Vec::new();
    o.push(("path", J::s(path_of(tcx, did))));
    if let Some(p) = promoted {
        o.push(("promoted_idx", J::Int(p as i128)));
    }
    o.push(("kind", J::s(format!("{kind:?}"))));
    o.push(("span", span_j(tcx, body.span)));
    if promoted.is_none() {
        if matches!(kind, DefKind::Fn | DefKind::AssocFn) {
            let vis = tcx.visibility(did);
            o.push(("pub", J::Bool(vis.is_public())));
            if let Some(l) = did.as_local() {
                let ev = tcx.effective_visibilities(());
                o.push(("reachable", J::Bool(ev.is_reachable(l))));
                o.push(("exported", J::Bool(ev.is_exported(l))));
            }
        }
        if let Some(p) = tcx.opt_parent(did) {
            match tcx.def_kind(p) {
                DefKind::Impl { .. } => o.push(("impl", impl_header(tcx, p))),
                DefKind::Trait => o.push(("in_trait", J::s(path_of(tcx, p)))),
                _ => {}
            }
        }
        if matches!(kind, DefKind::Closure) {
            let parent = tcx.typeck_root_def_id(did);
            o.push(("root", J::s(path_of(tcx, parent))));
            if let Some(p) = tcx.opt_parent(did) {
                o.push(("parent", J::s(path_of(tcx, p))));
            }
        }
        // cfg(test) items never reach here under `cargo check` of the lib target
    }
    if promoted.is_none() {
        let g = tcx.generics_of(did);
        let mut names = Vec::new();
        for i in 0..g.count() {
            names.push(J::s(g.param_at(i, tcx).name.to_string()));
        }
        o.push(("generics", J::Arr(names)));
    }
    o.push(("argc", J::Int(body.arg_count as i128)));
    // locals
    let mut locals = Vec::new();
    for l in body.local_decls.iter() {
        locals.push(J::s(ty_s(l.ty)));
    }
    o.push(("locals", J::Arr(locals)));
    // debug names
    let mut dbg = Vec::new();
    for v in body.var_debug_info.iter() {
        if let mir::VarDebugInfoContents::Place(p) = &v.value {
            dbg.push(J::Arr(vec![J::s(v.name.to_string()), place_j(tcx, body, p)]));
        } else if let mir::VarDebugInfoContents::Const(c) = &v.value {
            dbg.push(J::Arr(vec![J::s(v.name.to_string()), const_j(tcx, did, &c.const_)]));
        }
    }
    o.push(("dbg", J::Arr(dbg)));
    // blocks
    let mut blocks = Vec::new();
    for (_bb, data) in body.basic_blocks.iter_enumerated() {
        let mut stmts = Vec::new();
        for st in data.statements.iter() {
            match &st.kind {
                StatementKind::Assign(b) => {
                    let (pl, rv) = &**b;
                    stmts.push(J::Arr(vec![
                        J::s("="),
                        place_j(tcx, body, pl),
                        rvalue_j(tcx, did, body, rv),
                        span_j(tcx, st.source_info.span),
                    ]));
                }
                StatementKind::SetDiscriminant { place, variant_index } => {
                    stmts.push(J::Arr(vec![
                        J::s("setdiscr"),
                        place_j(tcx, body, place),
                        J::Int(variant_index.as_usize() as i128),
                    ]));
                }
                StatementKind::Intrinsic(i) => {
                    stmts.push(J::Arr(vec![J::s("intrinsic"), J::s(format!("{i:?}"))]));
                }
                _ => {}
            }
        }
        let term = data.terminator();
        let tj = term_j(tcx, did, body, term);
        blocks.push(J::Obj(vec![
            ("s", J::Arr(stmts)),
            ("t", tj),
            ("cleanup", J::Bool(data.is_cleanup)),
        ]));
    }
    o.push(("blocks", J::Arr(blocks)));
    o
}

fn bb(b: BasicBlock) -> J {
    J::Int(b.as_usize() as i128)
}

fn unwind_j(u: &mir::UnwindAction) -> J {
    match u {
        mir::UnwindAction::Cleanup(b) => bb(*b),
        _ => J::Null,
    }
}

fn term_j<'tcx>(tcx: TyCtxt<'tcx>, did: DefId, body: &Body<'tcx>, term: &mir::Terminator<'tcx>) -> J {
    let sp = span_j(tcx, term.source_info.span);
    match &term.kind {
        TerminatorKind::Goto { target } => J::Obj(vec![("k", J::s("goto")), ("to", bb(*target))]),
        TerminatorKind::SwitchInt { discr, targets } => {
            let mut ts = Vec::new();
            for (v, t) in targets.iter() {
                ts.push(J::Arr(vec![J::s(v.to_string()), bb(t)]));
            }
            J::Obj(vec![
                ("k", J::s("switch")),
                ("discr", operand_j(tcx, did, body, discr)),
                ("discr_ty", J::s(ty_s(discr.ty(body, tcx)))),
                ("targets", J::Arr(ts)),
                ("otherwise", bb(targets.otherwise())),
                ("span", sp),
            ])
        }
        TerminatorKind::Return => J::Obj(vec![("k", J::s("return")), ("span", sp)]),
        TerminatorKind::Unreachable => J::Obj(vec![("k", J::s("unreachable"))]),
        TerminatorKind::UnwindResume => J::Obj(vec![("k", J::s("resume"))]),
        TerminatorKind::UnwindTerminate(_) => J::Obj(vec![("k", J::s("terminate"))]),
        TerminatorKind::Drop { place, target, unwind, .. } => J::Obj(vec![
            ("k", J::s("drop")),
            ("place", place_j(tcx, body, place)),
            ("ty", J::s(ty_s(place.ty(body, tcx).ty))),
            ("to", bb(*target)),
            ("unwind", unwind_j(unwind)),
        ]),
        TerminatorKind::Call { func, args, destination, target, unwind, .. } => {
            let mut o = vec![("k", J::s("call"))];
            callee_j(tcx, did, body, func, &mut o);
            o.push(("args", J::Arr(args.iter().map(|a| operand_j(tcx, did, body, &a.node)).collect())));
            o.push(("dest", place_j(tcx, body, destination)));
            o.push(("dest_ty", J::s(ty_s(destination.ty(body, tcx).ty))));
            o.push(("to", target.map(bb).unwrap_or(J::Null)));
            o.push(("unwind", unwind_j(unwind)));
            o.push(("span", sp));
            J::Obj(o)
        }
        TerminatorKind::TailCall { func, args, .. } => {
            let mut o = vec![("k", J::s("tailcall"))];
            callee_j(tcx, did, body, func, &mut o);
            o.push(("args", J::Arr(args.iter().map(|a| operand_j(tcx, did, body, &a.node)).collect())));
            o.push(("span", sp));
            J::Obj(o)
        }
        TerminatorKind::Assert { cond, expected, msg, target, unwind } => {
            let (kind, ops): (String, Vec<J>) = match &**msg {
                mir::AssertKind::BoundsCheck { len, index } => (
                    "BoundsCheck".into(),
                    vec![operand_j(tcx, did, body, len), operand_j(tcx, did, body, index)],
                ),
                mir::AssertKind::Overflow(op, a, b) => (
                    format!("Overflow:{op:?}"),
                    vec![operand_j(tcx, did, body, a), operand_j(tcx, did, body, b)],
                ),
                mir::AssertKind::OverflowNeg(a) => ("OverflowNeg".into(), vec![operand_j(tcx, did, body, a)]),
                mir::AssertKind::DivisionByZero(a) => ("DivisionByZero".into(), vec![operand_j(tcx, did, body, a)]),
                mir::AssertKind::RemainderByZero(a) => ("RemainderByZero".into(), vec![operand_j(tcx, did, body, a)]),
                other => (format!("{other:?}").split('(').next().unwrap_or("Other").to_string(), vec![]),
            };
            J::Obj(vec![
                ("k", J::s("assert")),
                ("cond", operand_j(tcx, did, body, cond)),
                ("expected", J::Bool(*expected)),
                ("kind", J::s(kind)),
                ("ops", J::Arr(ops)),
                ("to", bb(*target)),
                ("unwind", unwind_j(unwind)),
                ("span", sp),
            ])
        }
        TerminatorKind::Yield { resume, drop, .. } => J::Obj(vec![
            ("k", J::s("yield")),
            ("to", bb(*resume)),
            ("drop", drop.map(bb).unwrap_or(J::Null)),
        ]),
        TerminatorKind::CoroutineDrop => J::Obj(vec![("k", J::s("coroutine_drop"))]),
        TerminatorKind::FalseEdge { real_target, .. } => {
            J::Obj(vec![("k", J::s("goto")), ("to", bb(*real_target))])
        }
        TerminatorKind::FalseUnwind { real_target, .. } => {
            J::Obj(vec![("k", J::s("goto")), ("to", bb(*real_target))])
        }
        TerminatorKind::InlineAsm { targets, .. } => J::Obj(vec![
            ("k", J::s("asm")),
            ("targets", J::Arr(targets.iter().map(|t| bb(*t)).collect())),
        ]),
    }
}

fn callee_j<'tcx>(
    tcx: TyCtxt<'tcx>,
    did: DefId,
    body: &Body<'tcx>,
    func: &Operand<'tcx>,
    o: &mut Vec<(&'static str, J)>,
) {
    let fty = func.ty(body, tcx);
    match fty.kind() {
        ty::FnDef(cdid, cargs) => {
            fndef_j(tcx, did, *cdid, cargs, o);
        }
        _ => {
            // call through a fn pointer / closure value held in a place
            o.push(("indirect", operand_j(tcx, did, body, func)));
            o.push(("fn_ty", J::s(ty_s(fty))));
        }
    }
}

fn fndef_j<'tcx>(
    tcx: TyCtxt<'tcx>,
    did: DefId,
    cdid: DefId,
    cargs: ty::GenericArgsRef<'tcx>,
    o: &mut Vec<(&'static str, J)>,
) {
    o.push(("callee", J::s(path_of(tcx, cdid))));
    o.push(("cname", J::s(tcx.item_name(cdid).to_string())));
    o.push(("gargs", J::Arr(cargs.iter().map(|a| J::s(a.to_string())).collect())));
    if let Some(tr) = tcx.trait_of_assoc(cdid) {
        o.push(("trait", J::s(tcx.def_path_str(tr))));
    }
    if let Some(p) = tcx.opt_parent(cdid) {
        if matches!(tcx.def_kind(p), DefKind::Impl { .. }) {
            o.push(("cimpl", impl_header(tcx, p)));
        }
    }
    // resolve through the trait system where the receiver type is known
    let env = TypingEnv::post_analysis(tcx, did);
    let res = std::panic::catch_unwind(std::panic::AssertUnwindSafe(|| {
        Instance::try_resolve(tcx, env, cdid, cargs)
    }));
    if let Ok(Ok(Some(inst))) = res {
        let rdid = inst.def_id();
        if rdid != cdid {
            let mut r = vec![
                ("path", J::s(path_of(tcx, rdid))),
                ("gargs", J::Arr(inst.args.iter().map(|a| J::s(a.to_string())).collect())),
                ("def", J::s(format!("{:?}", inst.def).split('(').next().unwrap_or("").to_string())),
            ];
            if let Some(p) = tcx.opt_parent(rdid) {
                if matches!(tcx.def_kind(p), DefKind::Impl { .. }) {
                    r.push(("impl", impl_header(tcx, p)));
                }
            }
            o.push(("resolved", J::Obj(r)));
        } else {
            o.push(("resolved_same", J::Bool(true)));
        }
    }
}

fn place_j<'tcx>(tcx: TyCtxt<'tcx>, body: &Body<'tcx>, p: &Place<'tcx>) -> J {
    // [local, proj...]; proj: "*" deref, ["f", idx, name|null, variant|null], ["d", variant], ["i", local], "ci", "sub", "oc", "ub"
    let mut v = vec![J::Int(p.local.as_usize() as i128)];
    let mut pty = mir::PlaceTy::from_ty(body.local_decls[p.local].ty);
    for elem in p.projection.iter() {
        match elem {
            PlaceElem::Deref => v.push(J::s("*")),
            PlaceElem::Field(f, _) => {
                let mut name = J::Null;
                let mut vname = J::Null;
                let mut owner = J::Null;
                match pty.ty.kind() {
                    ty::Adt(adt, _) => {
                        let vi = pty.variant_index.unwrap_or(rustc_abi::FIRST_VARIANT);
                        if vi.as_usize() < adt.variants().len() {
                            let var = adt.variant(vi);
                            if f.as_usize() < var.fields.len() {
                                name = J::s(var.fields[f].name.to_string());
                            }
                            if adt.is_enum() {
                                vname = J::s(var.name.to_string());
                            }
                        }
                        owner = J::s(tcx.def_path_str(adt.did()));
                    }
                    ty::Closure(..) => owner = J::s("{closure}"),
                    ty::Tuple(..) => owner = J::s("()"),
                    _ => {}
                }
                v.push(J::Arr(vec![J::s("f"), J::Int(f.as_usize() as i128), name, vname, owner]));
            }
            PlaceElem::Downcast(sym, vi) => {
                let n = match sym {
                    Some(s) => s.to_string(),
                    None => format!("{}", vi.as_usize()),
                };
                v.push(J::Arr(vec![J::s("d"), J::s(n)]));
            }
            PlaceElem::Index(l) => v.push(J::Arr(vec![J::s("i"), J::Int(l.as_usize() as i128)])),
            PlaceElem::ConstantIndex { offset, from_end, .. } => {
                v.push(J::Arr(vec![J::s("ci"), J::Int(offset as i128), J::Bool(from_end)]))
            }
            PlaceElem::Subslice { from, to, from_end } => {
                v.push(J::Arr(vec![J::s("sub"), J::Int(from as i128), J::Int(to as i128), J::Bool(from_end)]))
            }
            PlaceElem::OpaqueCast(_) => v.push(J::s("oc")),
            PlaceElem::UnwrapUnsafeBinder(_) => v.push(J::s("ub")),
        }
        pty = pty.projection_ty(tcx, elem);
    }
    J::Arr(v)
}

fn const_j<'tcx>(tcx: TyCtxt<'tcx>, did: DefId, c: &Const<'tcx>) -> J {
    let ty = c.ty();
    let mut o: Vec<(&'static str, J)> = vec![("ty", J::s(ty_s(ty)))];
    if let ty::FnDef(fd, fargs) = ty.kind() {
        let mut f = Vec::new();
        fndef_j(tcx, did, *fd, fargs, &mut f);
        o.push(("fn", J::Obj(f)));
        return J::Obj(o);
    }
    match c {
        Const::Val(v, t) => {
            let j = const_value_j(tcx, *v, *t);
            o.push(("v", j));
        }
        Const::Unevaluated(u, _) => {
            if let Some(p) = u.promoted {
                o.push(("promoted", J::Int(p.as_usize() as i128)));
            } else {
                o.push(("item", J::s(path_of(tcx, u.def))));
                o.push(("item_gargs", J::Arr(u.args.iter().map(|a| J::s(a.to_string())).collect())));
                // try to evaluate (associated consts with concrete impl)
                let env = TypingEnv::post_analysis(tcx, did);
                let r = std::panic::catch_unwind(std::panic::AssertUnwindSafe(|| {
                    c.eval(tcx, env, rustc_span::DUMMY_SP)
                }));
                if let Ok(Ok(v)) = r {
                    o.push(("v", const_value_j(tcx, v, ty)));
                }
            }
        }
        Const::Ty(_, ct) => {
            o.push(("tyconst", J::s(format!("{ct}"))));
            if let Some(si) = ct.try_to_leaf() {
                o.push(("v", scalar_int_j(si, ty)));
            }
        }
    }
    J::Obj(o)
}

fn operand_j<'tcx>(tcx: TyCtxt<'tcx>, did: DefId, body: &Body<'tcx>, op: &Operand<'tcx>) -> J {
    match op {
        Operand::Copy(p) => J::Arr(vec![J::s("c"), place_j(tcx, body, p)]),
        Operand::Move(p) => J::Arr(vec![J::s("m"), place_j(tcx, body, p)]),
        Operand::Constant(c) => J::Arr(vec![J::s("k"), const_j(tcx, did, &c.const_)]),
        #[allow(unreachable_patterns)]
        _ => J::Arr(vec![J::s("?"), J::s(format!("{op:?}"))]),
    }
}

fn rvalue_j<'tcx>(tcx: TyCtxt<'tcx>, did: DefId, body: &Body<'tcx>, rv: &Rvalue<'tcx>) -> J {
    match rv {
        Rvalue::Use(op, ..) => J::Arr(vec![J::s("use"), operand_j(tcx, did, body, op)]),
        Rvalue::CopyForDeref(p) => J::Arr(vec![J::s("use"), J::Arr(vec![J::s("c"), place_j(tcx, body, p)])]),
        Rvalue::Repeat(op, n) => J::Arr(vec![J::s("repeat"), operand_j(tcx, did, body, op), J::s(format!("{n}"))]),
        Rvalue::Ref(_, bk, p) => {
            let m = matches!(bk, mir::BorrowKind::Mut { .. });
            J::Arr(vec![J::s(if m { "refmut" } else { "ref" }), place_j(tcx, body, p)])
        }
        Rvalue::RawPtr(_, p) => J::Arr(vec![J::s("rawptr"), place_j(tcx, body, p)]),
        Rvalue::Cast(k, op, ty) => J::Arr(vec![
            J::s("cast"),
            J::s(format!("{k:?}")),
            operand_j(tcx, did, body, op),
            J::s(ty_s(*ty)),
            J::s(ty_s(op.ty(body, tcx))),
        ]),
        Rvalue::BinaryOp(op, b) => J::Arr(vec![
            J::s("bin"),
            J::s(format!("{op:?}")),
            operand_j(tcx, did, body, &b.0),
            operand_j(tcx, did, body, &b.1),
            J::s(ty_s(b.0.ty(body, tcx))),
        ]),
        Rvalue::UnaryOp(op, a) => J::Arr(vec![J::s("un"), J::s(format!("{op:?}")), operand_j(tcx, did, body, a)]),
        Rvalue::Discriminant(p) => J::Arr(vec![
            J::s("discr"),
            place_j(tcx, body, p),
            J::s(ty_s(p.ty(body, tcx).ty)),
        ]),
        Rvalue::Aggregate(k, ops) => {
            let kj = match &**k {
                AggregateKind::Array(_) => J::Arr(vec![J::s("array")]),
                AggregateKind::Tuple => J::Arr(vec![J::s("tuple")]),
                AggregateKind::Adt(adid, vi, _, _, _) => {
                    let adt = tcx.adt_def(*adid);
                    let var = adt.variant(*vi);
                    J::Arr(vec![
                        J::s("adt"),
                        J::s(tcx.def_path_str(*adid)),
                        J::s(var.name.to_string()),
                        J::Arr(var.fields.iter().map(|f| J::s(f.name.to_string())).collect()),
                    ])
                }
                AggregateKind::Closure(cd, _) => J::Arr(vec![J::s("closure"), J::s(path_of(tcx, *cd))]),
                AggregateKind::Coroutine(cd, _) => J::Arr(vec![J::s("coroutine"), J::s(path_of(tcx, *cd))]),
                AggregateKind::CoroutineClosure(cd, _) => J::Arr(vec![J::s("coroutine_closure"), J::s(path_of(tcx, *cd))]),
                AggregateKind::RawPtr(..) => J::Arr(vec![J::s("rawptr")]),
            };
            J::Arr(vec![
                J::s("agg"),
                kj,
                J::Arr(ops.iter().map(|o| operand_j(tcx, did, body, o)).collect()),
            ])
        }
        Rvalue::ThreadLocalRef(d) => J::Arr(vec![J::s("tls"), J::s(path_of(tcx, *d))]),
        Rvalue::WrapUnsafeBinder(op, _) => J::Arr(vec![J::s("use"), operand_j(tcx, did, body, op)]),
        #[allow(unreachable_patterns)]
        _ => {
            let mut s = String::new();
            let _ = write!(s, "{rv:?}");
            J::Arr(vec![J::s("other"), J::s(s)])
        }
    }
}

#[allow(dead_code)]
fn unused(_: LocalDefId) {
    let _ = with_forced_trimmed_paths!(0);
}
