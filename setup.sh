#!/bin/bash
# Run once after a fresh restore, offline: builds the rcfacts driver and warms the nightly check cache
# (dependencies are type-checked once; every check afterwards only re-checks the three workspace members).
set -e
cd "$(dirname "$0")"
export CARGO_NET_OFFLINE=true
(cd driver && cargo +nightly build --release --offline 2>&1 | tail -2)
python3 engine/extract.py default
echo "setup ok"
