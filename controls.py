"""Positive controls of the thorough tier: every recorded breaking change (mutants/*.diff, seeded/*/patch.diff) that
selftest/matrix.json lists as caught by this property is applied to a SCRATCH COPY of the analysed tree (never to /repo
itself), the property's quick rules are run on that copy (static analysis of the copy's MIR - nothing is executed) and
the control passes iff the recorded rule keys fire again. A rule that silently stopped matching anything therefore
shows up on every thorough run. Controls whose patch no longer applies to the current tree are skipped and listed.
A failed control is reported in the evidence and as a SELFTEST-MISS line; it is not a property violation."""
import fcntl
import glob
import json
import os
import re
import shutil
import subprocess

HERE = os.path.dirname(os.path.abspath(__file__))
SCRATCH_ROOT = os.environ.get("VERIF_SCRATCH", "/var/tmp/verif-controls")


def _sh(cmd, cwd=None):
    return subprocess.run(cmd, shell=True, cwd=cwd, text=True, stdout=subprocess.PIPE, stderr=subprocess.STDOUT)


def _copy_tree(repo, dst):
    shutil.rmtree(dst, ignore_errors=True)
    os.makedirs(dst)
    # tracked + untracked-but-not-ignored files of the current working tree, without .git and target/
    r = _sh("git ls-files -co --exclude-standard -z", cwd=repo)
    if r.returncode != 0:
        # not a git checkout: plain copy without target/
        _sh(f"rsync -a --exclude target --exclude .git {repo}/ {dst}/")
        return
    files = [f for f in r.stdout.split("\0") if f and os.path.isfile(os.path.join(repo, f))]
    p = subprocess.Popen(["rsync", "-a", "--files-from=-", "--from0", repo + "/", dst + "/"], stdin=subprocess.PIPE, text=True)
    p.communicate("\0".join(files))


def candidates(prop):
    mp = os.path.join(HERE, "selftest", "matrix.json")
    if not os.path.exists(mp):
        return []
    m = json.load(open(mp))
    out = []
    for name, rec in sorted(m.items()):
        keys = (rec.get("caught") or {}).get(prop)
        if not keys:
            continue
        patch = os.path.join(HERE, "mutants", name + ".diff")
        if not os.path.exists(patch):
            patch = os.path.join(HERE, "seeded", name, "patch.diff")
        if os.path.exists(patch):
            out.append((name, patch, keys))
    return out


def _touched(patch):
    out = set()
    for line in open(patch, errors="replace"):
        if line.startswith("+++ b/"):
            out.add(line[6:].strip())
    return out


def negative_candidates(prop):
    """behaviour-preserving patches (neutral/) that touch a file the property is anchored in"""
    anchors = set()
    for line in open(os.path.join(HERE, "properties.jsonl")):
        pj = json.loads(line)
        if pj["id"] == prop:
            anchors = set(pj.get("anchors", {}).get("files", []))
    out = []
    for f in sorted(glob.glob(os.path.join(HERE, "neutral", "*.diff"))):
        if _touched(f) & anchors:
            out.append((os.path.basename(f)[:-5], f))
    return out


def run_negative(prop, repo, known_keys, limit=12):
    """negative controls: the property's quick rules must stay silent on behaviour-preserving variants of its code"""
    cands = negative_candidates(prop)[:limit]
    res = []
    if not cands:
        return res
    os.makedirs(SCRATCH_ROOT, exist_ok=True)
    lock = open(os.path.join(SCRATCH_ROOT, f"{prop}.lock"), "w")
    fcntl.flock(lock, fcntl.LOCK_EX)
    scratch = os.path.join(SCRATCH_ROOT, prop)
    try:
        for name, patch in cands:
            _copy_tree(repo, scratch)
            if _sh(f"patch -p1 --dry-run -s -f < {patch}", cwd=scratch).returncode != 0 or _sh(f"patch -p1 -s -f < {patch}", cwd=scratch).returncode != 0:
                res.append({"control": name, "status": "skipped", "reason": "patch does not apply to the current tree"})
                continue
            r = _sh(f"VERIF_NO_CONTROLS=1 {HERE}/check {prop} --tier quick --no-evidence --repo {scratch}")
            fired = [k for k in re.findall(r"^\s+key=(.+?)\s*$", r.stdout, re.M) if k not in known_keys]
            if "CHECKER-ERROR" in r.stdout:
                res.append({"control": name, "status": "no-verdict", "detail": r.stdout[-300:]})
            else:
                res.append({"control": name, "status": "silent" if not fired else "false-alarm", "fired_keys": fired[:8]})
    finally:
        shutil.rmtree(scratch, ignore_errors=True)
        fcntl.flock(lock, fcntl.LOCK_UN)
        lock.close()
    return res


def run(prop, repo, known_keys):
    cands = candidates(prop)
    res = []
    if not cands:
        return res
    os.makedirs(SCRATCH_ROOT, exist_ok=True)
    lock = open(os.path.join(SCRATCH_ROOT, f"{prop}.lock"), "w")
    fcntl.flock(lock, fcntl.LOCK_EX)
    scratch = os.path.join(SCRATCH_ROOT, prop)
    try:
        for name, patch, keys in cands:
            _copy_tree(repo, scratch)
            if _sh(f"git apply --check --unsafe-paths {patch} 2>&1 || patch -p1 --dry-run -s -f < {patch}", cwd=scratch).returncode != 0:
                res.append({"control": name, "status": "skipped", "reason": "patch does not apply to the current tree"})
                continue
            if _sh(f"patch -p1 -s -f < {patch}", cwd=scratch).returncode != 0:
                res.append({"control": name, "status": "skipped", "reason": "patch does not apply to the current tree"})
                continue
            env_cmd = f"VERIF_NO_CONTROLS=1 {HERE}/check {prop} --tier quick --no-evidence --repo {scratch}"
            r = _sh(env_cmd)
            fired = [k for k in re.findall(r"^\s+key=(.+?)\s*$", r.stdout, re.M) if k not in known_keys]
            again = [k for k in keys if k in fired]
            st = "caught" if (again and re.search(r"^VIOLATION", r.stdout, re.M)) else ("caught-by-other-key" if fired else "missed")
            res.append({"control": name, "status": st, "expected_keys": keys, "fired_keys": fired[:12]})
    finally:
        shutil.rmtree(scratch, ignore_errors=True)
        fcntl.flock(lock, fcntl.LOCK_UN)
        lock.close()
    return res
